.PHONY: engine
# setup: nothing to pre-build -- every check compiles the engine together with its harness against the
# library objects of /repo's current working tree (run_check.py).  This target only verifies the toolchain.
engine:
	@gcc --version >/dev/null && clang --version >/dev/null && /usr/bin/python3 -c "import json" && mkdir -p build evidence replays && echo "verif engine: toolchain ok"
