engine:
	@true
