"""Registry: property id -> harnesses (see run_check.py).  One JSON spec per property in harness/<ID>.json:
{"explanation": "...", "assumptions": [...], "harnesses": [{"name": "h_C11", "sources": ["harness/h_C11.c", "$ENG"], "variant": "asan",
  "wrap": ["GetNProcessor"], "workers": 16, "deadline": {"quick": 150, "thorough": 1200}, "args": {"quick": [], "thorough": []}, "tiers": ["quick","thorough"]}]}
"$ENG" expands to the engine sources; "$RNG" / "$THREADS" inside "wrap" expand to the usual symbol lists."""
import json, glob, os
HERE = os.path.dirname(os.path.abspath(__file__))
RNG_WRAPS = ["srand_", "rand_", "randInt", "randDouble"]
THREAD_WRAPS = ["pthread_create", "pthread_join", "pthread_exit", "pthread_tryjoin_np"]
ENG = ["engine/vx.c", "engine/vnum.c"]


def _expand(lst, table):
    out = []
    for x in lst:
        out += table.get(x, [x])
    return out


CHECKS = {}
for f in sorted(glob.glob(os.path.join(HERE, "harness", "*.json"))):
    pid = os.path.basename(f)[:-5]
    spec = json.load(open(f))
    for h in spec["harnesses"]:
        h["sources"] = _expand(h.get("sources", []), {"$ENG": ENG})
        h["wrap"] = _expand(h.get("wrap", []), {"$RNG": RNG_WRAPS, "$THREADS": THREAD_WRAPS})
    CHECKS[pid] = spec
