"""Registry: property id -> harnesses (see run_check.py)."""
RNG_WRAPS = ["srand_", "rand_", "randInt", "randDouble"]
THREAD_WRAPS = ["pthread_create", "pthread_join", "pthread_exit"]
ENG = ["engine/vx.c"]

CHECKS = {
    "SELFTEST": {
        "explanation": "engine self test: planted oracle failure, planted crash, planted hang",
        "harnesses": [{"name": "h_selftest", "sources": ["harness/h_selftest.c"] + ENG, "workers": 4}],
    },
}
