#include "vnum.h"
#include <stdlib.h>
#include <string.h>
#include <math.h>

rmat *rm_new(int r, int c) {
  rmat *m = malloc(sizeof *m); m->r = r; m->c = c;
  m->a = calloc((size_t)(r > 0 ? r : 0) * (size_t)(c > 0 ? c : 0) + 1, sizeof(ld));
  return m;
}
void rm_free(rmat *m) { if (m) { free(m->a); free(m); } }
rmat *rm_copy(const rmat *m) { rmat *x = rm_new(m->r, m->c); memcpy(x->a, m->a, sizeof(ld) * (size_t)m->r * (size_t)m->c); return x; }
rmat *rm_mul(const rmat *a, const rmat *b) {
  rmat *x = rm_new(a->r, b->c);
  for (int i = 0; i < a->r; i++) for (int k = 0; k < a->c; k++) { ld v = RM(a, i, k); if (v == 0) continue; for (int j = 0; j < b->c; j++) RM(x, i, j) += v * RM(b, k, j); }
  return x;
}
rmat *rm_T(const rmat *a) { rmat *x = rm_new(a->c, a->r); for (int i = 0; i < a->r; i++) for (int j = 0; j < a->c; j++) RM(x, j, i) = RM(a, i, j); return x; }
rmat *rm_sub(const rmat *a, const rmat *b) { rmat *x = rm_new(a->r, a->c); for (int i = 0; i < a->r * a->c; i++) x->a[i] = a->a[i] - b->a[i]; return x; }
ld rm_fro(const rmat *a) { ld s = 0; for (int i = 0; i < a->r * a->c; i++) s += a->a[i] * a->a[i]; return sqrtl(s); }
ld rm_maxabs(const rmat *a) { ld s = 0; for (int i = 0; i < a->r * a->c; i++) { ld v = fabsl(a->a[i]); if (v > s || v != v) s = v; } return s; }
ld rm_maxabs_diff(const rmat *a, const rmat *b) {
  if (a->r != b->r || a->c != b->c) return INFINITY;
  ld s = 0; for (int i = 0; i < a->r * a->c; i++) { ld v = fabsl(a->a[i] - b->a[i]); if (v != v) return INFINITY; if (v > s) s = v; } return s;
}
rmat *rm_eye(int n) { rmat *x = rm_new(n, n); for (int i = 0; i < n; i++) RM(x, i, i) = 1; return x; }

int rm_lu(rmat *a, int *piv, ld *det) {
  int n = a->r; ld d = 1;
  for (int k = 0; k < n; k++) {
    int p = k; ld best = fabsl(RM(a, k, k));
    for (int i = k + 1; i < n; i++) if (fabsl(RM(a, i, k)) > best) { best = fabsl(RM(a, i, k)); p = i; }
    piv[k] = p;
    if (best == 0) { if (det) *det = 0; return 0; }
    if (p != k) { for (int j = 0; j < n; j++) { ld t = RM(a, k, j); RM(a, k, j) = RM(a, p, j); RM(a, p, j) = t; } d = -d; }
    d *= RM(a, k, k);
    for (int i = k + 1; i < n; i++) { ld f = RM(a, i, k) / RM(a, k, k); RM(a, i, k) = f; for (int j = k + 1; j < n; j++) RM(a, i, j) -= f * RM(a, k, j); }
  }
  if (det) *det = d;
  return 1;
}
int rm_solve(const rmat *a, const rmat *b, rmat *x) {
  int n = a->r; rmat *lu = rm_copy(a); int *piv = malloc(sizeof(int) * (size_t)(n + 1));
  if (!rm_lu(lu, piv, NULL)) { rm_free(lu); free(piv); return 0; }
  for (int c = 0; c < b->c; c++) {
    ld *y = malloc(sizeof(ld) * (size_t)(n + 1));
    for (int i = 0; i < n; i++) y[i] = RM(b, i, c);
    /* rm_lu exchanges full rows (multipliers included, LAPACK style): permute the right-hand side first */
    for (int k = 0; k < n; k++) if (piv[k] != k) { ld t = y[k]; y[k] = y[piv[k]]; y[piv[k]] = t; }
    for (int k = 0; k < n; k++) for (int i = k + 1; i < n; i++) y[i] -= RM(lu, i, k) * y[k];
    for (int i = n - 1; i >= 0; i--) { for (int j = i + 1; j < n; j++) y[i] -= RM(lu, i, j) * y[j]; y[i] /= RM(lu, i, i); }
    for (int i = 0; i < n; i++) RM(x, i, c) = y[i];
    free(y);
  }
  rm_free(lu); free(piv); return 1;
}
int rm_inv(const rmat *a, rmat *out) { rmat *I = rm_eye(a->r); int ok = rm_solve(a, I, out); rm_free(I); return ok; }

static ld cof(const ld *a, int n, int stride, const int *cols, int row) {
  if (n == 1) return a[row * stride + cols[0]];
  ld s = 0; int sub[8];
  for (int j = 0; j < n; j++) {
    ld v = a[row * stride + cols[j]]; if (v == 0) continue;
    int m = 0; for (int t = 0; t < n; t++) if (t != j) sub[m++] = cols[t];
    ld c = cof(a, n - 1, stride, sub, row + 1);
    s += ((j & 1) ? -v : v) * c;
  }
  return s;
}
ld rm_det_cofactor(const rmat *a) { int cols[8]; if (a->r == 0) return 1; for (int i = 0; i < a->r && i < 8; i++) cols[i] = i; return cof(a->a, a->r, a->c, cols, 0); }

int rm_needs_pivot(const rmat *a) {
  rmat *m = rm_copy(a); int n = m->r, need = 0;
  for (int k = 0; k < n && !need; k++) {
    if (RM(m, k, k) == 0) { need = 1; break; }
    for (int i = k + 1; i < n; i++) { ld f = RM(m, i, k) / RM(m, k, k); for (int j = k; j < n; j++) RM(m, i, j) -= f * RM(m, k, j); }
  }
  rm_free(m); return need;
}

void rm_jacobi_eig(const rmat *sym, ld *eval, rmat *evec) {
  int n = sym->r; rmat *A = rm_copy(sym); rmat *V = rm_eye(n);
  for (int sweep = 0; sweep < 100; sweep++) {
    ld off = 0, diag = 0;
    for (int i = 0; i < n; i++) for (int j = 0; j < n; j++) { if (i != j) off += RM(A, i, j) * RM(A, i, j); else diag += RM(A, i, i) * RM(A, i, i); }
    if (off <= 1e-38L * (diag + off) || off == 0) break;
    for (int p = 0; p < n - 1; p++) for (int q = p + 1; q < n; q++) {
      ld apq = RM(A, p, q); if (apq == 0) continue;
      ld theta = (RM(A, q, q) - RM(A, p, p)) / (2 * apq);
      ld t = (theta >= 0 ? 1 : -1) / (fabsl(theta) + sqrtl(theta * theta + 1));
      ld c = 1 / sqrtl(t * t + 1), s = t * c;
      for (int k = 0; k < n; k++) { ld akp = RM(A, k, p), akq = RM(A, k, q); RM(A, k, p) = c * akp - s * akq; RM(A, k, q) = s * akp + c * akq; }
      for (int k = 0; k < n; k++) { ld apk = RM(A, p, k), aqk = RM(A, q, k); RM(A, p, k) = c * apk - s * aqk; RM(A, q, k) = s * apk + c * aqk; }
      for (int k = 0; k < n; k++) { ld vkp = RM(V, k, p), vkq = RM(V, k, q); RM(V, k, p) = c * vkp - s * vkq; RM(V, k, q) = s * vkp + c * vkq; }
    }
  }
  int *idx = malloc(sizeof(int) * (size_t)(n + 1));
  for (int i = 0; i < n; i++) idx[i] = i;
  for (int i = 0; i < n; i++) for (int j = i + 1; j < n; j++) if (RM(A, idx[j], idx[j]) > RM(A, idx[i], idx[i])) { int t = idx[i]; idx[i] = idx[j]; idx[j] = t; }
  for (int i = 0; i < n; i++) { eval[i] = RM(A, idx[i], idx[i]); if (evec) for (int k = 0; k < n; k++) RM(evec, k, i) = RM(V, k, idx[i]); }
  free(idx); rm_free(A); rm_free(V);
}

void rm_singular_values(const rmat *a, ld *s) {
  /* eigenvalues of the smaller Gram matrix would square the condition number; use one-sided Jacobi on the tall orientation */
  rmat *A = (a->r >= a->c) ? rm_copy(a) : rm_T(a);
  int m = A->r, n = A->c;
  for (int sweep = 0; sweep < 80; sweep++) {
    int rotated = 0;
    for (int p = 0; p < n - 1; p++) for (int q = p + 1; q < n; q++) {
      ld alpha = 0, beta = 0, gamma = 0;
      for (int k = 0; k < m; k++) { alpha += RM(A, k, p) * RM(A, k, p); beta += RM(A, k, q) * RM(A, k, q); gamma += RM(A, k, p) * RM(A, k, q); }
      if (gamma == 0 || fabsl(gamma) <= 1e-19L * sqrtl(alpha * beta)) continue;
      rotated = 1;
      ld zeta = (beta - alpha) / (2 * gamma);
      ld t = (zeta >= 0 ? 1 : -1) / (fabsl(zeta) + sqrtl(1 + zeta * zeta));
      ld c = 1 / sqrtl(1 + t * t), sn = c * t;
      for (int k = 0; k < m; k++) { ld x = RM(A, k, p), y = RM(A, k, q); RM(A, k, p) = c * x - sn * y; RM(A, k, q) = sn * x + c * y; }
    }
    if (!rotated) break;
  }
  for (int j = 0; j < n; j++) { ld v = 0; for (int k = 0; k < m; k++) v += RM(A, k, j) * RM(A, k, j); s[j] = sqrtl(v); }
  for (int i = 0; i < n; i++) for (int j = i + 1; j < n; j++) if (s[j] > s[i]) { ld t = s[i]; s[i] = s[j]; s[j] = t; }
  rm_free(A);
}
ld rm_cond2(const rmat *a) {
  int n = a->r < a->c ? a->r : a->c; if (n == 0) return 1;
  ld *s = malloc(sizeof(ld) * (size_t)n); rm_singular_values(a, s);
  ld k = s[n - 1] > 0 ? s[0] / s[n - 1] : INFINITY; free(s); return k;
}

int rm_lstsq(const rmat *X, const rmat *Y, rmat *B) {
  int m = X->r, n = X->c, ny = Y->c;
  rmat *R = rm_copy(X), *Q = rm_copy(Y);
  for (int k = 0; k < n; k++) {
    ld nrm = 0; for (int i = k; i < m; i++) nrm += RM(R, i, k) * RM(R, i, k); nrm = sqrtl(nrm);
    if (nrm == 0) { rm_free(R); rm_free(Q); return 0; }
    ld alpha = RM(R, k, k) > 0 ? -nrm : nrm;
    ld *v = calloc((size_t)m + 1, sizeof(ld)); for (int i = k; i < m; i++) v[i] = RM(R, i, k); v[k] -= alpha;
    ld vv = 0; for (int i = k; i < m; i++) vv += v[i] * v[i];
    if (vv > 0) {
      for (int j = k; j < n; j++) { ld d = 0; for (int i = k; i < m; i++) d += v[i] * RM(R, i, j); d = 2 * d / vv; for (int i = k; i < m; i++) RM(R, i, j) -= d * v[i]; }
      for (int j = 0; j < ny; j++) { ld d = 0; for (int i = k; i < m; i++) d += v[i] * RM(Q, i, j); d = 2 * d / vv; for (int i = k; i < m; i++) RM(Q, i, j) -= d * v[i]; }
    }
    free(v);
  }
  for (int c = 0; c < ny; c++) for (int i = n - 1; i >= 0; i--) {
    ld s = RM(Q, i, c); for (int j = i + 1; j < n; j++) s -= RM(R, i, j) * RM(B, j, c);
    if (RM(R, i, i) == 0) { rm_free(R); rm_free(Q); return 0; }
    RM(B, i, c) = s / RM(R, i, i);
  }
  rm_free(R); rm_free(Q); return 1;
}

void rm_col_stats(const rmat *a, int col, int *n, ld *mean, ld *sd, ld *rms, ld *mn, ld *mx) {
  int k = 0; ld s = 0, s2raw = 0, lo = INFINITY, hi = -INFINITY;
  for (int i = 0; i < a->r; i++) { ld v = RM(a, i, col); if (v == (ld)VR_MISSING) continue; k++; s += v; s2raw += v * v; if (v < lo) lo = v; if (v > hi) hi = v; }
  ld m = k ? s / k : 0, ss = 0;
  for (int i = 0; i < a->r; i++) { ld v = RM(a, i, col); if (v == (ld)VR_MISSING) continue; ss += (v - m) * (v - m); }
  if (n) *n = k;
  if (mean) *mean = m;
  if (sd) *sd = k > 1 ? sqrtl(ss / (k - 1)) : 0;
  if (rms) *rms = k ? sqrtl(s2raw / k) : 0;
  if (mn) *mn = lo;
  if (mx) *mx = hi;
}

/* ------------------------------------------------------------------ vgen */
static uint64_t VGSEED = 0x5851f42d4c957f2dULL;
void vg_seed(long seed) { VGSEED = 0x5851f42d4c957f2dULL ^ ((uint64_t)seed * 0x9e3779b97f4a7c15ULL); }
static uint64_t mix(uint64_t x) { x ^= x >> 30; x *= 0xbf58476d1ce4e5b9ULL; x ^= x >> 27; x *= 0x94d049bb133111ebULL; x ^= x >> 31; return x; }
double vg_val(int k, int i, int j) {
  uint64_t h = mix(VGSEED + (uint64_t)(k + 1) * 0x9e3779b97f4a7c15ULL);
  h = mix(h ^ ((uint64_t)(i + 1) * 0xc2b2ae3d27d4eb4fULL)); h = mix(h ^ ((uint64_t)(j + 1) * 0x165667b19e3779f9ULL));
  return (double)(h >> 11) * (1.0 / 9007199254740992.0) - 0.5;
}
void vg_fill(int k, int r, int c, double *out) { for (int i = 0; i < r; i++) for (int j = 0; j < c; j++) out[(size_t)i * (size_t)c + (size_t)j] = vg_val(k, i, j); }
void vg_orth(int k, int n, double *Q) {
  ld *q = calloc((size_t)n * (size_t)n + 1, sizeof(ld)), *v = calloc((size_t)n + 1, sizeof(ld));
  for (int i = 0; i < n; i++) q[i * n + i] = 1;
  int nref = n < 10 ? n : 10;
  for (int h = 0; h < nref; h++) {
    ld vv = 0; for (int i = 0; i < n; i++) { v[i] = vg_val(k * 7 + 1000 + h, i, 3); vv += v[i] * v[i]; }
    if (vv == 0) continue;
    for (int j = 0; j < n; j++) { ld d = 0; for (int i = 0; i < n; i++) d += v[i] * q[i * n + j]; d = 2 * d / vv; for (int i = 0; i < n; i++) q[i * n + j] -= d * v[i]; }
  }
  for (int i = 0; i < n * n; i++) Q[i] = (double)q[i];
  free(q); free(v);
}
void vg_spectral_s(int k, int r, int c, const double *s, double *out) {
  int m = r < c ? r : c;
  double *U = malloc(sizeof(double) * (size_t)(r * r + 1)), *V = malloc(sizeof(double) * (size_t)(c * c + 1));
  vg_orth(k * 2 + 1, r, U); vg_orth(k * 2 + 2, c, V);
  for (int i = 0; i < r; i++) for (int j = 0; j < c; j++) { ld a = 0; for (int t = 0; t < m; t++) a += (ld)U[i * r + t] * s[t] * V[j * c + t]; out[(size_t)i * (size_t)c + (size_t)j] = (double)a; }
  free(U); free(V);
}
void vg_spectral(int k, int r, int c, double s1, double ratio, double *out) {
  int m = r < c ? r : c; double *s = malloc(sizeof(double) * (size_t)(m + 1));
  for (int i = 0; i < m; i++) s[i] = i ? s[i - 1] * ratio : s1;
  vg_spectral_s(k, r, c, s, out); free(s);
}
long vg_fact(int n) { long f = 1; for (int i = 2; i <= n; i++) f *= i; return f; }
void vg_perm(int n, long k, int *perm) {
  int used[32] = {0};
  for (int i = 0; i < n; i++) { long f = vg_fact(n - 1 - i); int idx = (int)(k / f); k %= f; for (int j = 0; j < n; j++) if (!used[j]) { if (idx-- == 0) { perm[i] = j; used[j] = 1; break; } } }
}
