/* vref / vgen -- reference numerics (long double, textbook definitions, no LAPACK, no library
 * code) and finite indexed input families.  DESIGN.md section 2.4. */
#ifndef VNUM_H
#define VNUM_H
#include <stdint.h>
#include <stddef.h>
typedef long double ld;
typedef struct { int r, c; ld *a; } rmat;
#define RM(m, i, j) ((m)->a[(size_t)(i) * (size_t)(m)->c + (size_t)(j)])
#define VR_MISSING 99999999.0

rmat *rm_new(int r, int c);                 /* zero-filled */
void  rm_free(rmat *m);
rmat *rm_copy(const rmat *m);
rmat *rm_mul(const rmat *a, const rmat *b);
rmat *rm_T(const rmat *a);
rmat *rm_sub(const rmat *a, const rmat *b);
ld    rm_fro(const rmat *a);
ld    rm_maxabs(const rmat *a);
ld    rm_maxabs_diff(const rmat *a, const rmat *b);
rmat *rm_eye(int n);
/* LU with partial pivoting in place; returns 0 if singular (pivot exactly 0); det gets the determinant */
int   rm_lu(rmat *a, int *piv, ld *det);
int   rm_inv(const rmat *a, rmat *out);
int   rm_solve(const rmat *a, const rmat *b, rmat *x);      /* a x = b, square a            */
ld    rm_det_cofactor(const rmat *a);                          /* exact-ish, n <= 8            */
/* 1 if plain Gaussian elimination WITHOUT row exchanges meets an exactly zero pivot */
int   rm_needs_pivot(const rmat *a);
/* symmetric eigenproblem, cyclic Jacobi; eval sorted descending, evec columns */
void  rm_jacobi_eig(const rmat *sym, ld *eval, rmat *evec);
/* one-sided Jacobi SVD of a (r x c): singular values sorted descending into s[min(r,c)] */
void  rm_singular_values(const rmat *a, ld *s);
/* least squares min ||X b - y|| column by column via Householder QR; X full column rank */
int   rm_lstsq(const rmat *X, const rmat *Y, rmat *B);
ld    rm_cond2(const rmat *a);                                 /* sigma_max / sigma_min        */
/* column statistics skipping cells equal to the missing code */
void  rm_col_stats(const rmat *a, int col, int *n, ld *mean, ld *sd_sample, ld *rms_raw, ld *min, ld *max);

/* ---- vgen: deterministic finite families (indexed by k; VERIF_SEED rotates them) ---- */
void   vg_seed(long seed);
double vg_val(int k, int i, int j);                  /* in (-0.5,0.5), general position        */
void   vg_fill(int k, int r, int c, double *out);    /* row-major r x c of vg_val              */
void   vg_orth(int k, int n, double *Q);             /* n x n orthogonal (Householder product) */
/* U diag(s) V^T, r x c, s_i = s1 * ratio^i, i < min(r,c); row-major */
void   vg_spectral(int k, int r, int c, double s1, double ratio, double *out);
/* same but singular values given explicitly */
void   vg_spectral_s(int k, int r, int c, const double *s, double *out);
/* k-th permutation of 0..n-1 in lexicographic order (k < n!) */
void   vg_perm(int n, long k, int *perm);
long   vg_fact(int n);
#endif
