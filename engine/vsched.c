/* vsched -- cooperative scheduler for the library's own pthreads (DESIGN.md section 2.2).
 *
 * Linked with -Wl,--wrap=pthread_create,--wrap=pthread_join,--wrap=pthread_exit.  Exactly one
 * registered thread runs at any time; at every scheduling point (thread creation, thread exit,
 * blocking join, and whatever the harness marks with vs_point(): the RNG entry points) the
 * explorer (vx_choose) picks which enabled thread continues.  Switching away from a thread that
 * could have continued costs one preemption (vx_choose_dev => bounded); forced switches
 * (exit, blocked join) are free.  No libscientific header is included here.
 *
 * With vs_free_run = 1 (ThreadSanitizer pass) the wrappers forward to the real functions.
 */
#define _GNU_SOURCE
#include "vsched.h"
#include "vx.h"
#include <pthread.h>
#include <errno.h>
#include <semaphore.h>
#include <stdio.h>
#include <stdlib.h>
#include <string.h>

int __real_pthread_create(pthread_t *, const pthread_attr_t *, void *(*)(void *), void *);
int __real_pthread_join(pthread_t, void **);
void __real_pthread_exit(void *) __attribute__((noreturn));
int __real_pthread_tryjoin_np(pthread_t, void **);

enum { UNUSED = 0, RUNNABLE, BLOCKED, DONE };
struct th { pthread_t real; sem_t go; int state, join_target; void *(*fn)(void *); void *arg; };
static struct th T[VS_MAXT];
static int nT, cur, active, ref_mode;
static long npoints, horizon = 1000000;
static __thread int my_id;
int vs_free_run = 0;
int vs_preemption_bound = 1000000;
int (*vs_prune_cb)(void) = 0;
static int preempts;
long vs_points_seen = 0, vs_switches = 0, vs_threads_seen = 0;

void vs_begin(int reference_mode, long horizon_points) {
  memset(T, 0, sizeof T);
  nT = 1; cur = 0; my_id = 0; T[0].state = RUNNABLE; sem_init(&T[0].go, 0, 0);
  active = 1; ref_mode = reference_mode; npoints = 0; preempts = 0; horizon = horizon_points > 0 ? horizon_points : 1000000;
}
void vs_end(void) { active = 0; for (int i = 0; i < nT; i++) sem_destroy(&T[i].go); nT = 0; }
int vs_current(void) { return active ? cur : 0; }
uint64_t vs_thread_states(void) {
  uint64_t h = vx_hash(&cur, sizeof cur, (uint64_t)nT);
  for (int i = 0; i < nT; i++) { int k[2] = {T[i].state, T[i].state == BLOCKED ? T[i].join_target : -1}; h = vx_hash(k, sizeof k, h); }
  return h;
}

static void switch_to(int next) {
  int prev = cur;
  if (next == prev) return;
  cur = next; vs_switches++;
  sem_post(&T[next].go);
  if (T[prev].state != DONE) sem_wait(&T[prev].go);
}

/* the running thread cannot continue (finished or blocked): pick any runnable thread, free of charge */
static void yield_forced(void) {
  int list[VS_MAXT], n = 0;
  for (int i = 0; i < nT; i++) if (T[i].state == RUNNABLE && i != cur) list[n++] = i;
  if (n == 0) { fprintf(stderr, "vsched: DEADLOCK: no enabled thread\n"); abort(); }
  int c = 0;
  if (n > 1 && !ref_mode && npoints < horizon && !(vs_prune_cb && vs_prune_cb())) c = vx_choose("yield", n);
  npoints++;
  switch_to(list[c]);
}

void vs_point(const char *label) {
  if (!active || vs_free_run) return;
  vs_points_seen++;
  int list[VS_MAXT], n = 0;
  list[n++] = cur;
  for (int i = 0; i < nT; i++) if (T[i].state == RUNNABLE && i != cur) list[n++] = i;
  if (n == 1) return;
  int c = 0;
  if (!ref_mode && npoints < horizon && preempts < vs_preemption_bound && !(vs_prune_cb && vs_prune_cb()))
    c = vx_choose_dev(label, n);   /* != 0 is a preemption */
  npoints++;
  if (c) { preempts++; switch_to(list[c]); }
}

static void finish_current(void) {
  T[cur].state = DONE;
  for (int i = 0; i < nT; i++) if (T[i].state == BLOCKED && T[i].join_target == cur) T[i].state = RUNNABLE;
  yield_forced();
}

static void *trampoline(void *p) {
  int k = (int)(long)p; my_id = k;
  sem_wait(&T[k].go);
  void *r = T[k].fn(T[k].arg);
  finish_current();
  return r;
}

int __wrap_pthread_create(pthread_t *t, const pthread_attr_t *a, void *(*fn)(void *), void *arg) {
  if (!active || vs_free_run) return __real_pthread_create(t, a, fn, arg);
  if (nT >= VS_MAXT) { fprintf(stderr, "vsched: too many threads\n"); abort(); }
  int k = nT++;
  T[k].fn = fn; T[k].arg = arg; T[k].state = RUNNABLE; T[k].join_target = -1; sem_init(&T[k].go, 0, 0);
  int rc = __real_pthread_create(&T[k].real, a, trampoline, (void *)(long)k);
  if (rc) { T[k].state = UNUSED; nT--; return rc; }
  *t = T[k].real; vs_threads_seen++;
  vs_point("create");
  return 0;
}

int __wrap_pthread_join(pthread_t t, void **ret) {
  if (!active || vs_free_run) return __real_pthread_join(t, ret);
  int k = -1;
  for (int i = 1; i < nT; i++) if (T[i].state != UNUSED && pthread_equal(T[i].real, t)) k = i;
  if (k < 0) return __real_pthread_join(t, ret);
  while (T[k].state != DONE) { T[cur].state = BLOCKED; T[cur].join_target = k; yield_forced(); }
  return __real_pthread_join(t, ret);
}

/* polling join ("make waiting visible"): a finished target is joined; otherwise the answer EBUSY is given after the caller has
 * handed the processor to another runnable thread (a forced yield, free of charge and a choice point when several can run), so
 * a loop that polls its workers cannot spin for ever under the cooperative scheduler and every completion order it can
 * observe is still reachable.  The caller stays runnable: it continues when the others choose it or finish. */
int __wrap_pthread_tryjoin_np(pthread_t t, void **ret) {
  if (!active || vs_free_run) return __real_pthread_tryjoin_np(t, ret);
  int k = -1;
  for (int i = 1; i < nT; i++) if (T[i].state != UNUSED && pthread_equal(T[i].real, t)) k = i;
  if (k < 0) return __real_pthread_tryjoin_np(t, ret);
  if (T[k].state == DONE) return __real_pthread_join(t, ret);
  int others = 0; for (int i = 0; i < nT; i++) if (T[i].state == RUNNABLE && i != cur) others++;
  if (others) yield_forced();
  return EBUSY;
}

void __wrap_pthread_exit(void *ret) {
  if (active && !vs_free_run && my_id > 0) finish_current();
  __real_pthread_exit(ret);
}
