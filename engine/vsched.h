#ifndef VSCHED_H
#define VSCHED_H
#define VS_MAXT 1024
/* start controlling threads created from now on; reference_mode=1: always continue the running
 * thread (the default schedule, no vx choices); horizon: after that many decisions take the default */
void vs_begin(int reference_mode, long horizon_points);
void vs_end(void);
void vs_point(const char *label);      /* scheduling point (call from wrappers of shared-state entry points) */
int  vs_current(void);                 /* id of the running thread: 0 main, 1.. in creation order */
#include <stdint.h>
uint64_t vs_thread_states(void);     /* hash of (running thread, every thread's run state) */
extern int  vs_preemption_bound;       /* decisions beyond this many preemptions take the default */
extern int  (*vs_prune_cb)(void);      /* returns 1 if the current global state was already expanded: take the default */
extern int  vs_free_run;               /* 1: wrappers forward to the real functions (TSan pass) */
extern long vs_points_seen, vs_switches, vs_threads_seen;
#endif
