/* vx -- stateless exhaustive choice-point explorer.  See vx.h / DESIGN.md section 2.1.
 * This unit includes no libscientific header (it needs <signal.h>). */
#define _GNU_SOURCE
#include "vx.h"
#include <stdio.h>
#include <stdlib.h>
#include <string.h>
#include <stdarg.h>
#include <setjmp.h>
#include <signal.h>
#include <unistd.h>
#include <errno.h>
#include <fcntl.h>
#include <time.h>
#include <sys/mman.h>
#include <sys/wait.h>
#include <sys/stat.h>

#define MAXD     400
#define LABLEN   28
#define MAXKEYS  1024
#define KEYLEN   200
#define OUTSET   (1u << 17)
#define STSET    (1u << 22)
#define MAXW     64
#define MAXDESC  64

struct keyrec { char key[KEYLEN]; long count; };

struct shm {
  long execs, pruned, skipped, transitions, checks, max_depth, restarts, timeouts;
  volatile long heartbeat;
  volatile int in_exec, done, deadline_hit, harness_error, cap_hit;
  char herr[400];
  int len; int choice[MAXD]; int n[MAXD]; char isdev[MAXD]; char lab[MAXD][LABLEN];
  int resume_len; int resume[MAXD];
  int nkeys; struct keyrec keys[MAXKEYS];
  long n_out; uint64_t out[OUTSET];
  long n_st;  uint64_t st[STSET];
};

static struct shm *S;               /* this worker's page (or the only one in replay mode) */
static struct shm *ALL[MAXW];
static int W = 1, me = 0;
static int shard_depth = 2;
static int dev_bound_q = 1, dev_bound_t = 2, dev_bound = 1;
static int thorough = 0, replaying = 0;
static long seed = 0;
static long expect_outcomes = 0;
static double deadline_s = 170.0, exec_timeout_s = 120.0;
static const char *timeout_key = NULL;
void vx_timeout_is_violation(const char *key, double seconds) { timeout_key = key; if (seconds > 0) exec_timeout_s = seconds; }
static const char *outpath = NULL;
static const char *property = "C??";
static vx_body_fn BODY;
static jmp_buf JB;
static int prefix_len = 0;          /* positions < prefix_len are replayed */
static int devs_used = 0;
static int owned = 1;
static FILE *wf;                    /* per-worker record file */
static int replay_failed = 0;
static char desc_k[MAXDESC][48]; static char desc_v[MAXDESC][600]; static int ndesc = 0;
static double t0;
long vx_tick_ceiling = 200000;
static long ticks = 0;

static double now_s(void) { struct timespec ts; clock_gettime(CLOCK_MONOTONIC, &ts); return ts.tv_sec + 1e-9 * ts.tv_nsec; }

uint64_t vx_hash(const void *p, size_t n, uint64_t h) {
  const unsigned char *c = p; h = (h + 0x632be59bd9b4e019ULL) * 0x9e3779b97f4a7c15ULL; h ^= h >> 31; h ^= 0xcbf29ce484222325ULL;
  for (size_t i = 0; i < n; i++) { h ^= c[i]; h *= 0x100000001b3ULL; }
  h ^= h >> 29; h *= 0xbf58476d1ce4e5b9ULL; h ^= h >> 32;
  return h;
}
uint64_t vx_hash_doubles(const double *p, size_t n, uint64_t h) {
  for (size_t i = 0; i < n; i++) {
    double d = p[i]; if (d == 0.0) d = 0.0; if (d != d) d = __builtin_nan("");
    h = vx_hash(&d, sizeof d, h);
  }
  return h;
}
int vx_replaying(void) { return replaying; }
int vx_thorough(void) { return thorough; }
long vx_seed(void) { return seed; }
void vx_set_shard_depth(int d) { shard_depth = d < 1 ? 1 : d; }
void vx_set_dev_bound(int q, int t) { dev_bound_q = q; dev_bound_t = t; }
void vx_expect_outcomes(long n) { expect_outcomes = n; }

void vx_describe(const char *key, const char *fmt, ...) {
  if (ndesc >= MAXDESC) return;
  va_list ap; va_start(ap, fmt);
  snprintf(desc_k[ndesc], sizeof desc_k[0], "%s", key);
  vsnprintf(desc_v[ndesc], sizeof desc_v[0], fmt, ap);
  va_end(ap); ndesc++;
}

static void harness_error(const char *fmt, ...) {
  va_list ap; va_start(ap, fmt);
  char buf[400]; vsnprintf(buf, sizeof buf, fmt, ap); va_end(ap);
  fprintf(stderr, "VX-HARNESS-ERROR: %s\n", buf);
  if (S) { S->harness_error = 1; snprintf(S->herr, sizeof S->herr, "%s", buf); }
  _exit(2);
}

static int set_insert(uint64_t *tab, unsigned cap, long *cnt, uint64_t h) {
  if (h == 0) h = 1;
  unsigned i = (unsigned)(h & (cap - 1));
  for (unsigned probe = 0; probe < cap; probe++, i = (i + 1) & (cap - 1)) {
    if (tab[i] == h) return 1;
    if (tab[i] == 0) { if (*cnt >= (long)cap * 3 / 4) return 0; tab[i] = h; (*cnt)++; return 0; }
  }
  return 0;
}

static int mine(void) {
  if (W <= 1) return 1;
  uint64_t h = vx_hash(S->choice, sizeof(int) * (size_t)shard_depth, 0x9e3779b97f4a7c15ULL);
  return (int)(h % (uint64_t)W) == me;
}

static int choose_impl(const char *label, int n, int isdev) {
  if (n <= 0) harness_error("vx_choose(%s, %d): n must be >= 1", label, n);
  int pos = S->len;
  if (pos >= MAXD) harness_error("choice depth exceeds %d", MAXD);
  int eff = n;
  if (isdev && devs_used >= dev_bound) eff = 1;
  int v;
  if (pos < prefix_len) {
    v = S->choice[pos];
    if (replaying && S->lab[pos][0] == 0) { /* resumed without labels */ }
    else if (strncmp(S->lab[pos], label, LABLEN - 1) != 0 || S->n[pos] != eff)
      harness_error("replay divergence at position %d: recorded (%s,%d) asked (%s,%d)", pos, S->lab[pos], S->n[pos], label, eff);
    if (v >= eff) harness_error("replay choice %d out of range %d at %s", v, eff, label);
  } else {
    v = 0;
  }
  S->choice[pos] = v; S->n[pos] = eff; S->isdev[pos] = (char)isdev;
  snprintf(S->lab[pos], LABLEN, "%s", label);
  S->len = pos + 1;
  if (isdev && v != 0) devs_used++;
  if (!replaying && pos == shard_depth - 1) {
    owned = mine();
    if (!owned) { S->skipped++; longjmp(JB, 2); }
  }
  return v;
}
int vx_choose(const char *label, int n) { return choose_impl(label, n, 0); }
int vx_choose_dev(const char *label, int n) { return choose_impl(label, n, 1); }

void vx_require(int cond) { if (!cond) { if (owned) S->pruned++; longjmp(JB, 1); } }

static void write_path(FILE *f) {
  for (int i = 0; i < S->len; i++) fprintf(f, "c %s %d %d\n", S->lab[i][0] ? S->lab[i] : "?", S->n[i], S->choice[i]);
}

static void record_violation(const char *key, const char *msg) {
  if (replaying) { fprintf(stderr, "VX-FAIL %s :: %s\n", key, msg); replay_failed = 1; return; }
  if (!owned) return;
  int k;
  for (k = 0; k < S->nkeys; k++) if (strncmp(S->keys[k].key, key, KEYLEN - 1) == 0) break;
  if (k == S->nkeys) {
    if (S->nkeys >= MAXKEYS) return;
    snprintf(S->keys[k].key, KEYLEN, "%s", key); S->keys[k].count = 0; S->nkeys++;
    if (wf) {
      char m[1000]; snprintf(m, sizeof m, "%s", msg);
      for (char *p = m; *p; p++) if (*p == '\n' || *p == '\t') *p = ' ';
      fprintf(wf, "VIOL\t%s\t%s\n", key, m); write_path(wf); fprintf(wf, "END\n"); fflush(wf);
    }
  }
  S->keys[k].count++;
}

void vx_check(int ok, const char *key, const char *fmt, ...) {
  if (owned || replaying) S->checks++;
  if (ok) return;
  char msg[1000]; va_list ap; va_start(ap, fmt); vsnprintf(msg, sizeof msg, fmt, ap); va_end(ap);
  record_violation(key, msg);
}
void vx_fail_abort(const char *key, const char *fmt, ...) {
  char msg[1000]; va_list ap; va_start(ap, fmt); vsnprintf(msg, sizeof msg, fmt, ap); va_end(ap);
  if (owned || replaying) S->checks++;
  record_violation(key, msg);
  longjmp(JB, 3);
}
void vx_outcome(uint64_t h) { if (owned || replaying) set_insert(S->out, OUTSET, &S->n_out, h); }
void vx_transition(long k) { if (owned || replaying) S->transitions += k; }
int vx_state(uint64_t h) { return set_insert(S->st, STSET, &S->n_st, h); }
void vx_log(const char *fmt, ...) {
  if (!replaying) return;
  va_list ap; va_start(ap, fmt); vfprintf(stderr, fmt, ap); va_end(ap);
}
void vx_note_cap(void) { S->cap_hit = 1; }
void vx_tick_reset(void) { ticks = 0; }
void vx_tick(const char *key) {
  if (++ticks > vx_tick_ceiling) { ticks = 0; vx_fail_abort(key ? key : "nontermination", "iteration tick ceiling %ld exceeded", vx_tick_ceiling); }
}

/* ---------------------------------------------------------------- worker */

static int advance(void) {
  int i = S->len - 1;
  while (i >= 0 && S->choice[i] + 1 >= S->n[i]) i--;
  if (i < 0) return 0;
  S->choice[i]++; prefix_len = i + 1;
  return 1;
}

static void run_one(void) {
  S->len = 0; devs_used = 0; owned = (W <= 1 || me == 0); ticks = 0;
  S->in_exec = 1; S->heartbeat++;
  int r = setjmp(JB);
  if (r == 0) { BODY(); r = 0; }
  S->in_exec = 0;
  if (r == 2) return;                 /* other shard */
  if (S->len < shard_depth && W > 1 && me != 0) return;   /* short path: worker 0 owns it */
  if (r == 1) return;                 /* pruned (counted) */
  S->execs++;
  if (S->len > S->max_depth) S->max_depth = S->len;
  if (wf && ((me == 0 && S->execs <= 2) || ((me == 5 || me == 10 || me == 15) && S->execs == 1))) {   /* samples from different sub-trees */ fprintf(wf, "SAMPLE\n"); write_path(wf); fprintf(wf, "END\n"); fflush(wf); }
}

static void worker(void) {
  /* stdout of the library is chatter; keep stderr (sanitizer reports) */
  int dn = open("/dev/null", O_WRONLY); if (dn >= 0) { dup2(dn, 1); close(dn); }
  prefix_len = S->resume_len;
  for (int i = 0; i < prefix_len; i++) { S->choice[i] = S->resume[i]; }
  /* labels of a resumed prefix are those left in shm by the previous incarnation */
  S->len = prefix_len;
  for (;;) {
    if (now_s() - t0 > deadline_s) { S->deadline_hit = 1; break; }
    run_one();
    if (!advance()) { S->done = 1; break; }
  }
  if (wf) fclose(wf);
  _exit(0);
}

/* ---------------------------------------------------------------- parent */

static void json_str(FILE *f, const char *s) {
  fputc('"', f);
  for (; *s; s++) {
    unsigned char c = (unsigned char)*s;
    if (c == '"' || c == '\\') { fputc('\\', f); fputc(c, f); }
    else if (c < 0x20) fprintf(f, "\\u%04x", c);
    else fputc(c, f);
  }
  fputc('"', f);
}

static void crash_key(const char *errfile, long from, int sig, char *key, size_t klen, char *msg, size_t mlen) {
  char kind[100] = "", func[100] = "", line[2000];
  snprintf(kind, sizeof kind, "signal%d", sig);
  msg[0] = 0;
  FILE *f = fopen(errfile, "r");
  if (f) {
    fseek(f, from, SEEK_SET);
    int have_kind = 0;
    while (fgets(line, sizeof line, f)) {
      char *p;
      if (!have_kind && (p = strstr(line, "ERROR: AddressSanitizer: "))) {
        p += strlen("ERROR: AddressSanitizer: "); int i = 0;
        while (p[i] && p[i] != ' ' && p[i] != '\n' && i < 60) { kind[i] = p[i]; i++; }
        memmove(kind + 5, kind, (size_t)i); memcpy(kind, "asan:", 5); kind[i + 5] = 0; have_kind = 1;
        if (!msg[0]) snprintf(msg, mlen, "%s", line);
      } else if (!have_kind && (p = strstr(line, "runtime error: "))) {
        p += strlen("runtime error: "); int i = 0, sp = 0;
        while (p[i] && p[i] != '\n' && i < 60) { if (p[i] == ' ' && ++sp == 3) break; if (p[i] >= '0' && p[i] <= '9') break; kind[6 + i] = p[i] == ' ' ? '_' : p[i]; i++; }
        memcpy(kind, "ubsan:", 6); kind[6 + i] = 0; have_kind = 1;
        if (!msg[0]) snprintf(msg, mlen, "%s", line);
      }
      if (!have_kind && (p = strstr(line, "WARNING: ThreadSanitizer: "))) {
        p += strlen("WARNING: ThreadSanitizer: "); int i = 0;
        while (p[i] && p[i] != '(' && p[i] != '\n' && i < 60) { kind[5 + i] = p[i] == ' ' ? '_' : p[i]; i++; }
        while (i > 0 && kind[5 + i - 1] == '_') i--;
        memcpy(kind, "tsan:", 5); kind[5 + i] = 0; have_kind = 1;
        if (!msg[0]) snprintf(msg, mlen, "%s", line);
      }
      if (!func[0] && !strstr(line, " in ") && strstr(line, "/src/") && (p = strstr(line, "    #"))) {   /* TSan frame: "#0 func file:line" */
        p = strchr(p + 5, ' '); if (p) { p++; int i = 0; while (p[i] && p[i] != ' ' && p[i] != '\n' && i < 90) { func[i] = p[i]; i++; } func[i] = 0; if (strncmp(func, "__", 2) == 0) func[0] = 0; }
      }
      if (!func[0] && (p = strstr(line, " in ")) && strstr(line, "/src/") && strstr(line, "    #")) {
        p += 4; int i = 0; while (p[i] && p[i] != ' ' && p[i] != '\n' && i < 90) { func[i] = p[i]; i++; } func[i] = 0;
        if (strncmp(func, "__", 2) == 0) func[0] = 0;
      }
    }
    fclose(f);
  }
  if (!func[0]) strcpy(func, "unknown");
  for (char *p = msg; *p; p++) if (*p == '\n' || *p == '\t') *p = ' ';
  if (!msg[0]) snprintf(msg, mlen, "worker terminated by signal %d", sig);
  snprintf(key, klen, "crash|%s|%s", kind, func);
}

struct viol { char key[KEYLEN]; char msg[1000]; long count; int plen; int pc[MAXD]; int pn[MAXD]; char pl[MAXD][LABLEN]; };
static struct viol *V; static int nV = 0;

static struct viol *get_viol(const char *key) {
  for (int i = 0; i < nV; i++) if (strcmp(V[i].key, key) == 0) return &V[i];
  if (nV >= MAXKEYS) return NULL;
  struct viol *v = &V[nV++]; memset(v, 0, sizeof *v); snprintf(v->key, KEYLEN, "%s", key); v->plen = -1; return v;
}
static int path_less(int la, const int *a, int lb, const int *b) {
  if (lb < 0) return 1;
  if (la != lb) return la < lb;
  for (int i = 0; i < la; i++) if (a[i] != b[i]) return a[i] < b[i];
  return 0;
}

static char **ARGV0;
static void spawn(int w, pid_t *pids, const char *base) {
  fflush(NULL);
  pid_t p = fork();
  if (p < 0) { perror("fork"); exit(2); }
  if (p == 0) {
    me = w; S = ALL[w];
    char fn[600]; snprintf(fn, sizeof fn, "%s.w%d.rec", base, w);
    wf = fopen(fn, "a");
    snprintf(fn, sizeof fn, "%s.w%d.err", base, w);
    int e = open(fn, O_WRONLY | O_CREAT | O_APPEND, 0644); if (e >= 0) { dup2(e, 2); close(e); }
    worker();
  }
  pids[w] = p;
}

static void replay_alarm(int sig) {
  (void)sig; static const char a[] = "VX-FAIL ", b[] = " :: the replayed execution does not return within the wall-clock limit\nVX-REPLAY: FAILED\n";
  if (write(2, a, sizeof a - 1) < 0 || write(2, timeout_key, strlen(timeout_key)) < 0 || write(2, b, sizeof b - 1) < 0) _exit(1);
  _exit(1);
}
static int do_replay(const char *file) {
  replaying = 1; W = 1; me = 0;
  S = calloc(1, sizeof *S);
  FILE *f = fopen(file, "r"); if (!f) { perror(file); return 2; }
  char line[1200]; int n = 0;
  while (fgets(line, sizeof line, f)) {
    char lab[200]; int nn, c;
    if (line[0] == 'c' && sscanf(line, "c %199s %d %d", lab, &nn, &c) == 3) {
      if (n >= MAXD) break;
      snprintf(S->lab[n], LABLEN, "%s", lab); S->n[n] = nn; S->choice[n] = c; n++;
    } else if (line[0] == '#') fprintf(stderr, "%s", line);
  }
  fclose(f);
  prefix_len = n; S->len = 0; devs_used = 0; owned = 1;
  if (timeout_key) { signal(SIGALRM, replay_alarm); alarm((unsigned)(exec_timeout_s + 0.5)); }
  int r = setjmp(JB);
  if (r == 0) BODY();
  if (timeout_key) alarm(0);
  if (r == 1) fprintf(stderr, "VX-REPLAY: path pruned by vx_require\n");
  fprintf(stderr, "VX-REPLAY: path of %d choices:", S->len);
  for (int i = 0; i < S->len; i++) fprintf(stderr, " %s=%d/%d", S->lab[i], S->choice[i], S->n[i]);
  fprintf(stderr, "\nVX-REPLAY: %s\n", replay_failed ? "FAILED" : "passed");
  return replay_failed ? 1 : 0;
}

int vx_main(int argc, char **argv, const char *prop, vx_body_fn body) {
  ARGV0 = argv; property = prop; BODY = body;
  const char *replay = NULL; W = 16;
  const char *e;
  if ((e = getenv("VERIF_SEED"))) seed = atol(e);
  if ((e = getenv("VERIF_TIER")) && strcmp(e, "thorough") == 0) thorough = 1;
  int deadline_given = 0;
  for (int i = 1; i < argc; i++) {
    if (!strcmp(argv[i], "--tier") && i + 1 < argc) thorough = !strcmp(argv[++i], "thorough");
    else if (!strcmp(argv[i], "--workers") && i + 1 < argc) W = atoi(argv[++i]);
    else if (!strcmp(argv[i], "--deadline") && i + 1 < argc) { deadline_s = atof(argv[++i]); deadline_given = 1; }
    else if (!strcmp(argv[i], "--exec-timeout") && i + 1 < argc) exec_timeout_s = atof(argv[++i]);
    else if (!strcmp(argv[i], "--out") && i + 1 < argc) outpath = argv[++i];
    else if (!strcmp(argv[i], "--replay") && i + 1 < argc) replay = argv[++i];
    else if (!strcmp(argv[i], "--seed") && i + 1 < argc) seed = atol(argv[++i]);
    else { fprintf(stderr, "usage: %s [--tier quick|thorough] [--workers N] [--deadline S] [--out F] [--replay F]\n", argv[0]); return 2; }
  }
  if (!deadline_given) deadline_s = thorough ? 1500.0 : 170.0;
  dev_bound = thorough ? dev_bound_t : dev_bound_q;
  if (W < 1) W = 1;
  if (W > MAXW) W = MAXW;
  if (replay) return do_replay(replay);
  if (!outpath) outpath = "vx_out.json";

  t0 = now_s();
  for (int w = 0; w < W; w++) {
    ALL[w] = mmap(NULL, sizeof(struct shm), PROT_READ | PROT_WRITE, MAP_SHARED | MAP_ANONYMOUS, -1, 0);
    if (ALL[w] == MAP_FAILED) { perror("mmap"); return 2; }
  }
  char base[500]; snprintf(base, sizeof base, "%s", outpath);
  for (int w = 0; w < W; w++) { char fn[600]; snprintf(fn, sizeof fn, "%s.w%d.rec", base, w); unlink(fn); snprintf(fn, sizeof fn, "%s.w%d.err", base, w); unlink(fn); }
  V = calloc(MAXKEYS, sizeof *V);

  pid_t pids[MAXW]; long lastbeat[MAXW]; double lastprog[MAXW]; long erroff[MAXW]; int alive = 0;
  for (int w = 0; w < W; w++) { spawn(w, pids, base); lastbeat[w] = -1; lastprog[w] = now_s(); erroff[w] = 0; alive++; }
  int herr = 0; char herrmsg[400] = "";
  while (alive > 0) {
    int st; pid_t p = waitpid(-1, &st, WNOHANG);
    if (p > 0) {
      int w; for (w = 0; w < W; w++) if (pids[w] == p) break;
      if (w == W) continue;
      pids[w] = 0; alive--;
      struct shm *s = ALL[w];
      if (WIFEXITED(st) && WEXITSTATUS(st) == 0) continue;
      if (s->harness_error || (WIFEXITED(st) && WEXITSTATUS(st) == 2)) { herr = 1; snprintf(herrmsg, sizeof herrmsg, "%s", s->herr); continue; }
      /* abnormal end inside an execution: attribute to the current path */
      int sig = WIFSIGNALED(st) ? WTERMSIG(st) : -WEXITSTATUS(st);
      char fn[600]; snprintf(fn, sizeof fn, "%s.w%d.err", base, w);
      int was_timeout = (sig == SIGKILL && lastbeat[w] == -2);
      if (was_timeout) {
        s->timeouts++;
        if (timeout_key) {   /* termination is the property: the hung path is a violation candidate (confirmed by replay under the same limit) */
          char msg[200]; snprintf(msg, sizeof msg, "no heartbeat for %g s: the execution does not return (wall clock)", exec_timeout_s);
          struct viol *v = get_viol(timeout_key);
          if (v) { v->count++; if (path_less(s->len, s->choice, v->plen, v->pc)) { v->plen = s->len; memcpy(v->pc, s->choice, sizeof(int) * MAXD); memcpy(v->pn, s->n, sizeof(int) * MAXD); memcpy(v->pl, s->lab, sizeof s->lab); snprintf(v->msg, sizeof v->msg, "%s", msg); } }
        }
      }
      else {
        char key[KEYLEN], msg[1000]; crash_key(fn, erroff[w], sig, key, sizeof key, msg, sizeof msg);
        struct viol *v = get_viol(key);
        if (v) { v->count++; if (path_less(s->len, s->choice, v->plen, v->pc)) { v->plen = s->len; memcpy(v->pc, s->choice, sizeof(int) * MAXD); memcpy(v->pn, s->n, sizeof(int) * MAXD); memcpy(v->pl, s->lab, sizeof s->lab); snprintf(v->msg, sizeof v->msg, "%s", msg); } }
        s->execs++;
      }
      struct stat sb; if (stat(fn, &sb) == 0) erroff[w] = sb.st_size;
      /* successor of the crashed path */
      int i = s->len - 1;
      while (i >= 0 && s->choice[i] + 1 >= s->n[i]) i--;
      if (i < 0) { s->done = 1; continue; }
      memcpy(s->resume, s->choice, sizeof(int) * MAXD); s->resume[i]++; s->resume_len = i + 1;
      s->restarts++;
      if (now_s() - t0 > deadline_s) { s->deadline_hit = 1; continue; }
      spawn(w, pids, base); lastbeat[w] = -1; lastprog[w] = now_s(); alive++;
      continue;
    }
    double t = now_s();
    for (int w = 0; w < W; w++) if (pids[w]) {
      long hb = ALL[w]->heartbeat;
      if (lastbeat[w] == -2) continue;
      if (hb != lastbeat[w]) { lastbeat[w] = hb; lastprog[w] = t; }
      else if (t - lastprog[w] > exec_timeout_s) { lastbeat[w] = -2; kill(pids[w], SIGKILL); }
    }
    usleep(alive ? 5000 : 0);
  }

  /* merge */
  long execs = 0, pruned = 0, skipped = 0, trans = 0, checks = 0, maxd = 0, restarts = 0, timeouts = 0; int dl = 0, alldone = 1, cap = 0;
  uint64_t *out = calloc(OUTSET * 8, sizeof(uint64_t)); long n_out = 0; long n_st = 0;
  for (int w = 0; w < W; w++) {
    struct shm *s = ALL[w];
    execs += s->execs; pruned += s->pruned; skipped += s->skipped; trans += s->transitions; checks += s->checks;
    restarts += s->restarts; timeouts += s->timeouts; n_st += s->n_st;
    if (s->max_depth > maxd) maxd = s->max_depth;
    if (s->deadline_hit) dl = 1;
    if (s->cap_hit) cap = 1;
    if (!s->done) alldone = 0;
    for (unsigned i = 0; i < OUTSET; i++) if (s->out[i]) set_insert(out, OUTSET * 8, &n_out, s->out[i]);
    for (int k = 0; k < s->nkeys; k++) { struct viol *v = get_viol(s->keys[k].key); if (v) v->count += s->keys[k].count; }
  }
  /* first paths per key from the record files; samples */
  char samples[5][4000]; int nsamp = 0;
  for (int w = 0; w < W; w++) {
    char fn[600]; snprintf(fn, sizeof fn, "%s.w%d.rec", base, w);
    FILE *f = fopen(fn, "r"); if (!f) continue;
    char line[2400]; struct viol tmp; int mode = 0; char sbuf[4000]; size_t sl = 0;
    while (fgets(line, sizeof line, f)) {
      line[strcspn(line, "\n")] = 0;
      if (!strncmp(line, "VIOL\t", 5)) {
        memset(&tmp, 0, sizeof tmp); char *k = line + 5; char *m = strchr(k, '\t'); if (m) *m++ = 0; else m = "";
        snprintf(tmp.key, KEYLEN, "%s", k); snprintf(tmp.msg, sizeof tmp.msg, "%s", m); tmp.plen = 0; mode = 1;
      } else if (!strcmp(line, "SAMPLE")) { mode = 2; sl = 0; sbuf[0] = 0; }
      else if (!strncmp(line, "c ", 2)) {
        char lab[200]; int nn, c;
        if (sscanf(line, "c %199s %d %d", lab, &nn, &c) == 3) {
          if (mode == 1 && tmp.plen < MAXD) { snprintf(tmp.pl[tmp.plen], LABLEN, "%s", lab); tmp.pn[tmp.plen] = nn; tmp.pc[tmp.plen] = c; tmp.plen++; }
          if (mode == 2 && sl < sizeof sbuf - 80) sl += (size_t)snprintf(sbuf + sl, sizeof sbuf - sl, "%s%s=%d/%d", sl ? " " : "", lab, c, nn);
        }
      } else if (!strcmp(line, "END")) {
        if (mode == 1) { struct viol *v = get_viol(tmp.key); if (v && path_less(tmp.plen, tmp.pc, v->plen, v->pc)) { long c = v->count; *v = tmp; v->count = c; } }
        if (mode == 2 && nsamp < 5) { snprintf(samples[nsamp++], sizeof samples[0], "%s", sbuf); }
        mode = 0;
      }
    }
    fclose(f); unlink(fn);
    snprintf(fn, sizeof fn, "%s.w%d.err", base, w);
    struct stat sb; if (stat(fn, &sb) == 0 && sb.st_size == 0) unlink(fn);
  }
  int exhaustive = alldone && !dl && !cap && timeouts == 0 && !herr;
  if (!herr && exhaustive && expect_outcomes > 0 && n_out < expect_outcomes) {
    herr = 1; snprintf(herrmsg, sizeof herrmsg, "vacuity guard: %ld distinct outcomes observed, harness expects at least %ld", n_out, expect_outcomes);
  }
  /* replay files */
  char dir[600]; snprintf(dir, sizeof dir, "%s.replays", base); if (nV) mkdir(dir, 0755);
  FILE *o = fopen(outpath, "w"); if (!o) { perror(outpath); return 2; }
  fprintf(o, "{\"property\":"); json_str(o, property);
  fprintf(o, ",\"tier\":\"%s\",\"seed\":%ld,\"workers\":%d,\"executions\":%ld,\"pruned\":%ld,\"skipped_other_shard\":%ld,"
             "\"transitions\":%ld,\"checks\":%ld,\"states\":%ld,\"distinct_outcomes\":%ld,\"max_depth\":%ld,\"restarts\":%ld,"
             "\"timeouts\":%ld,\"deadline_hit\":%s,\"cap_hit\":%s,\"exhaustive\":%s,\"dev_bound\":%d,\"wall_s\":%.3f,\"harness_error\":",
          thorough ? "thorough" : "quick", seed, W, execs, pruned, skipped, trans, checks, n_st > 0 ? n_st : execs, n_out, maxd, restarts,
          timeouts, dl ? "true" : "false", cap ? "true" : "false", exhaustive ? "true" : "false", dev_bound, now_s() - t0);
  if (herr) json_str(o, herrmsg[0] ? herrmsg : "worker exited with harness error"); else fprintf(o, "null");
  fprintf(o, ",\"describe\":{");
  for (int i = 0; i < ndesc; i++) { if (i) fputc(',', o); json_str(o, desc_k[i]); fputc(':', o); json_str(o, desc_v[i]); }
  fprintf(o, "},\"samples\":[");
  for (int i = 0; i < nsamp; i++) { if (i) fputc(',', o); json_str(o, samples[i]); }
  fprintf(o, "],\"violations\":[");
  for (int i = 0; i < nV; i++) {
    struct viol *v = &V[i];
    char rf[700]; snprintf(rf, sizeof rf, "%s/%016llx.vx", dir, (unsigned long long)vx_hash(v->key, strlen(v->key), 7));
    FILE *r = fopen(rf, "w");
    if (r) {
      fprintf(r, "# property=%s key=%s\n# %s\n", property, v->key, v->msg);
      for (int j = 0; j < v->plen; j++) fprintf(r, "c %s %d %d\n", v->pl[j][0] ? v->pl[j] : "?", v->pn[j], v->pc[j]);
      fclose(r);
    }
    if (i) fputc(',', o);
    fprintf(o, "{\"key\":"); json_str(o, v->key); fprintf(o, ",\"count\":%ld,\"msg\":", v->count); json_str(o, v->msg);
    fprintf(o, ",\"replay\":"); json_str(o, rf); fprintf(o, ",\"path\":\"");
    for (int j = 0; j < v->plen; j++) fprintf(o, "%s%s=%d/%d", j ? " " : "", v->pl[j][0] ? v->pl[j] : "?", v->pc[j], v->pn[j]);
    fprintf(o, "\"}");
  }
  fprintf(o, "]}\n"); fclose(o);
  fprintf(stderr, "vx[%s]: executions=%ld pruned=%ld transitions=%ld checks=%ld outcomes=%ld violations(keys)=%d exhaustive=%d wall=%.1fs%s%s\n",
          property, execs, pruned, trans, checks, n_out, nV, exhaustive, now_s() - t0, herr ? " HARNESS-ERROR: " : "", herr ? herrmsg : "");
  if (herr) return 2;
  return nV ? 1 : 0;
}
