/* vx -- stateless, exhaustive choice-point explorer (see DESIGN.md section 2.1).
 *
 * A harness body is an ordinary C function that draws every input decision through
 * vx_choose(); the driver re-executes the body once for every element of the finite
 * tree of choice vectors (odometer DFS with replay), in forked, supervised worker
 * processes that own disjoint sub-trees.  Oracles are evaluated with vx_check().
 */
#ifndef VX_H
#define VX_H
#include <stdint.h>
#include <stddef.h>

typedef void (*vx_body_fn)(void);

int  vx_choose(const char *label, int n);       /* value in 0..n-1; every value is explored          */
int  vx_choose_dev(const char *label, int n);   /* same; a value != 0 costs one deviation (bounded)   */
void vx_require(int cond);                      /* precondition false: path pruned and counted        */
void vx_check(int ok, const char *key, const char *fmt, ...)
        __attribute__((format(printf, 3, 4)));  /* oracle; key identifies the violation class         */
void vx_fail_abort(const char *key, const char *fmt, ...)
        __attribute__((format(printf, 2, 3)));  /* record a violation and end this execution (main thread only) */
void vx_outcome(uint64_t h);                    /* distinct observed outcomes (vacuity guard)         */
void vx_transition(long k);                     /* number of library calls whose result was judged    */
int  vx_state(uint64_t h);                      /* register canonical state; returns 1 if seen before */
void vx_log(const char *fmt, ...) __attribute__((format(printf, 1, 2)));  /* printed in replay mode only */
int  vx_replaying(void);
int  vx_thorough(void);                         /* tier                                               */
long vx_seed(void);                             /* VERIF_SEED                                         */
void vx_set_shard_depth(int d);                 /* call before vx_main; default 2                     */
void vx_set_dev_bound(int quick, int thorough); /* call before vx_main; default 1 / 2                 */
void vx_expect_outcomes(long n);                /* fewer distinct outcomes => harness error (exit 2)  */
void vx_describe(const char *key, const char *fmt, ...) __attribute__((format(printf, 2, 3)));
                                                /* free-text facts copied into the summary JSON       */
uint64_t vx_hash(const void *p, size_t n, uint64_t seed);
uint64_t vx_hash_doubles(const double *p, size_t n, uint64_t seed); /* -0 == +0, all NaN equal   */

/* returns the process exit code: 0 = nothing violated, 1 = violation(s), 2 = harness error */
int  vx_main(int argc, char **argv, const char *property, vx_body_fn body);

/* convenience for tick ceilings (section 4): count, and above the ceiling classify the
 * execution as non-terminating.  Only the main thread of the execution may call it. */
void vx_note_cap(void);                         /* a harness-side cap was hit: the run is not exhaustive */
void vx_tick_reset(void);
void vx_tick(const char *key);
extern long vx_tick_ceiling;
/* for a property that IS termination: an execution without a heartbeat for `seconds` is recorded as a violation under `key`
 * (path kept, replayed under the same limit) instead of only counting as a timeout.  Call before vx_main. */
void vx_timeout_is_violation(const char *key, double seconds);

#endif
