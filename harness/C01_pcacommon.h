/* Shared by h_C01.c, h_C02.c and h_C09.c: link-time seams (processor count, NIPALS iteration tick),
 * long-double reference preprocessing and reference principal axes, small helpers.
 * Reference code never calls the library or LAPACK. */
#ifndef C01_PCACOMMON_H
#define C01_PCACOMMON_H
#include "hcommon.h"
#include "pca.h"
#include "cpca.h"
#include "preprocessing.h"
#include <unistd.h>
#include <fcntl.h>
#include <sys/types.h>
#include <pthread.h>
#include <setjmp.h>

/* ------------------------------------------------------------------ seams (GNU ld --wrap) */
static int H_NPROC = 1;                          /* what the MT_ kernels see as processor count      */
static const char *H_TICKKEY = "nonterm|unset";  /* violation key if the current fit does not stop   */
void __real_MT_DVectorMatrixDotProduct(matrix *m, dvector *v, dvector *p);
void __real_MT_MatrixDVectorDotProduct(matrix *m, dvector *v, dvector *p);
void __wrap_GetNProcessor(size_t *online, size_t *max) { if (online) *online = (size_t)H_NPROC; if (max) *max = (size_t)H_NPROC; }
static long H_KERNEL_CALLS = 0;
static uint64_t H_INPUT_HASH = 0;                /* set by the harness: a non-terminating fit is an observed outcome of THAT input */
static void h_tick(void) { if (++H_KERNEL_CALLS >= vx_tick_ceiling) vx_outcome(H_INPUT_HASH ^ 0x6e6f6e7465726dULL); vx_tick(H_TICKKEY); }
void __wrap_MT_DVectorMatrixDotProduct(matrix *m, dvector *v, dvector *p) { h_tick(); __real_MT_DVectorMatrixDotProduct(m, v, p); }
void __wrap_MT_MatrixDVectorDotProduct(matrix *m, dvector *v, dvector *p) { h_tick(); __real_MT_MatrixDVectorDotProduct(m, v, p); }

/* Thread seam.  The MT_ kernels create one pthread per "processor" for EVERY matrix-vector product
 * (2 per NIPALS iteration); a create+join costs 0.5-1 ms under ASan, which would limit the whole
 * exploration to a few thousand fits.  The workers only read shared operands and write disjoint
 * slices of the result, so running them one after the other on the calling thread executes exactly
 * the same slicing arithmetic (from/to bounds per worker) with the same values; that is what C01/C02/C09
 * quantify over ("every processor count seen by the kernels").  Real concurrency is property C13's.
 * H_REAL_THREADS = 1 lets the calls through (used on a small sub-alphabet as a cross-check). */
static int H_REAL_THREADS = 0;
static long H_WORKERS = 0;
static __thread int h_inline_depth = 0;
static __thread jmp_buf *h_inline_jb = NULL;
int  __real_pthread_create(pthread_t *t, const pthread_attr_t *a, void *(*fn)(void *), void *arg);
int  __real_pthread_join(pthread_t t, void **r);
void __real_pthread_exit(void *r) __attribute__((noreturn));
int __wrap_pthread_create(pthread_t *t, const pthread_attr_t *a, void *(*fn)(void *), void *arg) {
  H_WORKERS++;
  if (H_REAL_THREADS) return __real_pthread_create(t, a, fn, arg);
  jmp_buf jb; jmp_buf *saved = h_inline_jb;
  h_inline_jb = &jb; h_inline_depth++;
  if (setjmp(jb) == 0) fn(arg);
  h_inline_depth--; h_inline_jb = saved;
  memset(t, 0, sizeof *t);
  return 0;
}
int __wrap_pthread_join(pthread_t t, void **r) { if (H_REAL_THREADS) return __real_pthread_join(t, r); if (r) *r = NULL; return 0; }
void __wrap_pthread_exit(void *r) { if (h_inline_depth > 0) longjmp(*h_inline_jb, 1); __real_pthread_exit(r); }

static void fit_begin(int nproc, int real_threads, const char *tickkey) { H_NPROC = nproc; H_REAL_THREADS = real_threads; H_TICKKEY = tickkey; H_KERNEL_CALLS = 0; H_WORKERS = 0; vx_tick_reset(); }

/* ------------------------------------------------------------------ child probe
 * Runs fn(arg) in a forked child and tells whether the child died (sanitizer report, signal, abort).
 * Used where a crash is EXPECTED for a known input class, so that the class can be put into the
 * violation key (the engine's own crash key only names kind and function).  <signal.h>/<sys/wait.h>
 * cannot be included next to libscientific headers (ssignal clash), hence the manual prototype. */
extern pid_t waitpid(pid_t pid, int *status, int options);
static int probe_child_dies(void (*fn)(void *), void *arg) {
  fflush(NULL);
  pid_t pid = fork();
  if (pid < 0) return 0;
  if (pid == 0) {
    if (!vx_replaying()) { int dn = open("/dev/null", O_WRONLY); if (dn >= 0) { dup2(dn, 2); close(dn); } }
    fn(arg);
    _exit(0);
  }
  int st = 0;
  while (waitpid(pid, &st, 0) < 0) { /* EINTR */ }
  int exited = (st & 0x7f) == 0, code = (st >> 8) & 0xff;
  return !(exited && code == 0);
}

/* ------------------------------------------------------------------ reference preprocessing
 * scaling -1: as is; 0: centre; 1: /sample SD; 2: /RMS of the RAW column; 3: /sqrt(SD); 4: /(max-min);
 * 5: /mean.  A constant column becomes exactly 0.  mean/sf/isconst have X->c entries. */
static rmat *ref_preprocess(const rmat *X, int scaling, ld *mean, ld *sf, int *isconst) {
  rmat *E = rm_new(X->r, X->c);
  for (int j = 0; j < X->c; j++) {
    ld m, sd, rms, lo, hi; int cnt; rm_col_stats(X, j, &cnt, &m, &sd, &rms, &lo, &hi);
    isconst[j] = (lo == hi);
    ld f = 1;
    switch (scaling) { case 1: f = sd; break; case 2: f = rms; break; case 3: f = sqrtl(sd); break; case 4: f = hi - lo; break; case 5: f = m; break; default: f = 1; }
    mean[j] = scaling >= 0 ? m : 0; sf[j] = f;
    for (int i = 0; i < X->r; i++) {
      if (scaling < 0) RM(E, i, j) = RM(X, i, j);
      else if (isconst[j]) RM(E, i, j) = 0;
      else RM(E, i, j) = (RM(X, i, j) - m) / f;
    }
  }
  return E;
}

/* ------------------------------------------------------------------ reference principal axes
 * eigen-decomposition of E'E by cyclic Jacobi in long double on the smaller Gram matrix.
 * lam[0..m-1] (m = min(r,c)) descending eigenvalues of E'E; V (c x m) unit loadings; T = E V (r x m).
 * Axes whose eigenvalue is below 1e-30*lam[0] get a zero vector. */
static void ref_axes(const rmat *E, ld *lam, rmat *V, rmat *T) {
  int n = E->r, p = E->c, m = n < p ? n : p;
  rmat *Et = rm_T(E);
  if (p <= n) {
    rmat *G = rm_mul(Et, E), *W = rm_new(p, p); ld *ev = calloc((size_t)p + 1, sizeof(ld));
    for (int i = 0; i < p; i++) for (int j = 0; j < i; j++) RM(G, i, j) = RM(G, j, i) = (RM(G, i, j) + RM(G, j, i)) / 2;
    rm_jacobi_eig(G, ev, W);
    for (int k = 0; k < m; k++) { lam[k] = ev[k] > 0 ? ev[k] : 0; for (int i = 0; i < p; i++) RM(V, i, k) = RM(W, i, k); }
    free(ev); rm_free(G); rm_free(W);
  } else {
    rmat *G = rm_mul(E, Et), *W = rm_new(n, n); ld *ev = calloc((size_t)n + 1, sizeof(ld));
    for (int i = 0; i < n; i++) for (int j = 0; j < i; j++) RM(G, i, j) = RM(G, j, i) = (RM(G, i, j) + RM(G, j, i)) / 2;
    rm_jacobi_eig(G, ev, W);
    for (int k = 0; k < m; k++) {
      lam[k] = ev[k] > 0 ? ev[k] : 0;
      ld nr = 0; for (int j = 0; j < p; j++) { ld s = 0; for (int i = 0; i < n; i++) s += RM(E, i, j) * RM(W, i, k); RM(V, j, k) = s; nr += s * s; }
      nr = sqrtl(nr);
      for (int j = 0; j < p; j++) RM(V, j, k) = (nr > 0 && lam[k] > 1e-30L * ev[0]) ? RM(V, j, k) / nr : 0;
    }
    free(ev); rm_free(G); rm_free(W);
  }
  if (T) for (int k = 0; k < m; k++) for (int i = 0; i < n; i++) { ld s = 0; for (int j = 0; j < p; j++) s += RM(E, i, j) * RM(V, j, k); RM(T, i, k) = s; }
  rm_free(Et);
}

/* |sin| of the angle between column ka of A (lib matrix, rows x *) and column kb of B (rmat); *sign = sign of the dot product */
static ld sin_angle_col(const matrix *A, int ka, const rmat *B, int kb, int *sign) {
  int n = B->r; ld aa = 0, bb = 0, ab = 0;
  for (int i = 0; i < n; i++) { ld a = A->data[i][ka], b = RM(B, i, kb); aa += a * a; bb += b * b; ab += a * b; }
  if (sign) *sign = ab < 0 ? -1 : 1;
  if (!(aa > 0) || !(bb > 0)) return 1;
  /* |a x b| / (|a||b|) computed as the norm of the rejection: accurate for small angles */
  ld rej = 0; for (int i = 0; i < n; i++) { ld d = A->data[i][ka] - (ab / bb) * RM(B, i, kb); rej += d * d; }
  ld s = sqrtl(rej / aa);
  return s != s ? 1 : s;
}

/* The DOCUMENTED convergence thresholds (properties.jsonl C02: "PCACONVERGENCE 1e-10"; cpca.h at the pinned tree: 1e-18).
 * The allowances are computed from these constants, not from the header of the tree under test, so that a loosened
 * header is judged against the documented rule instead of moving the allowance with it. */
#define DOC_PCACONVERGENCE  1e-10
#define DOC_CPCACONVERGENCE 1e-18
/* the documented NIPALS stopping rule |t_new - t_old|^2 / (n |t_new|^2) < conv  ==>  relative step delta */
static double nipals_delta(int n, double conv) { return sqrt((double)n * conv); }
/* DESIGN section 3 rule 2: direction allowance of component k (1-based) with eigenvalue ratio r < 1 */
static double nipals_allow(int k, double delta, double r) { return 5.0 * k * delta / ((1.0 - r) * (1.0 - r)); }

/* ------------------------------------------------------------------ margins (notes only)
 * With VERIF_MARGINS=<file> every new per-check maximum of measured/allowance is appended to the file, so that
 * the distance between healthy runs and the allowance can be tabulated.  No effect on verdicts. */
static void margin_note(const char *name, double measured, double allowance) {
  static char names[96][64]; static double best[96]; static int nn = 0; static const char *path = NULL; static int init = 0;
  if (!init) { path = getenv("VERIF_MARGINS"); init = 1; }
  if (!path || !(allowance > 0)) return;
  double ratio = measured / allowance; int k;
  for (k = 0; k < nn; k++) if (strcmp(names[k], name) == 0) break;
  if (k == nn) { if (nn >= 96) return; snprintf(names[nn], sizeof names[0], "%s", name); best[nn] = -1; nn++; }
  if (ratio > best[k] * 1.1 || (best[k] < 0)) {
    best[k] = ratio; char line[200]; int l = snprintf(line, sizeof line, "%s %.3e %.3e %.3e\n", name, ratio, measured, allowance);
    int fd = open(path, O_WRONLY | O_CREAT | O_APPEND, 0644); if (fd >= 0) { if (write(fd, line, (size_t)l) < 0) {} close(fd); }
  }
}

static inline matrix *hm_copy(const matrix *a) { matrix *m; NewMatrix(&m, a->row, a->col); for (size_t i = 0; i < a->row; i++) memcpy(m->data[i], a->data[i], sizeof(double) * a->col); return m; }
static inline ld frob_m(const matrix *a) { ld s = 0; for (size_t i = 0; i < a->row; i++) for (size_t j = 0; j < a->col; j++) s += (ld)a->data[i][j] * a->data[i][j]; return sqrtl(s); }
#endif
