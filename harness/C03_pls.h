/* C03_pls.h -- shared by h_C03.c and h_C04.c (PLS harnesses):
 *   - the non-termination tick on the NIPALS loop kernel (link-time --wrap seam, no source hook),
 *   - finite indexed input families (X full column rank, Y non-constant, by construction),
 *   - the documented column statistics of every scaling option in long double (preconditions / classes),
 *   - a long-double reference PLS path that measures how well-posed every latent variable is (gamma),
 *   - the derived tolerance  tolc = 1e3 * eps * (n+p) * kappa(E) / min_k gamma_k,
 *   - an opt-in margin histogram (env H_MARGINS, manual runs only; never active under run_check.py).
 * Includes libscientific headers: must not include <signal.h>. */
#ifndef C03_PLS_H
#define C03_PLS_H
#include "hcommon.h"
#include "pls.h"

/* ---------------------------------------------------------------- tick seam */
static const char *TICKKEY = "nonterm|PLS|generic";
void __real_DVectorMatrixDotProduct(matrix *m, dvector *v, dvector *p);
void __wrap_DVectorMatrixDotProduct(matrix *m, dvector *v, dvector *p) { vx_tick(TICKKEY); __real_DVectorMatrixDotProduct(m, v, p); }

/* ---------------------------------------------------------------- margins (manual measurement aid) */
static int MARG_ = -1;
static void margin(const char *name, double measured, double allow) {
  if (MARG_ < 0) MARG_ = getenv("H_MARGINS") != NULL;
  if (!MARG_) return;
  double r = allow > 0 ? measured / allow : (measured > 0 ? 1e30 : 0);
  int dec = r <= 1e-20 ? -20 : (int)ceil(log10(r));
  char key[96]; snprintf(key, sizeof key, "margin|%s|1e%+03d", name, dec);
  vx_check(0, key, "measured %g allowance %g", measured, allow);
}

/* ---------------------------------------------------------------- input families */
#define PMAX 12
#define NMAXR 48
#define NYMAX 4

/* X (n x p, row-major).  kappa > 0: U diag(s) V^T with s geometric, s1 = sqrt(n), s1/sp = kappa ("spectral", full column
 * rank by construction); kappa == 0: general-position lattice values (full column rank with probability one; the
 * condition number of the preprocessed matrix is computed by the reference and enters the tolerance either way).
 * variant 0: column offsets +-(1+0.5j) (centring matters, level scaling applicable, negative means present)
 *         1: no offsets (columns with small means; level scaling pruned where the mean is inside the zero guard)
 *         2: column 0 offset 1e3, last column multiplied by 50 (differently scaled predictors)
 *         3: every column rescaled to a sample standard deviation of 4e-3: inside the band (1e-3, 1e-2) where the
 *            fit path of MatrixPreprocess divides by the scaling factor and its apply path zeroes the column */
static void gen_x(int n, int p, int k, double kappa, int variant, double *X) {
  if (kappa > 0) { double ratio = p > 1 ? pow(kappa, -1.0 / (p - 1)) : 1.0; vg_spectral(k, n, p, sqrt((double)n), ratio, X); }
  else { vg_fill(k + 500, n, p, X); for (int i = 0; i < n * p; i++) X[i] *= 2.0; }
  if (variant == 3) {
    for (int j = 0; j < p; j++) {
      ld m = 0, ss = 0; for (int i = 0; i < n; i++) m += X[i * p + j]; m /= n;
      for (int i = 0; i < n; i++) ss += (X[i * p + j] - m) * (X[i * p + j] - m);
      ld sd = sqrtl(ss / (n - 1));
      for (int i = 0; i < n; i++) X[i * p + j] = (double)((X[i * p + j] - m) * (4e-3L / sd));
    }
  }
  for (int j = 0; j < p; j++) {
    double off = 0, mul = 1;
    if (variant == 0 || variant == 3) off = (j % 2 ? -1.0 : 1.0) * (1.0 + 0.5 * j);
    if (variant == 2) { off = j == 0 ? 1e3 : 0.75 * (j % 2 ? -1.0 : 1.0); if (j == p - 1 && p > 1) mul = 50; }
    for (int i = 0; i < n; i++) X[i * p + j] = X[i * p + j] * mul + off;
  }
}

static const double NOISE_LEVEL[3] = {0.0, 0.1, 3.0};
/* Y (n x ny) = unit-variance signal (centred X times general-position B) + level * unit-variance noise + offsets.
 * variant 0: offsets +-(2+r);  1: correlated responses (r>=1: 0.95*y0 + 0.2*yr);  2: differently scaled responses
 * (scales 100, 0.1, 1e3, 1 and offsets -750, 0.3, 5e3, 1).  Every column is non-constant by construction. */
static void gen_y(int n, int p, int ny, const double *X, int k, int noise, int variant, double *Y) {
  ld mean[PMAX];
  for (int j = 0; j < p; j++) { mean[j] = 0; for (int i = 0; i < n; i++) mean[j] += X[i * p + j]; mean[j] /= n; }
  ld col[NYMAX][NMAXR];
  for (int r = 0; r < ny; r++) {
    ld m = 0, ss = 0, nm = 0, nss = 0, nz[NMAXR];
    for (int i = 0; i < n; i++) { ld s = 0; for (int j = 0; j < p; j++) s += (X[i * p + j] - mean[j]) * (ld)(2.0 * vg_val(k + 300, j, r)); col[r][i] = s; m += s; nz[i] = vg_val(k + 400, i, r); nm += nz[i]; }
    m /= n; nm /= n;
    for (int i = 0; i < n; i++) { ss += (col[r][i] - m) * (col[r][i] - m); nss += (nz[i] - nm) * (nz[i] - nm); }
    ld sd = sqrtl(ss / (n - 1)), nsd = sqrtl(nss / (n - 1));
    for (int i = 0; i < n; i++) col[r][i] = (col[r][i] - m) / sd + (ld)NOISE_LEVEL[noise] * (nz[i] - nm) / nsd;
  }
  if (variant == 1) for (int r = 1; r < ny; r++) for (int i = 0; i < n; i++) col[r][i] = 0.95L * col[0][i] + 0.2L * col[r][i];
  static const double SC2[4] = {100, 0.1, 1e3, 1}, OF2[4] = {-750, 0.3, 5e3, 1};
  for (int r = 0; r < ny; r++) for (int i = 0; i < n; i++) {
    ld v = col[r][i];
    if (variant == 2) v = v * SC2[r] + OF2[r]; else v = v + (r % 2 ? -1.0 : 1.0) * (2.0 + r);
    Y[i * ny + r] = (double)v;
  }
}

/* the statistic each scaling option documents for a raw training column (pls.h "Available scalings"; option 2 uses the
 * RMS of the raw column, option 3 the square root of the standard deviation, option 5 the mean) */
static ld ref_scaling(const double *A, int n, int c, int col, int opt, ld *mean_out, ld *sum_out) {
  ld s = 0, s2 = 0, lo = A[col], hi = A[col];
  for (int i = 0; i < n; i++) { ld v = A[i * c + col]; s += v; s2 += v * v; if (v < lo) lo = v; if (v > hi) hi = v; }
  ld m = s / n, ss = 0; for (int i = 0; i < n; i++) { ld v = A[i * c + col]; ss += (v - m) * (v - m); }
  ld sd = sqrtl(ss / (n - 1));
  if (mean_out) *mean_out = m;
  if (sum_out) *sum_out = s;
  switch (opt) { case 1: return sd; case 2: return sqrtl(s2 / n); case 3: return sqrtl(sd); case 4: return hi - lo; case 5: return m; default: return 1; }
}
/* preprocessed block from documented statistics (independent of the library) */
static rmat *prep_ref(const double *A, int n, int c, int opt) {
  rmat *E = rm_new(n, c);
  for (int j = 0; j < c; j++) { ld m, sc = ref_scaling(A, n, c, j, opt, &m, NULL); for (int i = 0; i < n; i++) RM(E, i, j) = opt < 0 ? (ld)A[i * c + j] : (A[i * c + j] - m) / sc; }
  return E;
}
/* preprocessed block from the statistics STORED in the model (what the statement calls "preprocessed X") */
static rmat *prep_stored(const double *A, int n, int c, const dvector *avg, const dvector *sc) {
  rmat *E = rm_new(n, c);
  for (int j = 0; j < c; j++) for (int i = 0; i < n; i++) {
    ld v = A[i * c + j];
    if ((int)avg->size == c) v -= avg->data[j];
    if ((int)sc->size == c) v /= sc->data[j];
    RM(E, i, j) = v;
  }
  return E;
}

/* preconditions of the statements, decided from the raw data with the reference statistics:
 * returns 0 if the input is outside them (caller prunes), else 1; *band = some X scaling factor lies in (1.2e-3, 1e-2) */
static int input_ok(const double *X, int n, int p, int xs, const double *Y, int ny, int ys, int *band) {
  *band = 0;
  for (int j = 0; j < p; j++) {
    ld m, sum, sc = ref_scaling(X, n, p, j, xs, &m, &sum);
    if (xs >= 0 && fabsl(sum) < 1e-5L) return 0;            /* MatrixColAverage flushes |column sum| < 1e-6 to 0 (known, C11) */
    if (xs >= 1) { if (fabsl(sc) < 1.2e-3L) return 0;        /* documented zero-spread guard: column removed, rank drops */
                   if (fabsl(sc) < 1.0e-2L) *band = 1; }
  }
  for (int r = 0; r < ny; r++) {
    ld m, sum, sc = ref_scaling(Y, n, ny, r, ys, &m, &sum);
    if (ys >= 0 && fabsl(sum) < 1e-5L) return 0;
    if (ys >= 1 && fabsl(sc) < 1.0e-2L) return 0;            /* response inside the zero guard is not a "non-constant Y" for the fit */
    for (int i = 0; i < n; i++) if (fabs(Y[i * ny + r]) > 1e7) return 0; /* keep clear of the missing code 99999999 */
  }
  return 1;
}

/* long-double reference PLS path (exact inner relation: q = dominant eigenvector of F'E E'F, so no convergence
 * question).  gamma[k] = |E_k' u_k| / (||E_0||_F |u_k|): how far the weight direction of latent variable k+1 is above
 * the rounding floor of the product that defines it.  The structural identities of PLS are rounding-level facts with
 * amplification kappa(E)/gamma; for gamma -> 0 the latent variable is 0/0 in exact arithmetic (Krylov space exhausted,
 * e.g. orthonormal X after one component) and nothing is promised. */
static void ref_pls_gamma(const rmat *E0, const rmat *F0, int A, ld *gamma) {
  rmat *E = rm_copy(E0), *F = rm_copy(F0); int n = E->r, p = E->c, ny = F->c; ld e0 = rm_fro(E0);
  ld u[NMAXR], w[PMAX], t[NMAXR], pp[PMAX], q[NYMAX];
  for (int k = 0; k < A; k++) {
    if (ny == 1) q[0] = 1;
    else {
      rmat *G = rm_new(p, ny), *M = rm_new(ny, ny), *V = rm_new(ny, ny); ld ev[NYMAX];
      for (int j = 0; j < p; j++) for (int r = 0; r < ny; r++) { ld s = 0; for (int i = 0; i < n; i++) s += RM(E, i, j) * RM(F, i, r); RM(G, j, r) = s; }
      for (int a = 0; a < ny; a++) for (int b = 0; b < ny; b++) { ld s = 0; for (int j = 0; j < p; j++) s += RM(G, j, a) * RM(G, j, b); RM(M, a, b) = s; }
      rm_jacobi_eig(M, ev, V); for (int r = 0; r < ny; r++) q[r] = RM(V, r, 0);
      rm_free(G); rm_free(M); rm_free(V);
    }
    ld un = 0; for (int i = 0; i < n; i++) { ld s = 0; for (int r = 0; r < ny; r++) s += RM(F, i, r) * q[r]; u[i] = s; un += s * s; } un = sqrtl(un);
    ld wn = 0; for (int j = 0; j < p; j++) { ld s = 0; for (int i = 0; i < n; i++) s += RM(E, i, j) * u[i]; w[j] = s; wn += s * s; } wn = sqrtl(wn);
    gamma[k] = (un > 0 && e0 > 0) ? wn / (e0 * un) : 0;
    if (!(wn > 0)) { for (int kk = k; kk < A; kk++) gamma[kk] = 0; break; }
    for (int j = 0; j < p; j++) w[j] /= wn;
    ld tt = 0; for (int i = 0; i < n; i++) { ld s = 0; for (int j = 0; j < p; j++) s += RM(E, i, j) * w[j]; t[i] = s; tt += s * s; }
    if (!(tt > 0)) { for (int kk = k + 1; kk < A; kk++) gamma[kk] = 0; break; }
    for (int j = 0; j < p; j++) { ld s = 0; for (int i = 0; i < n; i++) s += RM(E, i, j) * t[i]; pp[j] = s / tt; }
    for (int r = 0; r < ny; r++) { ld s = 0; for (int i = 0; i < n; i++) s += RM(F, i, r) * t[i]; s /= tt; for (int i = 0; i < n; i++) RM(F, i, r) -= t[i] * s; }
    for (int i = 0; i < n; i++) for (int j = 0; j < p; j++) RM(E, i, j) -= t[i] * pp[j];
  }
  rm_free(E); rm_free(F);
}

/* cosine allowance for `a` latent variables: 1e3 (fixed safety factor) * eps * (n+p) * kappa / min gamma */
static double tol_cos(int n, int p, double kappa, const ld *gamma, int a) {
  ld g = 1; for (int k = 0; k < a; k++) if (gamma[k] < g) g = gamma[k];
  if (!(g > 0)) return INFINITY;
  return 1e3 * DEPS * (n + p) * kappa / (double)g;
}
/* structural identities are judged only while the allowance is still 4 orders of magnitude below an O(1e-2) defect */
#define TOLC_CAP 1e-6

static inline ld colnorm(const rmat *m, int j) { ld s = 0; for (int i = 0; i < m->r; i++) s += RM(m, i, j) * RM(m, i, j); return sqrtl(s); }
static inline ld coldot(const rmat *a, int i, const rmat *b, int j) { ld s = 0; for (int k = 0; k < a->r; k++) s += RM(a, k, i) * RM(b, k, j); return s; }
#endif
