#!/usr/bin/python3
"""C20 -- the Python ctypes bindings describe exactly the C structures and prototypes they call.

Script-kind check (run_check.py "kind": "script"); standard library + gcc + gdb only.  Everything is
re-derived from the current tree on every run:

  1. build a -g shared library from <repo>/src (sources of src/CMakeLists.txt, Scientific_C_SRCS; datasets.c
     only if a bound symbol lives there),
  2. gdb --batch + harness/c20_gdb_dump.py: struct layouts and prototypes from the DWARF (what the C
     compiler believes; no hand-written C parser),
  3. import src/python_bindings/libscientific with its loader redirected to that library (every module gets
     its own recording proxy), collect every ctypes.Structure and every lsci.<f> used anywhere (AST),
  4. judge EVERY (structure, field) and EVERY (function, parameter) / (function, return) pair:
       - on the descriptions (count, order, names, pointer depth + pointee, integer width, floating type,
         offsets, sizeof),
       - for real: a generated C "probe" library fills field k of a real C instance with sentinel k and
         Python reads it through its own _fields_; a generated "ABI echo" library exports every bound
         symbol with exactly the ABI of the C prototype, records what it received and returns a sentinel;
         Python calls it through the package's own argtypes/restype for every parameter x sentinel.
  5. write the summary JSON in the shape the vx engine writes.

Keys: struct|<PyStruct>|..., proto|<function>|param<k>:<C>-vs-<Py>, proto|<function>|nparams:c=N,py=K,
proto|<function>|argtypes-undeclared:c-has-N-params, proto|<function>|return:<C>-vs-<Py>, symbol|<module>|<name>.
One key per declaration pair, so a new mismatch is a new key.
"""
import sys, os, re, json, ast, time, types, ctypes, subprocess, hashlib, importlib, traceback, struct as _struct
from concurrent.futures import ThreadPoolExecutor

T0 = time.time()
HERE = os.path.dirname(os.path.abspath(__file__))

# intentional renames (C typedef, C field) -> Python field; committed here, nothing else is tolerated
FIELD_ALIASES = {("dvectorlist", "d"): "dvector"}


def arg(name, default=None):
    if name in sys.argv:
        return sys.argv[sys.argv.index(name) + 1]
    return default


REPO = arg("--repo", os.environ.get("VERIF_REPO", "/repo"))
OUT = arg("--out", "c20_out.json")
TIER = arg("--tier", os.environ.get("VERIF_TIER", "quick"))
VERIF = arg("--verif", os.path.dirname(HERE))
SRC = os.path.join(REPO, "src")
PKGROOT = os.path.join(SRC, "python_bindings")
PKG = os.path.join(PKGROOT, "libscientific")
WORK = os.path.join(os.path.dirname(os.path.abspath(OUT)), "c20_work")
SEED = int(os.environ.get("VERIF_SEED", "0") or 0)


class HarnessError(Exception):
    pass


def sh(cmd, **kw):
    r = subprocess.run(cmd, stdout=subprocess.PIPE, stderr=subprocess.STDOUT, text=True, **kw)
    return r.returncode, r.stdout


# ------------------------------------------------------------------------------------------ 1. build
def lib_sources():
    txt = open(os.path.join(SRC, "CMakeLists.txt")).read()
    m = re.search(r"set\(Scientific_C_SRCS([^)]*)\)", txt)
    if not m:
        raise HarnessError("cannot find Scientific_C_SRCS in src/CMakeLists.txt")
    return [n for n in m.group(1).split() if n.endswith(".c")]


def build_library(with_datasets):
    os.makedirs(WORK, exist_ok=True)
    for f in os.listdir(WORK):
        if f.endswith((".o", ".so", ".json", ".c", ".txt")):
            os.unlink(os.path.join(WORK, f))
    txt = open(os.path.join(REPO, "CMakeLists.txt")).read()
    v = {k: (re.search(r"set\(VERSION_%s\s+(\d+)\)" % k, txt) or [0, "0"])[1] for k in ("MAJOR", "MINOR", "PATCH")}
    with open(os.path.join(WORK, "scientificconfig.h"), "w") as f:
        f.write("#define major_ %s\n#define minor_ %s\n#define patch_ %s\n" % (v["MAJOR"], v["MINOR"], v["PATCH"]))
    srcs = [s for s in lib_sources() if with_datasets or s != "datasets.c"]
    cc = ["gcc", "-std=gnu99", "-D_GNU_SOURCE", "-g", "-O0", "-fPIC", "-w", "-I", SRC, "-I", WORK]

    def comp(s):
        o = os.path.join(WORK, s[:-2] + ".o")
        rc, out = sh(cc + ["-c", os.path.join(SRC, s), "-o", o])
        return rc, out, o
    with ThreadPoolExecutor(16) as ex:
        res = list(ex.map(comp, srcs))
    bad = [r for r in res if r[0] != 0]
    if bad:
        raise HarnessError("library source does not compile: " + bad[0][1][-1500:])
    lib = os.path.join(WORK, "libscientific.so")
    rc, out = sh(["gcc", "-shared", "-o", lib] + [r[2] for r in res] + ["-llapack", "-lblas", "-lsqlite3", "-lm", "-lpthread"])
    if rc != 0:
        raise HarnessError("cannot link the -g shared library: " + out[-1500:])
    return lib


def exported(lib):
    rc, out = sh(["nm", "-D", "--defined-only", lib])
    if rc != 0:
        raise HarnessError("nm failed: " + out[-500:])
    return sorted(set(l.split()[2] for l in out.splitlines() if len(l.split()) == 3 and l.split()[1] in "TtWw"))


# ------------------------------------------------------------------------------------------ 2. DWARF
def gdb_dump(lib, names):
    nf = os.path.join(WORK, "names.txt")
    open(nf, "w").write("\n".join(names) + "\n")
    out = os.path.join(WORK, "dwarf.json")
    env = dict(os.environ, C20_NAMES=nf, C20_OUT=out, C20_SRC=SRC)
    rc, log = sh(["gdb", "--batch", "-nx", "-x", os.path.join(HERE, "c20_gdb_dump.py"), lib], env=env)
    if not os.path.exists(out):
        raise HarnessError("gdb dump failed (rc %d): %s" % (rc, log[-1500:]))
    return json.load(open(out))


# ------------------------------------------------------------------------------------------ 3. the package, for real
class MarkerInt(ctypes.c_int):
    """restype of a function whose restype was never assigned (ctypes' silent default is c_int)"""


class RecCDLL(ctypes.CDLL):
    _func_restype_ = MarkerInt


class Missing:
    """stands in for a symbol the library does not export, so that the import can go on"""
    def __init__(self, name):
        self._name = name
        self.argtypes = None
        self.restype = MarkerInt

    def __call__(self, *a, **k):
        raise AttributeError("symbol %s is not exported by the library" % self._name)


class LibProxy:
    def __init__(self, cdll, module):
        object.__setattr__(self, "_cdll", cdll)
        object.__setattr__(self, "_module", module)
        object.__setattr__(self, "_touched", {})

    def __getattr__(self, name):
        if name.startswith("__") and name.endswith("__"):
            raise AttributeError(name)
        t = self._touched
        if name not in t:
            try:
                t[name] = getattr(self._cdll, name)
            except AttributeError:
                t[name] = Missing(name)
        return t[name]

    def __getitem__(self, name):
        return self.__getattr__(name)


PROXIES = {}


def import_package(libpath):
    stub = types.ModuleType("libscientific")
    stub.__path__ = [PKG]
    stub.__file__ = os.path.join(PKG, "__init__.py")
    sys.modules["libscientific"] = stub
    sys.path.insert(0, PKGROOT)
    ll = importlib.import_module("libscientific.loadlibrary")

    def patched():
        mod = sys._getframe(1).f_globals.get("__name__", "?")
        p = LibProxy(RecCDLL(libpath), mod)
        PROXIES.setdefault(mod, p)
        return PROXIES[mod]
    ll.load_libscientific_library = patched
    ll.load_library_for_posix = patched
    mods = {}
    for f in sorted(os.listdir(PKG)):
        if not f.endswith(".py") or f in ("__init__.py", "loadlibrary.py"):
            continue
        name = "libscientific." + f[:-3]
        try:
            mods[name] = importlib.import_module(name)
        except Exception as e:  # noqa
            raise HarnessError("cannot import %s against the freshly built library: %s\n%s" % (name, e, traceback.format_exc()[-1200:]))
    return mods


def ast_uses(path):
    """names X of every expression lsci.X in a module; assignments lsci.X.argtypes / .restype"""
    src = open(path).read()
    tree = ast.parse(src)
    used, call_sites = {}, {}
    for node in ast.walk(tree):
        if isinstance(node, ast.Attribute) and isinstance(node.value, ast.Name) and node.value.id == "lsci":
            used.setdefault(node.attr, node.lineno)
        if isinstance(node, ast.Call) and isinstance(node.func, ast.Attribute) and isinstance(node.func.value, ast.Name) and node.func.value.id == "lsci":
            call_sites.setdefault(node.func.attr, []).append((node.lineno, len(node.args)))
    return used, call_sites


# ------------------------------------------------------------------------------------------ type descriptions
PYNAME = {"c_ulong": "c_size_t", "c_long": "c_long"}


def py_desc(t):
    """ABI-relevant description of a ctypes type, same vocabulary as c20_gdb_dump.classify"""
    if t is None:
        return {"kind": "void", "spelled": "None"}
    if t is MarkerInt:
        d = py_desc(ctypes.c_int)
        d["undeclared"] = True
        d["spelled"] = "(undeclared->c_int)"
        return d
    if isinstance(t, type) and issubclass(t, ctypes._Pointer):
        depth, base = 0, t
        while isinstance(base, type) and issubclass(base, ctypes._Pointer):
            depth += 1
            base = base._type_
        return {"kind": "pointer", "depth": depth, "size": 8, "base": py_desc(base), "spelled": py_spell(t)}
    if isinstance(t, type) and issubclass(t, ctypes._SimpleCData):
        code = t._type_
        size = ctypes.sizeof(t)
        if code in "z":
            return {"kind": "pointer", "depth": 1, "size": 8, "base": {"kind": "char", "size": 1, "name": "char"}, "spelled": "c_char_p"}
        if code in "Z":
            return {"kind": "pointer", "depth": 1, "size": 8, "base": {"kind": "int", "size": 4, "name": "wchar_t"}, "spelled": "c_wchar_p"}
        if code in "P":
            return {"kind": "pointer", "depth": 1, "size": 8, "base": {"kind": "void", "size": 0, "name": "void"}, "spelled": "c_void_p"}
        if code in "dfg":
            return {"kind": "float", "size": size, "spelled": py_spell(t)}
        if code in "cbB" or (code == "?"):
            return {"kind": "char" if code != "?" else "int", "size": 1, "signed": code in "cb", "spelled": py_spell(t)}
        if code in "hHiIlLqQ":
            return {"kind": "int", "size": size, "signed": code in "hilq", "spelled": py_spell(t)}
        return {"kind": "other", "size": size, "spelled": py_spell(t)}
    if isinstance(t, type) and issubclass(t, (ctypes.Structure, ctypes.Union)):
        return {"kind": "struct", "size": ctypes.sizeof(t), "struct": t.__name__, "pyclass": t, "spelled": t.__name__}
    if isinstance(t, type) and issubclass(t, ctypes._CFuncPtr):
        return {"kind": "pointer", "depth": 1, "size": 8, "base": {"kind": "func", "size": 0, "name": "function"}, "spelled": "CFUNCTYPE"}
    if isinstance(t, type) and issubclass(t, ctypes.Array):
        return {"kind": "array", "size": ctypes.sizeof(t), "spelled": py_spell(t)}
    return {"kind": "other", "size": 0, "spelled": str(t)}


def py_spell(t):
    if t is None:
        return "None"
    if isinstance(t, type) and issubclass(t, ctypes._Pointer):
        return "POINTER(%s)" % py_spell(t._type_)
    n = getattr(t, "__name__", str(t))
    return PYNAME.get(n, n)


def c_spell(d):
    return d.get("spelled", "?").replace(" ", "")


def leaf(d):
    return d["base"] if d.get("kind") == "pointer" else d


def compare_types(c, p, structmap, where, signedness=False):
    """list of (aspect, text) differences between a C type description and a Python one.
    signedness=True (structure fields: the statement says "the same C types", and a value read through a field of the
    other signedness is a different number) also compares the signedness of integers and integer pointees of equal
    width; for call parameters the statement names the integer WIDTH only."""
    diffs = []
    ck, pk = c.get("kind"), p.get("kind")
    if ck == "int" and c.get("code") == "ENUM":
        ck = "int"
    if ck == "char" and pk == "int" and p.get("size") == 1:
        pk = "char"
    if ck != pk:
        if {ck, pk} == {"char", "int"} and c.get("size") == p.get("size"):
            return diffs
        diffs.append(("kind", "C %s is %s, Python %s is %s" % (c_spell(c), ck, p.get("spelled"), pk)))
        return diffs
    if ck == "pointer":
        if c["depth"] != p["depth"]:
            diffs.append(("pointer-depth", "C %s has pointer depth %d, Python %s has %d" % (c_spell(c), c["depth"], p.get("spelled"), p["depth"])))
            return diffs
        cb, pb = c["base"], p["base"]
        cbk, pbk = cb.get("kind"), pb.get("kind")
        if cbk == "void" or pbk == "void":
            return diffs          # void* on either side describes "some pointer"; nothing more is claimed
        if cbk == "struct" and pbk == "struct":
            want = structmap.get(pb.get("struct"))
            if want is not None and want != cb.get("struct"):
                diffs.append(("pointee", "C points to %s, Python to %s (which mirrors %s)" % (cb.get("struct"), pb.get("struct"), want)))
            return diffs
        if cbk != pbk and not ({cbk, pbk} == {"char", "int"} and cb.get("size") == pb.get("size")):
            diffs.append(("pointee", "C points to %s (%s), Python to %s" % (cb.get("name"), cbk, pb.get("spelled", pb.get("name")))))
            return diffs
        if cbk in ("int", "float", "char") and cb.get("size") != pb.get("size"):
            diffs.append(("pointee-width", "C points to %d-byte %s, Python to %d-byte" % (cb.get("size"), cb.get("name"), pb.get("size"))))
        elif signedness and cbk == "int" and pbk == "int" and bool(cb.get("signed", True)) != bool(pb.get("signed", True)):
            diffs.append(("pointee-signedness", "C points to %s %s, Python to %s" % ("signed" if cb.get("signed", True) else "unsigned", cb.get("name"), pb.get("spelled", pb.get("name")))))
        return diffs
    if ck in ("int", "char"):
        if c.get("size") != p.get("size"):
            diffs.append(("int-width", "C %s is %d bytes, Python %s is %d bytes" % (c_spell(c), c.get("size"), p.get("spelled"), p.get("size"))))
        elif signedness and ck == "int" and pk == "int" and bool(c.get("signed", True)) != bool(p.get("signed", True)):
            diffs.append(("int-signedness", "C %s is %s, Python %s is not" % (c_spell(c), "signed" if c.get("signed", True) else "unsigned", p.get("spelled"))))
        return diffs
    if ck == "float":
        if c.get("size") != p.get("size"):
            diffs.append(("float-type", "C %s is %d bytes, Python %s is %d bytes" % (c_spell(c), c.get("size"), p.get("spelled"), p.get("size"))))
        return diffs
    if ck == "struct":
        want = structmap.get(p.get("struct"))
        if want is not None and want != c.get("struct"):
            diffs.append(("struct", "C passes %s by value, Python %s" % (c.get("struct"), p.get("struct"))))
        return diffs
    return diffs


# ------------------------------------------------------------------------------------------ generated C
INT_T = {(1, True): "int8_t", (1, False): "uint8_t", (2, True): "int16_t", (2, False): "uint16_t", (4, True): "int32_t",
         (4, False): "uint32_t", (8, True): "int64_t", (8, False): "uint64_t"}
RET_I32, RET_I64, RET_U64, RET_D, RET_F = -7, -(2 ** 32 + 7), 2 ** 32 + 7, 2.5, 1.25
RET_STR = b"c20-echo"


def abi_type(d):
    k = d.get("kind")
    if k == "pointer":
        return "void *"
    if k in ("int", "char"):
        return INT_T.get((d.get("size"), bool(d.get("signed", True))))
    if k == "float":
        return {8: "double", 4: "float"}.get(d.get("size"))
    if k == "void":
        return "void"
    return None


def gen_echo(funcs):
    """one function per bound symbol with exactly the ABI of the DWARF prototype"""
    out = ["#include <stdint.h>", "#include <stddef.h>",
           "unsigned long long c20_u[64]; double c20_d[64]; int c20_n = -1; const char *c20_who = 0;",
           "char c20_buf[64]; char c20_str[] = \"c20-echo\";",
           "void c20_reset(void){ for (int i = 0; i < 64; i++) { c20_u[i] = 0xDEADBEEFCAFEF00DULL; c20_d[i] = -12345.678; } c20_n = -1; c20_who = 0; }"]
    done, skipped = [], {}
    for name, f in sorted(funcs.items()):
        if f.get("notfunc") or f.get("varargs"):
            skipped[name] = "not a plain function"
            continue
        ptypes = [abi_type(p) for p in f["params"]]
        rt = abi_type(f["ret"])
        if rt is None or any(t is None or t == "void" for t in ptypes):
            skipped[name] = "passes or returns a struct by value"
            continue
        if len(ptypes) > 60:
            skipped[name] = "too many parameters"
            continue
        params = ", ".join("%s a%d" % (t, i) for i, t in enumerate(ptypes)) or "void"
        body = ["c20_n = %d;" % len(ptypes), "c20_who = \"%s\";" % name]
        for i, (t, p) in enumerate(zip(ptypes, f["params"])):
            if p["kind"] == "float":
                body.append("c20_d[%d] = (double)a%d;" % (i, i))
            elif p["kind"] == "pointer":
                body.append("c20_u[%d] = (unsigned long long)(uintptr_t)a%d;" % (i, i))
            else:
                body.append("c20_u[%d] = (unsigned long long)(long long)a%d;" % (i, i))
        r = f["ret"]
        if r["kind"] == "void":
            ret = ""
        elif r["kind"] == "pointer":
            ret = "return (void *)%s;" % ("c20_str" if r["base"].get("kind") == "char" and r["depth"] == 1 else "c20_buf")
        elif r["kind"] == "float":
            ret = "return (%s)%r;" % (rt, RET_D if r["size"] == 8 else RET_F)
        else:
            v = {(4, True): RET_I32, (8, True): RET_I64, (8, False): RET_U64}.get((r["size"], bool(r.get("signed", True))), 5)
            ret = "return (%s)%dLL;" % (rt, v) if v < 0 else "return (%s)%dULL;" % (rt, v)
        out.append("%s %s(%s) { %s %s }" % (rt, name, params, " ".join(body), ret))
        done.append(name)
    return "\n".join(out) + "\n", done, skipped


def field_sentinel(k, d):
    kind = d.get("kind")
    if kind == "pointer":
        return 0x7000A000 + 0x40 * k
    if kind == "float":
        return k + 0.25
    if kind in ("int", "char"):
        size = d.get("size")
        if size == 8:
            return 2 ** 32 + 11 * k + 3
        if size == 1:
            return (7 * k + 3) % 100
        return 1000 + 11 * k + 3
    return None


def gen_probe(structs):
    """fills field k of a real C instance with sentinel k (the compiler's own layout: real headers)"""
    out = ["#include <stdint.h>", "#include <stddef.h>", "#include <string.h>"]
    for h in sorted(set(os.path.basename(s["file"]) for s in structs.values() if s.get("file", "").endswith(".h"))):
        out.append('#include "%s"' % h)       # the headers the DWARF names as the home of each typedef
    for name, s in sorted(structs.items()):
        lines = ["memset(p, 0xA5, sizeof *p);"]     # padding is not zero: a wider Python read sees it
        for k, f in enumerate(s["fields"]):
            v = field_sentinel(k, f["type"])
            if v is None or f.get("bitsize"):
                continue
            if f["type"]["kind"] == "pointer":
                lines.append("p->%s = (void *)(uintptr_t)%dULL;" % (f["name"], v))
            elif f["type"]["kind"] == "float":
                lines.append("p->%s = %r;" % (f["name"], v))
            else:
                lines.append("p->%s = %dULL;" % (f["name"], v))
        out.append("size_t c20_sizeof_%s(void) { return sizeof(%s); }" % (name, name))
        out.append("void c20_fill_%s(%s *p) { %s }" % (name, name, " ".join(lines)))
        offs = ", ".join("offsetof(%s, %s)" % (name, f["name"]) for f in s["fields"] if not f.get("bitsize")) or "0"
        out.append("size_t c20_offsets_%s[] = { %s };" % (name, offs))
    return "\n".join(out) + "\n"


def cc_shared(cfile, so, extra=()):
    rc, out = sh(["gcc", "-std=gnu99", "-D_GNU_SOURCE", "-O0", "-g", "-fPIC", "-shared", "-w", "-I", SRC, "-I", WORK, cfile, "-o", so] + list(extra))
    if rc != 0:
        raise HarnessError("cannot compile generated %s: %s" % (os.path.basename(cfile), out[-1500:]))
    return so


# ------------------------------------------------------------------------------------------ result bookkeeping
class Book:
    def __init__(self):
        self.viol = {}       # key -> dict
        self.checks = 0
        self.calls = 0
        self.pairs = 0
        self.outcomes = set()
        self.samples = []

    def judge(self, ok, key, msg, pair):
        self.checks += 1
        if ok:
            return
        key = re.sub(r"\s+", "", key)
        v = self.viol.setdefault(key, {"key": key, "count": 0, "msg": msg, "pair": pair})
        v["count"] += 1

    def outcome(self, *t):
        self.outcomes.add(hashlib.sha1(repr(t).encode()).hexdigest()[:16])


# ------------------------------------------------------------------------------------------ 4. the checks
def derive_structmap(pystructs, dwarf, bound, book):
    """Python structure class -> C typedef, voted by the prototypes that pass pointers to them; name match as fallback"""
    votes = {}
    for (mod, fname, fn) in bound:
        c = dwarf["funcs"].get(fname)
        at = getattr(fn, "argtypes", None)
        if not c or not at or c.get("notfunc"):
            continue
        for cp, pt in zip(c["params"], at):
            pd = py_desc(pt)
            if cp.get("kind") == "pointer" and pd.get("kind") == "pointer" and cp["depth"] == pd["depth"] \
               and cp["base"].get("kind") == "struct" and pd["base"].get("kind") == "struct":
                votes.setdefault(pd["base"]["struct"], {}).setdefault(cp["base"]["struct"], 0)
                votes[pd["base"]["struct"]][cp["base"]["struct"]] += 1
    m = {}
    lower = {k.lower(): k for k in dwarf["structs"]}
    for name in pystructs:
        if name in votes:
            m[name] = max(sorted(votes[name].items()), key=lambda kv: kv[1])[0]
        elif name in dwarf["structs"]:
            m[name] = name
        elif name.lower() in lower:
            m[name] = lower[name.lower()]
    return m, votes


def check_structs(pystructs, structmap, dwarf, probe, book):
    for pname, (mod, cls) in sorted(pystructs.items()):
        cname = structmap.get(pname)
        pair = "structure %s.%s <-> C typedef %s" % (mod, pname, cname)
        book.pairs += 1
        book.judge(cname is not None and cname in dwarf["structs"], "struct|%s|no-C-counterpart" % pname,
                   "Python structure %s (%s) mirrors no C struct typedef of the library" % (pname, mod), pair)
        if cname is None or cname not in dwarf["structs"]:
            continue
        cs = dwarf["structs"][cname]
        pf = list(getattr(cls, "_fields_", []))
        cf = cs["fields"]
        book.judge(len(pf) == len(cf), "struct|%s|nfields:c=%d,py=%d" % (pname, len(cf), len(pf)),
                   "%s has %d fields in %s, %d in Python %s: C [%s] / Python [%s]" % (cname, len(cf), os.path.basename(cs.get("file", "?")), len(pf), mod,
                                                                                  ", ".join(f["name"] for f in cf), ", ".join(f[0] for f in pf)), pair)
        book.judge(cs["size"] == ctypes.sizeof(cls), "struct|%s|sizeof:c=%d,py=%d" % (pname, cs["size"], ctypes.sizeof(cls)),
                   "sizeof(%s) is %d in C, ctypes.sizeof(%s) is %d" % (cname, cs["size"], pname, ctypes.sizeof(cls)), pair)
        # the probe: a real C instance filled by C, read by Python through its own declaration
        size_c = None
        got = None
        if probe is not None:
            try:
                fsz = getattr(probe, "c20_sizeof_%s" % cname)
                fsz.restype = ctypes.c_size_t
                fsz.argtypes = []
                size_c = fsz()
                book.calls += 1
                book.judge(size_c == cs["size"], "struct|%s|dwarf-vs-compiler-sizeof" % pname, "DWARF says %d, sizeof says %d" % (cs["size"], size_c), pair)
                buf = (ctypes.c_char * (max(size_c, ctypes.sizeof(cls)) + 64))()
                fill = getattr(probe, "c20_fill_%s" % cname)
                fill.restype = None
                fill.argtypes = [ctypes.c_void_p]
                fill(ctypes.addressof(buf))
                book.calls += 1
                got = cls.from_buffer(buf)
                offs = (ctypes.c_size_t * max(1, len(cf))).in_dll(probe, "c20_offsets_%s" % cname)
                for k, f in enumerate(cf):
                    book.judge(offs[k] == f["offset"], "struct|%s|dwarf-vs-compiler-offset" % pname, "field %s: DWARF offset %s, offsetof %d" % (f["name"], f["offset"], offs[k]), pair)
            except (AttributeError, ValueError) as e:
                raise HarnessError("probe library lacks %s: %s" % (cname, e))
        for k in range(max(len(pf), len(cf))):
            book.pairs += 1
            if k >= len(cf):
                book.judge(False, "struct|%s|field%d:extra-in-python:%s" % (pname, k + 1, pf[k][0]), "Python declares field %d (%s) that C %s does not have" % (k + 1, pf[k][0], cname), pair)
                continue
            if k >= len(pf):
                book.judge(False, "struct|%s|field%d:missing-in-python:%s" % (pname, k + 1, cf[k]["name"]), "C %s has field %d (%s) that Python does not declare" % (cname, k + 1, cf[k]["name"]), pair)
                continue
            c, (pn, pt) = cf[k], pf[k][:2]
            fpair = "%s field %d: C %s %s <-> Python %s %s" % (pair, k + 1, c_spell(c["type"]), c["name"], pn, py_spell(pt))
            want = FIELD_ALIASES.get((cname, c["name"]), c["name"])
            book.judge(pn == want, "struct|%s|field%d:name:%s-vs-%s" % (pname, k + 1, c["name"], pn), "field %d is called %s in C and %s in Python" % (k + 1, c["name"], pn), fpair)
            pd = py_desc(pt)
            for aspect, text in compare_types(c["type"], pd, structmap, fpair, signedness=True):
                book.judge(False, "struct|%s|field%d:%s:%s-vs-%s" % (pname, k + 1, aspect, c_spell(c["type"]), pd.get("spelled")), "field %d (%s): %s" % (k + 1, c["name"], text), fpair)
            book.checks += 1
            poff = getattr(cls, pn).offset
            book.judge(poff == c["offset"], "struct|%s|field%d:offset:c=%s,py=%d" % (pname, k + 1, c["offset"], poff), "field %d: C offset of %s is %s, Python offset of %s is %d" % (k + 1, c["name"], c["offset"], pn, poff), fpair)
            if got is not None:
                sent = field_sentinel(k, c["type"])
                if sent is None:
                    continue
                val = getattr(got, pn)
                try:
                    if isinstance(val, (int, float)):
                        seen = val
                    elif isinstance(val, bytes):
                        seen = val[0] if val else 0
                    elif val is None:
                        seen = 0
                    else:
                        seen = ctypes.cast(val, ctypes.c_void_p).value or 0
                except Exception as e:  # noqa
                    seen = "unreadable (%s)" % e
                book.outcome("field", pname, k, seen)
                book.judge(seen == sent, "struct|%s|field%d:probe:%s" % (pname, k + 1, c["name"]),
                           "C wrote sentinel %r into %s.%s; Python reads %r through %s.%s" % (sent, cname, c["name"], seen, pname, pn), fpair)


INT_ALPHA_Q = [1, -1, 2 ** 32 + 5]
INT_ALPHA_T = [0, 1, -1, 2 ** 31 - 1, 2 ** 31, -2 ** 31, 2 ** 32 + 5, 2 ** 63 - 1, -2 ** 63, 0x0123456789ABCDEF]
FLT_ALPHA_Q = [1.5, -2.25]
FLT_ALPHA_T = [0.0, 1.5, -2.25, 1e300, -1e-300, 3.0000000000000004]


def as_c(raw_u, raw_d, cdesc):
    """value the C prototype received, interpreted with the C type"""
    k = cdesc["kind"]
    if k == "float":
        return raw_d
    if k == "pointer":
        return raw_u
    size, signed = cdesc.get("size", 8), cdesc.get("signed", True)
    v = raw_u & (2 ** (8 * size) - 1)
    if signed and v >= 2 ** (8 * size - 1):
        v -= 2 ** (8 * size)
    return v


def check_functions(bound, dwarf, structmap, echo, echo_names, book, symbols, sites):
    thorough = TIER == "thorough"
    ialpha = INT_ALPHA_T if thorough else INT_ALPHA_Q
    falpha = FLT_ALPHA_T if thorough else FLT_ALPHA_Q
    live = [(ctypes.c_char * 256)() for _ in range(3 if thorough else 2)]
    reset = echo.c20_reset
    reset.restype = None
    cu = (ctypes.c_ulonglong * 64).in_dll(echo, "c20_u")
    cd = (ctypes.c_double * 64).in_dll(echo, "c20_d")
    cn = ctypes.c_int.in_dll(echo, "c20_n")

    def default_for(pt):
        d = py_desc(pt)
        if d["kind"] == "pointer":
            return mkptr(pt, ctypes.addressof(live[0]) + 128)
        if d["kind"] == "float":
            return 0.0
        if d["kind"] in ("int", "char"):
            return 0 if d["kind"] == "int" else b"\0"
        if d["kind"] == "struct":
            return pt()
        return 0

    def mkptr(pt, addr):
        if isinstance(pt, type) and issubclass(pt, (ctypes._Pointer, ctypes._CFuncPtr)):
            return ctypes.cast(ctypes.c_void_p(addr), pt)
        return pt(addr)       # c_void_p, c_char_p

    for (mod, fname, fn) in bound:
        pair = "function %s declared in %s <-> C prototype" % (fname, mod)
        c = dwarf["funcs"].get(fname)
        book.pairs += 1
        if isinstance(fn, Missing) or fname not in symbols:
            book.judge(False, "symbol|%s|%s" % (mod.split(".")[-1], fname), "%s uses lsci.%s, which the library built from the current tree does not export" % (mod, fname), pair)
            continue
        book.judge(True, "", "", pair)
        if not c or c.get("notfunc"):
            raise HarnessError("no DWARF prototype for exported symbol %s" % fname)
        pair = "function %s declared in %s <-> %s %s at %s:%s" % (fname, mod, fname, c["spelled"], os.path.basename(c.get("file") or "?"), c.get("line"))
        at = getattr(fn, "argtypes", None)
        rt = getattr(fn, "restype", MarkerInt)
        nc = len(c["params"])
        declared = at is not None
        at = list(at or [])
        # ---- descriptions
        if not declared:
            book.judge(nc == 0, "proto|%s|argtypes-undeclared:c-has-%d-params" % (fname, nc),
                       "%s never assigns lsci.%s.argtypes; the C function takes %d parameter(s) %s" % (mod, fname, nc, c["spelled"]), pair)
        else:
            cs = sites.get(mod, {}).get(fname, [])
            book.judge(len(at) == nc, "proto|%s|nparams:c=%d,py=%d" % (fname, nc, len(at)),
                       "C %s takes %d parameters %s, Python declares %d [%s]%s" % (fname, nc, c["spelled"], len(at), ", ".join(py_spell(t) for t in at),
                                                                                  "; called with %s argument(s) at line %s of %s" % ("/".join(str(n) for _, n in cs), "/".join(str(l) for l, _ in cs), mod) if cs else ""), pair)
        static_bad = set()
        for k in range(min(nc, len(at))):
            book.pairs += 1
            pd = py_desc(at[k])
            ppair = "%s parameter %d: C %s <-> Python %s" % (pair, k + 1, c_spell(c["params"][k]), pd.get("spelled"))
            diffs = compare_types(c["params"][k], pd, structmap, ppair)
            book.checks += 1
            for aspect, text in diffs:
                static_bad.add(k)
                book.judge(False, "proto|%s|param%d:%s-vs-%s" % (fname, k + 1, c_spell(c["params"][k]), pd.get("spelled")), "parameter %d of %s (%s): %s" % (k + 1, fname, aspect, text), ppair)
        # return
        book.pairs += 1
        rd = py_desc(rt)
        rpair = "%s return: C %s <-> Python %s" % (pair, c_spell(c["ret"]), rd.get("spelled"))
        rdiffs = compare_types(c["ret"], rd, structmap, rpair)
        if rd.get("undeclared") and c["ret"]["kind"] == "void":
            rdiffs = []       # default restype on a void function: the garbage int is what ctypes documents; nothing is misread
            book.outcome("ret-default-on-void", fname)
        book.checks += 1
        for aspect, text in rdiffs:
            book.judge(False, "proto|%s|return:%s-vs-%s" % (fname, c_spell(c["ret"]), rd.get("spelled")), "return of %s (%s): %s" % (fname, aspect, text), rpair)
        # ---- for real: call the echo function through the package's own declaration
        if fname not in echo_names or any(py_desc(t)["kind"] in ("struct", "array", "other") for t in at) or rd["kind"] in ("struct", "array", "other"):
            book.outcome("no-echo", fname)
            continue
        efn = getattr(echo, fname)
        efn.argtypes = at if declared else None
        efn.restype = ctypes.c_int if rt is MarkerInt else rt
        if not declared and nc > 0:
            continue
        base = [default_for(t) for t in at]

        def call(args):
            reset()
            book.calls += 1
            try:
                r = efn(*args)
            except ctypes.ArgumentError as e:
                return ("ArgumentError", str(e))
            if cn.value != nc:
                raise HarnessError("echo function %s did not run (c20_n=%d)" % (fname, cn.value))
            return ("ok", r)
        # return sentinel
        st, r = call(base)
        if st == "ok":
            cr = c["ret"]
            if cr["kind"] == "void":
                exp = None if not rd.get("undeclared") else "ignored"
            elif cr["kind"] == "float":
                exp = RET_D if cr["size"] == 8 else RET_F
            elif cr["kind"] == "pointer":
                exp = RET_STR if (cr["base"].get("kind") == "char" and cr["depth"] == 1 and rt is ctypes.c_char_p) else \
                    ctypes.addressof((ctypes.c_char * 9).in_dll(echo, "c20_str")) if (cr["base"].get("kind") == "char" and cr["depth"] == 1) else \
                    ctypes.addressof((ctypes.c_char * 64).in_dll(echo, "c20_buf"))
            else:
                exp = {(4, True): RET_I32, (8, True): RET_I64, (8, False): RET_U64}.get((cr["size"], bool(cr.get("signed", True))), 5)
            seen = r
            if seen is not None and not isinstance(seen, (int, float, bytes)):
                try:
                    seen = ctypes.cast(seen, ctypes.c_void_p).value
                except Exception:  # noqa
                    seen = repr(seen)
            if isinstance(seen, MarkerInt):
                seen = seen.value
            book.outcome("ret", fname, seen if exp != "ignored" else None)
            if exp != "ignored":
                book.judge(seen == exp, "proto|%s|return:%s-vs-%s" % (fname, c_spell(c["ret"]), rd.get("spelled")) if rdiffs else "echo|%s|return" % fname,
                           "C %s returned the sentinel %r; through restype %s Python received %r" % (fname, exp, rd.get("spelled"), seen), rpair)
        else:
            raise HarnessError("baseline call of %s rejected by ctypes: %s" % (fname, r))
        # every parameter x sentinel
        for k in range(min(nc, len(at))):
            pd = py_desc(at[k])
            cdsc = c["params"][k]
            ppair = "%s parameter %d: C %s <-> Python %s" % (pair, k + 1, c_spell(cdsc), pd.get("spelled"))
            if pd["kind"] == "pointer":
                vals = [ctypes.addressof(b) + 16 for b in live]
            elif pd["kind"] == "float":
                vals = falpha
            elif pd["kind"] == "char":
                vals = [b"A", b"z"] if at[k] is ctypes.c_char else [1, 65]
            else:
                vals = ialpha
            for v in vals:
                args = list(base)
                if pd["kind"] == "pointer":
                    args[k] = mkptr(at[k], v)
                    sent = v
                elif pd["kind"] == "float":
                    args[k] = v
                    sent = at[k](v).value
                elif pd["kind"] == "char" and at[k] is ctypes.c_char:
                    args[k] = v
                    sent = v[0]
                else:
                    args[k] = v
                    sent = at[k](v).value
                st, r = call(args)
                if st != "ok":
                    book.judge(False, "echo|%s|param%d:rejected" % (fname, k + 1), "ctypes rejects %r for parameter %d: %s" % (v, k + 1, r), ppair)
                    continue
                got = as_c(cu[k], cd[k], cdsc)
                book.outcome("arg", fname, k, got)
                same = (got == sent)
                key = "proto|%s|param%d:%s-vs-%s" % (fname, k + 1, c_spell(cdsc), pd.get("spelled")) if k in static_bad else "echo|%s|param%d" % (fname, k + 1)
                book.judge(same, key, "parameter %d of %s: Python sent %r as %s, the C prototype (%s) received %r" % (k + 1, fname, sent, pd.get("spelled"), c_spell(cdsc), got), ppair)
            if len(book.samples) < 6 and k == 0:
                book.samples.append("%s.%s param1 %s<->%s sentinels=%d" % (mod.split(".")[-1], fname, c_spell(cdsc), pd.get("spelled"), len(vals)))


# ------------------------------------------------------------------------------------------ main
def main():
    book = Book()
    describe = {}
    herr = None
    try:
        if not os.path.isdir(PKG):
            raise HarnessError("no python package at %s" % PKG)
        # names the package uses (AST) decide whether datasets.c is needed
        uses = {}
        sites = {}
        for f in sorted(os.listdir(PKG)):
            if f.endswith(".py"):
                u, cs = ast_uses(os.path.join(PKG, f))
                if u:
                    uses["libscientific." + f[:-3]] = u
                    sites["libscientific." + f[:-3]] = cs
        lib = build_library(with_datasets=False)
        symbols = set(exported(lib))
        allused = set(n for u in uses.values() for n in u)
        missing = sorted(allused - symbols)
        if missing:
            # does datasets.c define one of them?  (compiling it with -O0 -g is fast; only sanitizers make it slow)
            txt = open(os.path.join(SRC, "datasets.c"), errors="replace").read() if os.path.exists(os.path.join(SRC, "datasets.c")) else ""
            if any(re.search(r"\b%s\s*\(" % re.escape(n), txt) for n in missing):
                lib = build_library(with_datasets=True)
                symbols = set(exported(lib))
        dwarf = gdb_dump(lib, sorted(symbols))
        if not dwarf["funcs"] or not dwarf["structs"]:
            raise HarnessError("gdb found %d prototypes and %d struct typedefs" % (len(dwarf["funcs"]), len(dwarf["structs"])))
        mods = import_package(lib)
        # every ctypes.Structure of the package
        pystructs = {}
        for mname, m in mods.items():
            for n, o in vars(m).items():
                if isinstance(o, type) and issubclass(o, (ctypes.Structure, ctypes.Union)) and o.__module__ == mname:
                    pystructs[n] = (mname, o)
        # every lsci.<f> used anywhere (AST), with the function object of that module's own library handle
        bound = []
        for mname, u in sorted(uses.items()):
            p = PROXIES.get(mname)
            if p is None:
                if mname in mods:
                    raise HarnessError("%s uses lsci.<f> but never called the loader" % mname)
                continue
            for fname in sorted(u):
                if fname.startswith("_"):
                    continue
                bound.append((mname, fname, getattr(p, fname)))
        if len(bound) < 10 or len(pystructs) < 3:
            raise HarnessError("vacuous: %d bound functions, %d structures found in the package" % (len(bound), len(pystructs)))
        structmap, votes = derive_structmap(pystructs, dwarf, bound, book)
        # generated libraries
        mirrored = {structmap[p]: dwarf["structs"][structmap[p]] for p in pystructs if structmap.get(p) in dwarf["structs"]}
        pc = os.path.join(WORK, "c20_probe.c")
        open(pc, "w").write(gen_probe(mirrored))
        probe = ctypes.CDLL(cc_shared(pc, os.path.join(WORK, "libc20probe.so")))
        wanted = {f: dwarf["funcs"][f] for (_, f, _) in bound if f in dwarf["funcs"]}
        etxt, enames, eskipped = gen_echo(wanted)
        ec = os.path.join(WORK, "c20_echo.c")
        open(ec, "w").write(etxt)
        echo = ctypes.CDLL(cc_shared(ec, os.path.join(WORK, "libc20echo.so")))
        check_structs(pystructs, structmap, dwarf, probe, book)
        check_functions(bound, dwarf, structmap, echo, set(enames), book, symbols, sites)
        nfun = len(set(f for (_, f, _) in bound))
        describe = {
            "space": "%d ctypes structures (%d fields) x %d C struct typedefs in the DWARF; %d (module, function) bindings of %d distinct functions "
                     "(%d exported symbols, %d prototypes dumped); %d echo functions generated, %d not echoed (%s)" % (
                         len(pystructs), sum(len(getattr(c, "_fields_", [])) for _, c in pystructs.values()), len(dwarf["structs"]), len(bound), nfun,
                         len(symbols), len(dwarf["funcs"]), len(enames), len(eskipped), "; ".join("%s: %s" % kv for kv in sorted(eskipped.items())) or "none"),
            "structure map": ", ".join("%s->%s" % kv for kv in sorted(structmap.items())),
            "sentinels": "integers %s, doubles %s, %d live buffers" % (INT_ALPHA_T if TIER == "thorough" else INT_ALPHA_Q, FLT_ALPHA_T if TIER == "thorough" else FLT_ALPHA_Q, 3 if TIER == "thorough" else 2),
            "oracle": "descriptions: count, order, names (alias table: %s), pointer depth and pointee, integer width, floating type, offsets, sizeof; "
                      "for real: C probe fills field k with sentinel k and Python reads it through _fields_; every parameter x sentinel through the package's argtypes into an ABI echo of the C prototype, return sentinel through restype" % (FIELD_ALIASES,),
            "repo": REPO, "gdb": dwarf.get("gdb"),
        }
    except HarnessError as e:
        herr = str(e)
    except Exception as e:  # noqa
        herr = "unexpected %s: %s\n%s" % (type(e).__name__, e, traceback.format_exc()[-1500:])

    repdir = OUT + ".replays"
    os.makedirs(repdir, exist_ok=True)
    viols = []
    for key, v in sorted(book.viol.items()):
        rp = os.path.join(repdir, hashlib.sha1(key.encode()).hexdigest()[:16] + ".txt")
        with open(rp, "w") as f:
            f.write("# property=C20 key=%s\n# %s\npair: %s\nreplay: /usr/bin/python3 %s --repo %s --tier %s --out /tmp/c20_replay.json --show '%s'\n" % (
                key, v["msg"], v["pair"], os.path.join(HERE, "c20_check.py"), REPO, TIER, key))
        viols.append({"key": key, "count": v["count"], "msg": v["msg"], "replay": rp, "path": v["pair"]})
    res = {"property": "C20", "tier": TIER, "seed": SEED, "workers": 1, "executions": book.calls, "pruned": 0, "transitions": book.calls,
           "checks": book.checks, "states": book.pairs, "distinct_outcomes": len(book.outcomes), "max_depth": 1, "restarts": 0, "timeouts": 0,
           "deadline_hit": False, "exhaustive": herr is None, "dev_bound": 0, "wall_s": round(time.time() - T0, 3), "harness_error": herr,
           "describe": describe, "samples": book.samples, "violations": viols}
    json.dump(res, open(OUT, "w"), indent=1)
    show = arg("--show")
    if show:      # "replay" of one declaration pair: verdict for that key only
        hit = [v for v in viols if v["key"] == show]
        for v in hit:
            print("C20-REPLAY: FAILED %s\n  %s\n  %s" % (v["key"], v["msg"], v["path"]))
        if not hit:
            print("C20-REPLAY: passed (key %s not among the %d violated keys of this tree)" % (show, len(viols)))
        sys.exit(2 if herr else (1 if hit else 0))
    sys.stderr.write("c20: pairs=%d checks=%d calls=%d outcomes=%d violations(keys)=%d wall=%.1fs%s\n" % (
        book.pairs, book.checks, book.calls, len(book.outcomes), len(viols), time.time() - T0, " HARNESS-ERROR: " + herr if herr else ""))
    for v in viols:
        sys.stderr.write("  %s x%d :: %s\n" % (v["key"], v["count"], v["msg"][:220]))
    sys.exit(2 if herr else (1 if viols else 0))


if __name__ == "__main__":
    main()
