# C20 -- runs INSIDE gdb (gdb --batch -x c20_gdb_dump.py lib.so): dumps what the C compiler itself
# believes about the structures and prototypes of the library, from the DWARF of a -g build of the
# current tree.  No C parsing.  Input: env C20_NAMES (file: one function name per line),
# C20_OUT (json file to write).  Struct typedefs are discovered from the DWARF itself
# (`info types`), restricted to typedefs that resolve to a struct declared under the source dir.
import gdb, json, os, re

OUT = os.environ["C20_OUT"]
NAMES = [l.strip() for l in open(os.environ["C20_NAMES"]) if l.strip()]
SRC = os.environ.get("C20_SRC", "")

CODE = {}
for n in dir(gdb):
    if n.startswith("TYPE_CODE_"):
        CODE[getattr(gdb, n)] = n[len("TYPE_CODE_"):]


def classify(t, depth=0):
    """ABI-relevant description of a type: typedefs stripped, pointers peeled."""
    d = {"spelled": str(t)}
    u = t.strip_typedefs()
    code = u.code
    if code == gdb.TYPE_CODE_PTR:
        n = 0
        base = u
        while base.code == gdb.TYPE_CODE_PTR:
            n += 1
            base = base.target().strip_typedefs()
        # name of the pointee as spelled with typedefs (matrix, dvector, ...) -- peel the spelled type
        sp = t
        while True:
            s2 = sp.strip_typedefs()
            if s2.code != gdb.TYPE_CODE_PTR:
                break
            sp = s2.target()
        d.update(kind="pointer", depth=n, size=u.sizeof, base=classify_base(sp, base))
        return d
    d.update(classify_base(t, u))
    return d


def classify_base(spelled_t, u):
    code = u.code
    name = str(spelled_t.unqualified()) if hasattr(spelled_t, "unqualified") else str(spelled_t)
    b = {"name": name, "code": CODE.get(code, str(code))}
    if code in (gdb.TYPE_CODE_INT, gdb.TYPE_CODE_CHAR, gdb.TYPE_CODE_BOOL, gdb.TYPE_CODE_ENUM):
        signed = True
        try:
            signed = bool(u.is_signed) if code != gdb.TYPE_CODE_ENUM else True
        except Exception:
            signed = not str(u).startswith("unsigned")
        if code == gdb.TYPE_CODE_CHAR or (code == gdb.TYPE_CODE_INT and u.sizeof == 1):
            b.update(kind="char", size=1, signed=signed)
        else:
            b.update(kind="int", size=u.sizeof, signed=signed)
    elif code == gdb.TYPE_CODE_FLT:
        b.update(kind="float", size=u.sizeof)
    elif code == gdb.TYPE_CODE_VOID:
        b.update(kind="void", size=0)
    elif code in (gdb.TYPE_CODE_STRUCT, gdb.TYPE_CODE_UNION):
        b.update(kind="struct", size=u.sizeof, struct=name)
    elif code == gdb.TYPE_CODE_FUNC:
        b.update(kind="func", size=0)
    elif code == gdb.TYPE_CODE_ARRAY:
        b.update(kind="array", size=u.sizeof)
    else:
        b.update(kind="other", size=getattr(u, "sizeof", 0))
    return b


def dump_struct(tname):
    t = gdb.lookup_type(tname)
    u = t.strip_typedefs()
    if u.code != gdb.TYPE_CODE_STRUCT:
        return None
    fields = []
    for f in u.fields():
        if f.name is None:
            continue
        fields.append({"name": f.name, "offset": (f.bitpos // 8) if hasattr(f, "bitpos") else None,
                       "bitsize": f.bitsize, "size": f.type.sizeof, "type": classify(f.type)})
    return {"name": tname, "size": u.sizeof, "fields": fields}


def dump_func(name):
    sym = gdb.lookup_global_symbol(name)
    if sym is None:
        sym = gdb.lookup_static_symbol(name)
    if sym is None:
        return None
    t = sym.type
    if t.code != gdb.TYPE_CODE_FUNC:
        return {"name": name, "notfunc": True, "type": str(t)}
    params = []
    for f in t.fields():
        params.append(classify(f.type))
    varargs = False
    try:
        varargs = bool(t.is_varargs) if hasattr(t, "is_varargs") else False
    except Exception:
        pass
    return {"name": name, "ret": classify(t.target()), "params": params, "varargs": varargs,
            "file": sym.symtab.filename if sym.symtab else None, "line": sym.line, "spelled": str(t)}


res = {"structs": {}, "funcs": {}, "gdb": gdb.VERSION}
# struct typedefs: from the DWARF type list
txt = gdb.execute("info types", to_string=True)
cur = None
for line in txt.splitlines():
    m = re.match(r"File (.*):$", line)
    if m:
        cur = m.group(1)
        continue
    m = re.match(r"\d+:\s+typedef struct \{\.\.\.\} (\w+);", line) or re.match(r"\d+:\s+typedef struct \w+ (\w+);", line)
    if m and cur and (not SRC or os.path.realpath(cur).startswith(os.path.realpath(SRC))):
        nm = m.group(1)
        if nm in res["structs"]:
            continue
        try:
            s = dump_struct(nm)
        except gdb.error:
            s = None
        if s:
            s["file"] = cur
            res["structs"][nm] = s
for n in NAMES:
    try:
        f = dump_func(n)
    except gdb.error as e:
        f = None
    if f:
        res["funcs"][n] = f
json.dump(res, open(OUT, "w"), indent=1)
