/* C01 -- PCA is an exact orthogonal decomposition that accounts for all the variance.
 *
 * Every (shape, data family, column modifier, scaling -1..5, admissible npc, processor count) of the
 * alphabet below is fitted with the real PCA() and judged against identities that hold for ANY NIPALS
 * iterate (DESIGN 6.0): they are checked to rounding, with tolerances derived from the reference
 * singular values of the preprocessed matrix (long-double one-sided Jacobi).  Only "explained
 * variances are non-increasing" depends on convergence; it is judged where the reference spectrum is
 * separated (lambda_{k+1}/lambda_k <= 0.95) and carries the data-scale class in its key.
 *
 * Precondition of the statement (rank of the centred/scaled matrix >= npc; column spread >= 0.02 or
 * exactly 0) is enforced by construction: npc ranges over 1..numerical rank of the library's own
 * preprocessed matrix; ambiguous ranks (a singular value between 1e-11 and 1e-6 of the largest) are
 * pruned and counted. */
#include "C01_pcacommon.h"

#define NMAXR 60
#define NMAXC 25
static double X_[NMAXR * NMAXC];
static const double OFFV[4] = {0.0, 1.0, -7.5, 1e3};
static const int BIGSHAPE[6][2] = {{60, 25}, {60, 1}, {2, 25}, {5, 25}, {25, 5}, {12, 12}};

struct grm_arg { matrix *mx; PCAMODEL *model; size_t pc; matrix *out; };
static void call_grm(void *a_) { struct grm_arg *a = a_; GetResidualMatrix(a->mx, a->model, a->pc, a->out); }


/* ---------------------------------------------------------------- reused outputs
 * A predictor must give the same result whatever its OUTPUT object held before the call: empty (initMatrix), the result of
 * an earlier call of the same shape, or a matrix of another shape.  None of the three routines below reads its output before
 * (re)initialising it, the arithmetic does not depend on the previous content, and the inline / real worker threads write
 * disjoint slices, so the comparison with the fresh result is bit for bit (NaN == NaN, -0 == +0). */
static int m_same(const matrix *a, const matrix *b) {
  if (a->row != b->row || a->col != b->col) return 0;
  for (size_t i = 0; i < a->row; i++) for (size_t j = 0; j < a->col; j++) { double x = a->data[i][j], y = b->data[i][j]; if (!(x == y || (x != x && y != y))) return 0; }
  return 1;
}
/* an output object that was used before for something of another shape and is full of large values */
static matrix *m_junk(int r, int c) { matrix *m; NewMatrix(&m, (size_t)r, (size_t)c); for (int i = 0; i < r; i++) for (int j = 0; j < c; j++) m->data[i][j] = 1e3 + 7.0 * i - 3.0 * j + 0.25; return m; }
static matrix *m_toprows(const matrix *a, int r) { matrix *m; NewMatrix(&m, (size_t)r, a->col); for (int i = 0; i < r; i++) memcpy(m->data[i], a->data[i], sizeof(double) * a->col); return m; }
static void reuse_verdict(const char *fn, const char *cls, int ok, int n, int p, int scaling, int a, const matrix *got, const matrix *want, const char *how) {
  char key[160]; snprintf(key, sizeof key, "reuse|%s|%s", fn, cls);
  vx_check(ok, key, "(%dx%d) scaling %d npc %d: %s into an output that %s gives %zux%zu differing from the result with a fresh output (%zux%zu) by %g", n, p, scaling, a, fn, how, got->row, got->col, want->row, want->col, ok ? 0.0 : hm_maxdiff(got, want));
}

static void gen_data(int fam, int n, int p, double *out) {
  int kind = fam % 3, m = n < p ? n : p;
  if (kind == 2) { vg_fill(fam + 50, n, p, out); return; }
  double ratio = kind == 0 ? 0.85 : 0.3;
  if (m > 1) { double lo = pow(1e-3, 1.0 / (m - 1)); if (ratio < lo) ratio = lo; }   /* keep sigma_1/sigma_m <= 1e3 */
  vg_spectral(fam, n, p, 0.4 * sqrt((double)n * p), ratio, out);
}

static void body(void) {
  /* ---------------------------------------------------------------- choices */
  int nsmall_n = vx_thorough() ? 9 : 6, nsmall_p = vx_thorough() ? 8 : 5;
  int sh = vx_choose("shape", nsmall_n * nsmall_p + 6);
  int n, p, big;
  if (sh < nsmall_n * nsmall_p) { n = 2 + sh / nsmall_p; p = 1 + sh % nsmall_p; } else { n = BIGSHAPE[sh - nsmall_n * nsmall_p][0]; p = BIGSHAPE[sh - nsmall_n * nsmall_p][1]; }
  big = n * p > 100;
  int fam = vx_choose("fam", big ? (vx_thorough() ? 3 : 2) : (vx_thorough() ? 6 : 3));
  int scaling = vx_choose("scaling+1", 7) - 1;
  int off = 0, spr = 0, cc = 0;
  if (!big) {
    off = vx_choose_dev("offset", 4);                       /* 0, 1, -7.5, 1e3 (alternating sign/size per column) */
    spr = vx_choose_dev("spread", 4);                       /* as generated | all columns so that min SD = 0.02 | column 0 to SD 0.02 | all x 1e3 */
    cc = vx_choose_dev("constcol", (p < 3 ? p : 3) + 1);    /* none | first | last | middle column constant */
  } else if (vx_thorough()) {                               /* boundary shapes: at most one modifier in both tiers' bound */
    int bm = vx_choose("one-modifier", 7 + (p < 3 ? p : 3));
    if (bm >= 1 && bm <= 3) off = bm; else if (bm >= 4 && bm <= 6) spr = bm - 3; else if (bm >= 7) cc = bm - 6;
  }
  int plain = off == 0 && spr == 0 && cc == 0;
  /* processor count seen by the MT_ kernels (slicing depends on the shape only, so the full list is crossed with the
   * unmodified inputs and {1,3} with the modified ones).  The last entry of the full lists runs REAL threads on a small
   * sub-alphabet; everywhere else the workers run inline on the calling thread (see C01_pcacommon.h). */
  static const int NPQ[5] = {1, 2, 3, 8, 3}, NPT[7] = {1, 2, 3, 8, 5, 24, 3}, NPBIG[3] = {1, 8, 3}, NPMOD[2] = {1, 3};
  int real_ok = !big && plain && fam == 0 && (scaling == 1 || vx_thorough());
  int npi, nproc, real_threads = 0;
  if (big) nproc = NPBIG[vx_choose("nproc", (vx_thorough() && plain) ? 3 : 2)];
  else if (!plain) nproc = NPMOD[vx_choose("nproc", 2)];
  else if (vx_thorough()) { npi = vx_choose("nproc", real_ok ? 7 : 6); nproc = NPT[npi]; real_threads = npi == 6; }
  else { npi = vx_choose("nproc", real_ok ? 5 : 4); nproc = NPQ[npi]; real_threads = npi == 4; }

  /* ---------------------------------------------------------------- input */
  gen_data(fam, n, p, X_);
  rmat *G = rm_new(n, p); for (int i = 0; i < n * p; i++) G->a[i] = X_[i];
  ld minsd = INFINITY; for (int j = 0; j < p; j++) { ld sd; rm_col_stats(G, j, NULL, NULL, &sd, NULL, NULL, NULL); if (sd < minsd) minsd = sd; }
  vx_require(minsd > 0);
  if (spr == 1) { double f = (double)(0.02L / minsd) * (1 + 1e-9); for (int i = 0; i < n * p; i++) X_[i] *= f; }
  else if (spr == 2) { ld sd; rm_col_stats(G, 0, NULL, NULL, &sd, NULL, NULL, NULL); double f = (double)(0.02L / sd) * (1 + 1e-9); for (int i = 0; i < n; i++) X_[i * p] *= f; }
  else if (spr == 3) for (int i = 0; i < n * p; i++) X_[i] *= 1e3;
  rm_free(G);
  int constcol = cc == 0 ? -1 : cc == 1 ? 0 : cc == 2 ? p - 1 : p / 2;
  for (int j = 0; j < p; j++) {
    double o = OFFV[off] * ((j & 1) ? -0.5 : 1.0);
    /* value of the constant column: the offset in force; without an offset 4.25 (first), 0 (last), -2.5 (middle) -- a column that is
     * constant but NOT zero must come back from the back-transform as that constant */
    double cval = OFFV[off] != 0 ? OFFV[off] : cc == 1 ? 4.25 : cc == 3 ? -2.5 : 0.0;
    for (int i = 0; i < n; i++) X_[i * p + j] = (j == constcol) ? cval : X_[i * p + j] + o;
  }
  matrix *mx = hm_new(n, p, X_);
  rmat *RX = rm_from(mx);
  /* statement's domain: column spread >= 0.02 or exactly 0 */
  for (int j = 0; j < p; j++) { ld sd, lo, hi; rm_col_stats(RX, j, NULL, NULL, &sd, NULL, &lo, &hi); vx_require(lo == hi || sd >= 0.02L * (1 - 1e-12L)); }

  /* reference preprocessing (long double) and the library's public preprocessing */
  ld *rmean = calloc((size_t)p, sizeof(ld)), *rsf = calloc((size_t)p, sizeof(ld)); int *isconst = calloc((size_t)p, sizeof(int));
  rmat *Eref = ref_preprocess(RX, scaling, rmean, rsf, isconst);
  ld maxsf = 1, xmax = rm_maxabs(RX);
  /* input classes w.r.t. the library's two zero-guards on a scale factor (|f| < 1e-3 at fit, |f| < 1e-2 at projection): a NON-constant
   * column whose factor falls below them (possible for level scaling only: the factor is the column mean).  The thresholds are ties. */
  int has_zeroed = 0, has_mid = 0;
  if (scaling >= 1) for (int j = 0; j < p; j++) if (!isconst[j]) {
    ld f = fabsl(rsf[j]); if (f > maxsf) maxsf = f;
    vx_require(!(fabsl(f - 1e-3L) < 1e-9L || fabsl(f - 1e-2L) < 1e-8L));
    if (f < 1e-3L) has_zeroed = 1; else if (f < 1e-2L) has_mid = 1;
  }
  char cls_fit[64], cls_apply[64];
  snprintf(cls_fit, sizeof cls_fit, "scaling=%d,%s", scaling, has_zeroed ? "nonconst-col-with-abs(colscale)<1e-3" : "colscale-ok");
  snprintf(cls_apply, sizeof cls_apply, "scaling=%d,%s", scaling, has_mid ? "1e-3<=abs(colscale)<1e-2" : "colscale-ok");

  dvector *avg, *scl; initDVector(&avg); initDVector(&scl);
  matrix *E; NewMatrix(&E, (size_t)n, (size_t)p);
  MatrixPreprocess(mx, scaling, avg, scl, E); vx_transition(1);
  char key[200];
  if (!has_zeroed) {
    /* "the preprocessed data" is what the scaling option means.  library: m^ = sum/n (abs error eps*n*xmax), d = x - m^, f^ from d
     * (relative error eps*n*(1 + xmax/sd + xmax/|f|): cancellation in the centred squares / in the mean), E = d / f^.
     * Not judged where the guard zeroes a non-constant column: that class is judged by the statement's own clauses below. */
    double worst = 0, worst_tol = 1; int okp = 1;
    for (int j = 0; j < p; j++) {
      ld sfj = (scaling >= 1 && !isconst[j]) ? fabsl(rsf[j]) : 1, sdj = 1, emax = 0;
      if (!isconst[j]) rm_col_stats(RX, j, NULL, NULL, &sdj, NULL, NULL, NULL);
      for (int i = 0; i < n; i++) if (fabsl(RM(Eref, i, j)) > emax) emax = fabsl(RM(Eref, i, j));
      double tol = 64 * DEPS * (n + 2) * (double)(xmax / sfj + (scaling >= 1 ? emax * (1 + xmax / sdj + xmax / sfj) : 0));
      for (int i = 0; i < n; i++) { double d = fabs(E->data[i][j] - (double)RM(Eref, i, j)); if (!(d <= tol)) okp = 0; if (d * worst_tol > worst * tol || d != d) { worst = d; worst_tol = tol; } }
    }
    snprintf(key, sizeof key, "preproc|MatrixPreprocess|scaling=%d", scaling);
    vx_check(okp, key, "(%dx%d) scaling %d: library preprocessing differs from (x-mean)/scale by %g (allowance %g)", n, p, scaling, worst, worst_tol);
    margin_note("preproc", worst, worst_tol);
    vx_log("preproc: worst |E-Eref| = %g, allowance %g\n", worst, worst_tol);
  }

  /* numerical rank of the library's preprocessed matrix; npc ranges over 1..rank */
  rmat *E0 = rm_from(E);
  int m = n < p ? n : p; ld *sv = calloc((size_t)m + 1, sizeof(ld));
  vx_require(hm_allfinite(E));
  rm_singular_values(E0, sv);
  vx_require(sv[0] > 0);
  int rank = 0; for (int i = 0; i < m; i++) { ld q = sv[i] / sv[0]; if (q > 1e-6L) rank++; else vx_require(q < 1e-11L); /* ambiguous rank: not judged */ }
  vx_require(rank >= 1);
  int a;
  if (!big) a = 1 + vx_choose("npc-1", rank);
  else { int cand[4] = {rank, 1, rank - 1, 2}, u[4], nu = 0, want = (vx_thorough() && plain) ? 4 : 3; for (int i = 0; i < want; i++) { int dup = cand[i] < 1 || cand[i] > rank; for (int j = 0; j < nu; j++) if (u[j] == cand[i]) dup = 1; if (!dup) u[nu++] = cand[i]; } a = u[vx_choose("npc-sel", nu)]; }
  ld F = rm_fro(E0), kappa = sv[0] / sv[a - 1];
  double delta = nipals_delta(n, DOC_PCACONVERGENCE);

  /* ---------------------------------------------------------------- the fit under test */
  PCAMODEL *mod; NewPCAModel(&mod);
  H_INPUT_HASH = vx_hash_doubles(X_, (size_t)(n * p), (uint64_t)(scaling + 8 * a));
  static char TK[200]; snprintf(TK, sizeof TK, "nonterm|PCA|scaling=%d", scaling); fit_begin(nproc, real_threads, TK);
  PCA(mx, scaling, (size_t)a, mod, NULL); vx_transition(1);
  long iters = H_KERNEL_CALLS / 2;
  /* which other previous output shape the reused-output checks of this execution try (0 rows differ, 1 columns differ, 2 both):
   * rotates over the choices so that consecutive npc / processor counts / inputs take consecutive shapes */
  int rot = (sh + fam + scaling + 1 + off + spr + cc + nproc + a) % 3;
  static const char *OTHER_HOW[3] = {"held the result for another number of objects", "held a matrix with another number of columns", "held a matrix with other numbers of rows and columns"};
  if (nproc > 1) { snprintf(key, sizeof key, "seam|PCA|nproc=%d", nproc); vx_check(H_WORKERS == H_KERNEL_CALLS * nproc, key, "expected %ld worker launches, saw %ld", H_KERNEL_CALLS * nproc, H_WORKERS); }
  vx_log("PCA (%dx%d) scaling %d npc %d nproc %d%s: %ld NIPALS iterations, rank %d, kappa_npc %.3Lg, sigma1 %.3Lg\n", n, p, scaling, a, nproc, real_threads ? " (real threads)" : "", iters, rank, kappa, sv[0]);

  int shape_ok = (int)mod->scores->row == n && (int)mod->scores->col == a && (int)mod->loadings->row == p && (int)mod->loadings->col == a && (int)mod->varexp->size == a
                 && (int)mod->colaverage->size == (scaling >= 0 ? p : 0) && (int)mod->colscaling->size == (scaling >= 0 ? p : 0);
  snprintf(key, sizeof key, "shape|PCA|scaling=%d", scaling);
  vx_check(shape_ok, key, "(%dx%d) npc %d: scores %zux%zu loadings %zux%zu varexp %zu colaverage %zu colscaling %zu", n, p, a, mod->scores->row, mod->scores->col, mod->loadings->row, mod->loadings->col, mod->varexp->size, mod->colaverage->size, mod->colscaling->size);
  if (!shape_ok) { vx_outcome(vx_hash_doubles(X_, (size_t)(n * p), 1)); return; }
  int finite = hm_allfinite(mod->scores) && hm_allfinite(mod->loadings) && hv_allfinite(mod->varexp);
  snprintf(key, sizeof key, "finite|PCA|scaling=%d", scaling);
  vx_check(finite, key, "(%dx%d) scaling %d npc %d: non-finite scores/loadings/varexp", n, p, scaling, a);
  if (!finite) { vx_outcome(vx_hash_doubles(X_, (size_t)(n * p), 2)); return; }
  /* stored centring/scaling are those of the public preprocessing */
  snprintf(key, sizeof key, "stored-prep|PCA|scaling=%d", scaling);
  vx_check(hv_maxdiff(mod->colaverage, avg) == 0 && hv_maxdiff(mod->colscaling, scl) == 0, key, "stored colaverage/colscaling differ from MatrixPreprocess");

  /* ---- P'P = I  (allowance: leak of earlier loadings into the row space, eps*sigma_1/sigma_k) */
  double tol_orth = 1e3 * DEPS * (n + p) * (double)kappa, worst_orth = 0;
  for (int i = 0; i < a; i++) for (int j = 0; j <= i; j++) { ld s = 0; for (int r = 0; r < p; r++) s += (ld)mod->loadings->data[r][i] * mod->loadings->data[r][j]; double d = fabs((double)(s - (i == j))); if (d > worst_orth) worst_orth = d; }
  vx_check(worst_orth <= tol_orth, "orth|PCA|loadings", "(%dx%d) scaling %d npc %d nproc %d: max |P'P - I| = %g, allowance %g", n, p, scaling, a, nproc, worst_orth, tol_orth);
  margin_note("orth", worst_orth, tol_orth);

  /* ---- t_k = E_{k-1} p_k / p_k'p_k on the successively deflated matrix (reference deflation in long double with the library's t, p) */
  rmat *D = rm_copy(E0); double worst_proj = 0, tol_proj = 0;
  for (int k = 0; k < a; k++) {
    ld pp = 0; for (int j = 0; j < p; j++) pp += (ld)mod->loadings->data[j][k] * mod->loadings->data[j][k];
    double tk = 64 * DEPS * (k + p + 2) * (double)F; if (tk > tol_proj) tol_proj = tk;
    for (int i = 0; i < n; i++) { ld s = 0; for (int j = 0; j < p; j++) s += RM(D, i, j) * mod->loadings->data[j][k]; double d = fabs(mod->scores->data[i][k] - (double)(s / pp)); if (d > worst_proj) worst_proj = d; }
    for (int i = 0; i < n; i++) for (int j = 0; j < p; j++) RM(D, i, j) -= (ld)mod->scores->data[i][k] * mod->loadings->data[j][k];
  }
  vx_check(worst_proj <= tol_proj, "proj|PCA|scores", "(%dx%d) scaling %d npc %d nproc %d: max |t_k - E_{k-1} p_k| = %g, allowance %g", n, p, scaling, a, nproc, worst_proj, tol_proj);
  margin_note("proj", worst_proj, tol_proj);

  /* ---- E = T P' + R with R p_k = 0 for every extracted k (R = D now) */
  double tol_res = 1e3 * DEPS * (n + p) * (double)(kappa * F), worst_res = 0;
  for (int k = 0; k < a; k++) for (int i = 0; i < n; i++) { ld s = 0; for (int j = 0; j < p; j++) s += RM(D, i, j) * mod->loadings->data[j][k]; if (fabs((double)s) > worst_res) worst_res = fabs((double)s); }
  vx_check(worst_res <= tol_res, "resid-orth|PCA", "(%dx%d) scaling %d npc %d nproc %d: max |R p_k| = %g, allowance %g", n, p, scaling, a, nproc, worst_res, tol_res);
  margin_note("resid-orth", worst_res, tol_res);

  /* ---- the same residual through the public accessor.  No MT_ kernel inside, so judged once per input: at nproc = 1.
   * scaling = -1 is a known crash class (empty colaverage): it is observed in a forked child so that the key can carry the class;
   * a fork of a sanitized process costs ~8 ms, so this is done on the unmodified inputs only. */
  if (nproc == 1 && (scaling >= 0 || plain)) {
    matrix *rmx; initMatrix(&rmx);
    int run_inproc = 1;
    if (scaling < 0) {
      matrix *tmp; initMatrix(&tmp); struct grm_arg gc = {mx, mod, (size_t)a, tmp};
      int died = probe_child_dies(call_grm, &gc); vx_transition(1);
      vx_check(!died, "childcrash|GetResidualMatrix|scaling=-1", "(%dx%d) npc %d: GetResidualMatrix on a model fitted without centring (empty colaverage) crashes", n, p, a);
      if (died) run_inproc = 0;
    }
    if (run_inproc) {
      GetResidualMatrix(mx, mod, (size_t)a, rmx); vx_transition(1);
      double tol_g = 64 * DEPS * (a + p + 2) * (double)F, dg = hm_maxdiff_rm(rmx, D);
      snprintf(key, sizeof key, "resid-api|GetResidualMatrix|scaling=%d", scaling);
      vx_check(dg <= tol_g, key, "(%dx%d) scaling %d npc %d: max |GetResidualMatrix - (E - TP')| = %g, allowance %g", n, p, scaling, a, dg, tol_g);
      margin_note("resid-api", dg, tol_g);
      vx_log("GetResidualMatrix: diff %g allowance %g\n", dg, tol_g);
      /* reused output (see "reused outputs" above): rmx is n x p whatever pc is.  The judged object again (and after a call with pc-1),
       * then ONE other previous shape, in rotation (rot, see below) */
      { matrix *want = hm_copy(rmx), *o;
        GetResidualMatrix(mx, mod, (size_t)a, rmx); int ok = m_same(rmx, want);
        if (a > 1) { GetResidualMatrix(mx, mod, (size_t)(a - 1), rmx); GetResidualMatrix(mx, mod, (size_t)a, rmx); ok = ok && m_same(rmx, want); vx_transition(1); }
        reuse_verdict("GetResidualMatrix", "same-shape", ok, n, p, scaling, a, rmx, want, "holds an earlier result of the same shape");
        if (rot == 0) { matrix *sub = m_toprows(mx, n - 1); initMatrix(&o); GetResidualMatrix(sub, mod, (size_t)a, o); DelMatrix(&sub); }
        else o = rot == 1 ? m_junk(n, p + 1) : m_junk(n + 2, p + 3);
        GetResidualMatrix(mx, mod, (size_t)a, o);
        reuse_verdict("GetResidualMatrix", rot < 2 ? "one-dim-differs" : "both-dims-differ", m_same(o, want), n, p, scaling, a, o, want, OTHER_HOW[rot]);
        vx_transition(2); DelMatrix(&want); DelMatrix(&o); }
    }
  }

  /* ---- explained variances */
  ld lam[NMAXC + 1]; for (int i = 0; i < m; i++) lam[i] = sv[i] * sv[i];
  double sum = 0; int nonneg = 1; for (int k = 0; k < a; k++) { if (!(mod->varexp->data[k] >= 0)) nonneg = 0; sum += mod->varexp->data[k]; }
  vx_check(nonneg, "varexp-sign|PCA", "(%dx%d) scaling %d npc %d: negative explained variance", n, p, scaling, a);
  /* sum_k |t_old,k|^2 <= (1+delta)^2 sum_k |t_k|^2 = (1+delta)^2 (ss - |R|^2)  (stop rule: |t_new - t_old| < delta |t_new|; the eigenvalue is t_old't_old) */
  double slack = 100 * (2 * delta + delta * delta) + 100 * 64 * DEPS * (n * p + 2);
  vx_check(sum <= 100 + slack, "varexp-sum|PCA|<=100", "(%dx%d) scaling %d npc %d: sum of explained variances %.12g > 100 (+%g)", n, p, scaling, a, sum, slack);
  if (a == rank) { vx_check(fabs(sum - 100) <= slack, "varexp-sum|PCA|=100-at-full-rank", "(%dx%d) scaling %d npc=rank %d: sum of explained variances %.12g, |sum-100| allowance %g", n, p, scaling, a, sum, slack); margin_note("varexp-sum=100", fabs(sum - 100), slack); }
  for (int k = 0; k + 1 < a; k++) if (lam[k + 1] <= 0.95L * lam[k]) {
    snprintf(key, sizeof key, "varexp-order|PCA|%s", lam[k + 1] < 10 ? "lambda<10" : "lambda>=10");
    vx_check(mod->varexp->data[k + 1] <= mod->varexp->data[k] + slack, key, "(%dx%d) scaling %d: varexp[%d]=%.10g > varexp[%d]=%.10g although reference eigenvalues are %.6Lg > %.6Lg", n, p, scaling, k + 1, mod->varexp->data[k + 1], k, mod->varexp->data[k], lam[k], lam[k + 1]);
  }
  vx_log("orth %g/%g proj %g/%g resid %g/%g varexp-sum %.14g (slack %g) iterations %ld\n", worst_orth, tol_orth, worst_proj, tol_proj, worst_res, tol_res, sum, slack, iters);

  /* ---- all components taken: back-transformation reproduces X, projection reproduces T */
  if (a == rank) {
    matrix *xr; initMatrix(&xr);
    PCAIndVarPredictor(mod->scores, mod->loadings, mod->colaverage, mod->colscaling, (size_t)a, xr); vx_transition(1);
    double tol_b = 256 * DEPS * (a + p + 2) * (double)(F * maxsf + xmax), db = hm_maxdiff(xr, mx);
    snprintf(key, sizeof key, "backtransform|PCAIndVarPredictor|%s", cls_fit);
    vx_check(db <= tol_b, key, "(%dx%d) scaling %d npc=rank %d: max |T P' * scale + mean - X| = %g, allowance %g", n, p, scaling, a, db, tol_b);
    if (!has_zeroed) margin_note("backtransform", db, tol_b);
    matrix *ps; initMatrix(&ps);
    fit_begin(nproc, real_threads, "nonterm|PCAScorePredictor");
    PCAScorePredictor(mx, mod, (size_t)a, ps); vx_transition(1);
    double tol_s = 64 * DEPS * (a + p + 2) * (double)F, ds = hm_maxdiff(ps, mod->scores);
    snprintf(key, sizeof key, "project|PCAScorePredictor|%s", cls_apply);
    vx_check(ds <= tol_s, key, "(%dx%d) scaling %d npc=rank %d: max |projected training scores - scores| = %g, allowance %g", n, p, scaling, a, ds, tol_s);
    if (!has_mid) margin_note("project", ds, tol_s);
    vx_log("backtransform %g/%g project %g/%g\n", db, tol_b, ds, tol_s);
    DelMatrix(&xr); DelMatrix(&ps);
  }

  /* ---- reused outputs of the two predictors, on EVERY execution (any npc, any processor count): the same object twice (and after a
   * call with another npc where that keeps the shape), then ONE other previous shape in rotation (rot): rows differ = object filled
   * by the call on n-1 objects; columns differ = filled by the call with npc-1 where the API can produce such a shape, hand-filled
   * otherwise; both differ */
  { matrix *got, *want, *o; int ok;
    /* PCAScorePredictor -> n x npc */
    initMatrix(&got);
    fit_begin(nproc, real_threads, "nonterm|PCAScorePredictor");
    PCAScorePredictor(mx, mod, (size_t)a, got); want = hm_copy(got);
    PCAScorePredictor(mx, mod, (size_t)a, got); ok = m_same(got, want);
    reuse_verdict("PCAScorePredictor", "same-shape", ok, n, p, scaling, a, got, want, "holds an earlier result of the same shape");
    if (rot == 0 || a > 1) { matrix *sub = m_toprows(mx, n - 1); initMatrix(&o); PCAScorePredictor(rot == 1 ? mx : sub, mod, (size_t)(rot == 0 ? a : a - 1), o); DelMatrix(&sub); }
    else o = rot == 1 ? m_junk(n, a + 1) : m_junk(n + 2, a + 3);
    PCAScorePredictor(mx, mod, (size_t)a, o);
    reuse_verdict("PCAScorePredictor", rot < 2 ? "one-dim-differs" : "both-dims-differ", m_same(o, want), n, p, scaling, a, o, want, OTHER_HOW[rot]);
    vx_transition(2); DelMatrix(&got); DelMatrix(&want); DelMatrix(&o);
    /* PCAIndVarPredictor -> n x p for every npc */
    initMatrix(&got);
    PCAIndVarPredictor(mod->scores, mod->loadings, mod->colaverage, mod->colscaling, (size_t)a, got); want = hm_copy(got);
    PCAIndVarPredictor(mod->scores, mod->loadings, mod->colaverage, mod->colscaling, (size_t)a, got); ok = m_same(got, want);
    if (a > 1) { PCAIndVarPredictor(mod->scores, mod->loadings, mod->colaverage, mod->colscaling, (size_t)(a - 1), got); PCAIndVarPredictor(mod->scores, mod->loadings, mod->colaverage, mod->colscaling, (size_t)a, got); ok = ok && m_same(got, want); vx_transition(1); }
    reuse_verdict("PCAIndVarPredictor", "same-shape", ok, n, p, scaling, a, got, want, "holds an earlier result of the same shape");
    if (rot == 0) { matrix *tsub = m_toprows(mod->scores, n - 1); initMatrix(&o); PCAIndVarPredictor(tsub, mod->loadings, mod->colaverage, mod->colscaling, (size_t)a, o); DelMatrix(&tsub); }
    else o = rot == 1 ? m_junk(n, p + 1) : m_junk(n + 2, p + 3);
    PCAIndVarPredictor(mod->scores, mod->loadings, mod->colaverage, mod->colscaling, (size_t)a, o);
    reuse_verdict("PCAIndVarPredictor", rot < 2 ? "one-dim-differs" : "both-dims-differ", m_same(o, want), n, p, scaling, a, o, want, OTHER_HOW[rot]);
    vx_transition(2); DelMatrix(&got); DelMatrix(&want); DelMatrix(&o); }

  /* ---- processor count: nproc workers give the sequential result */
  if (nproc != 1) {
    PCAMODEL *m1; NewPCAModel(&m1);
    fit_begin(1, 0, "nonterm|PCA|nproc=1-reference");
    PCA(mx, scaling, (size_t)a, m1, NULL); vx_transition(1);
    double tol_n = 64 * DEPS * (n + p + 2) * (double)F;
    double d1 = hm_maxdiff(m1->scores, mod->scores), d2 = hm_maxdiff(m1->loadings, mod->loadings), d3 = hv_maxdiff(m1->varexp, mod->varexp);
    snprintf(key, sizeof key, "nproc|PCA|%s%s", (p % nproc || n % nproc) ? "ragged-slices" : "even-slices", real_threads ? ",real-threads" : "");
    vx_check(d1 <= tol_n && d2 <= tol_n && d3 <= 100 * tol_n, key, "(%dx%d) scaling %d npc %d: nproc=%d vs nproc=1 differ: scores %g loadings %g varexp %g (allowance %g)", n, p, scaling, a, nproc, d1, d2, d3, tol_n);
    margin_note("nproc", d1 > d2 ? d1 : d2, tol_n);
    DelPCAModel(&m1);
  }

  vx_outcome(hm_hash(mod->scores, hm_hash(mod->loadings, hv_hash(mod->varexp, (uint64_t)scaling))));
  DelPCAModel(&mod); DelMatrix(&mx); DelMatrix(&E); DelDVector(&avg); DelDVector(&scl);
  rm_free(RX); rm_free(Eref); rm_free(E0); rm_free(D); free(sv); free(rmean); free(rsf); free(isconst);
}

int main(int argc, char **argv) {
  vg_seed(getenv("VERIF_SEED") ? atol(getenv("VERIF_SEED")) : 0);
  vx_describe("alphabet", "shape (n,p) in {2..7}x{1..5} [thorough {2..10}x{1..8}] + {(60,25),(60,1),(2,25),(5,25),(25,5),(12,12)}; data = spectral(ratio .85 | .3, sigma_1/sigma_m<=1e3) | lattice, 3 [6] instances (2 [3] for boundary shapes); column modifiers dev<=1 [2] (boundary shapes: none [at most one]): offset {0,1,-7.5,1e3}, spread {as is, min SD 0.02, one column SD 0.02, x1e3}, one constant column {none,first,last,middle}; scaling -1..5; npc 1..rank (boundary shapes: rank,1,rank-1[,2]); processor count {1,2,3,8} [+5,24] on unmodified inputs, {1,3} on modified ones, {1,8} [+3] on boundary shapes, plus real threads at nproc 3 on a small sub-alphabet");
  vx_describe("oracle", "P'P=I; t_k=E_{k-1}p_k (long-double deflation); E=TP'+R, R p_k=0; GetResidualMatrix = R (nproc=1; scaling -1 probed in a child on unmodified inputs); varexp>=0, sum<=100, =100 at npc=rank, non-increasing where ref lambda ratio<=0.95; at npc=rank PCAIndVarPredictor reproduces X and PCAScorePredictor(X) reproduces T; nproc=k equals nproc=1; PCAScorePredictor / PCAIndVarPredictor / GetResidualMatrix into a reused output (same shape, one or both dimensions different) = result with a fresh output, bit for bit. Tolerances: C*eps*size*kappa*|E|_F with kappa=sigma_1/sigma_npc from reference singular values; stop-rule slack 100*(2d+d^2), d=sqrt(n*1e-10), on the variance sum");
  vx_describe("preconditions", "column spread >= 0.02 or exactly 0; numerical rank (sigma_i/sigma_1 > 1e-6, gap to 1e-11) >= npc; ties at the 1e-3/1e-2 scale-factor guards pruned");
  vx_set_shard_depth(2);
  vx_expect_outcomes(40);   /* low on purpose: a library that returns the same (e.g. all-zero) model for every input of a shape must surface as violations, not as a vacuity error */
  return vx_main(argc, argv, "C01", body);
}
