/* C02 -- PCA components are the principal axes of the data (spectral correctness + equivariance).
 *
 * Inputs are X = U diag(s) V' + 1*offsets' with U'1 = 0, so the centred matrix has the singular values
 * s_i = s_1 ratio^i exactly (scaling 0); for the other scaling options the spectrum of the preprocessed
 * matrix is computed by the reference (cyclic Jacobi, long double) and a component k is judged only if
 * every leading eigenvalue ratio lambda_{j+1}/lambda_j (j <= k) is <= 0.9 ("separated").
 *
 * Oracle: sin(angle(p_k, v_k)) <= 5 k delta/(1-r)^2 (DESIGN section 3 rule 2; delta = sqrt(n 1e-10) is the
 * relative score step allowed by the documented stop rule, r the largest leading eigenvalue ratio),
 * scores within sigma_1 times that, varexp_k = 100 lambda_k / trace within the first-order image of it.
 * Equivariance compares two fits of mathematically equivalent inputs with twice the allowance.
 *
 * Violation keys carry the class lambda_k < 10 / >= 10: on the pinned tree the loading accumulator is not
 * cleared between NIPALS iterations (power method on I + E'E instead of E'E), which changes the contraction
 * ratio (1+lambda_{k+1})/(1+lambda_k) noticeably exactly when the eigenvalue being extracted is not large
 * against 1 (measured: for lambda_k >= 10 the pinned tree sits >= 10x below the allowance, for 1 <= lambda_k < 10
 * only 1.7x below, for lambda_k < 1 up to 285x above). */
#include "C01_pcacommon.h"

#define NR 60
#define NC 25
static const int SHAPES[6][2] = {{6, 3}, {10, 4}, {8, 8}, {5, 12}, {30, 6}, {60, 25}};
static const double RATIOS[4] = {0.3, 0.6, 0.85, 0.01}, SPREADS[3] = {0.02, 1.0, 100.0};   /* 0.01: wide dynamic range, trailing eigenvalues tiny in absolute units */
static const double OFFS[4] = {1.0, -7.5, 2.5, 40.0};

/* E0 (n x p, row-major): exactly column-centred, singular values s[0..m-1], m = min(n-1,p) */
static void gen_centered_spectral(int k, int n, int p, const double *s, double *out) {
  int m = (n - 1) < p ? (n - 1) : p;
  ld *U = calloc((size_t)n * (size_t)m + 1, sizeof(ld));
  for (int j = 0; j < m; j++) {
    ld mu = 0; for (int i = 0; i < n; i++) { U[i * m + j] = vg_val(1000 + k, i, j); mu += U[i * m + j]; } mu /= n;
    for (int i = 0; i < n; i++) U[i * m + j] -= mu;
    for (int pass = 0; pass < 2; pass++) for (int q = 0; q < j; q++) { ld d = 0; for (int i = 0; i < n; i++) d += U[i * m + j] * U[i * m + q]; for (int i = 0; i < n; i++) U[i * m + j] -= d * U[i * m + q]; }
    ld nr = 0; for (int i = 0; i < n; i++) nr += U[i * m + j] * U[i * m + j]; nr = sqrtl(nr);
    for (int i = 0; i < n; i++) U[i * m + j] /= nr;
  }
  double *V = malloc(sizeof(double) * (size_t)(p * p + 1)); vg_orth(k + 7, p, V);
  for (int i = 0; i < n; i++) for (int j = 0; j < p; j++) { ld a = 0; for (int t = 0; t < m; t++) a += U[i * m + t] * s[t] * V[j * p + t]; out[i * p + j] = (double)a; }
  free(U); free(V);
}

struct fit { PCAMODEL *mod; matrix *mx, *E; rmat *E0, *V, *T; ld lam[NC + 1]; ld trace; int m; long iters; };

static void do_fit(struct fit *f, const double *x, int n, int p, int scaling, int a, int nproc, const char *tickkey, int want_ref) {
  f->mx = hm_new(n, p, x);
  f->m = n < p ? n : p;
  NewPCAModel(&f->mod);
  fit_begin(nproc, 0, tickkey);
  PCA(f->mx, scaling, (size_t)a, f->mod, NULL); vx_transition(1);
  f->iters = H_KERNEL_CALLS / 2;
  f->E = NULL; f->E0 = f->V = f->T = NULL;
  if (want_ref) {
    dvector *avg, *scl; initDVector(&avg); initDVector(&scl);
    NewMatrix(&f->E, (size_t)n, (size_t)p);
    MatrixPreprocess(f->mx, scaling, avg, scl, f->E);
    f->E0 = rm_from(f->E); f->V = rm_new(p, f->m); f->T = rm_new(n, f->m);
    ref_axes(f->E0, f->lam, f->V, f->T); f->lam[f->m] = 0;
    f->trace = 0; for (int i = 0; i < n * p; i++) f->trace += f->E0->a[i] * f->E0->a[i];
    DelDVector(&avg); DelDVector(&scl);
  }
}
static void free_fit(struct fit *f) { DelPCAModel(&f->mod); DelMatrix(&f->mx); if (f->E) DelMatrix(&f->E); rm_free(f->E0); rm_free(f->V); rm_free(f->T); }

static void body(void) {
  int sh = vx_choose("shape", vx_thorough() ? 6 : 5);
  int n = SHAPES[sh][0], p = SHAPES[sh][1];
  /* exact two-level full factorial design (2^p runs, p = 3 / 4, column j = +-spread*4^-j, dyadic): the columns are exactly
   * orthogonal, so the first component removes its column EXACTLY (a zero column in the deflated matrix, not a tiny one) */
  int fact = vx_choose_dev("factorial", 2);
  if (fact) { vx_require(sh < 2); p = sh == 0 ? 3 : 4; n = 1 << p; }
  int cfg = vx_choose("ratio*spread", 12);
  double ratio = RATIOS[cfg / 3], spread = SPREADS[cfg % 3];
  int scaling = vx_choose("scaling+1", 7) - 1;
  int mode = vx_choose("mode", 4);           /* 0 spectral correctness | 1 row permutation | 2 column permutation | 3 rotation */
  int fam, offs, nproc, a, m = (n - 1) < p ? (n - 1) : p;
  int amax = m < 3 ? m : 3;
  if (mode == 0) {
    fam = vx_choose("fam", vx_thorough() ? 4 : 2);
    offs = vx_choose("offsets", 2);
    nproc = vx_choose("nproc", 2) ? 3 : 1;
    a = 1 + vx_choose("npc-1", amax);
  } else { fam = vx_choose("fam", vx_thorough() ? 3 : 2); offs = 1; nproc = 1; a = amax; }
  if (fact) vx_require(mode == 0 && cfg / 3 == 0 && fam == 0);
  vx_require(!(scaling == 5 && offs == 0));   /* level scaling of exactly centred columns divides by 0: degenerate (C18) */
  vx_require(!(mode == 3 && scaling > 0));    /* statement: rotation of UNSCALED data */

  /* ---- input */
  static double E0_[NR * NC], X_[NR * NC], XB_[NR * NC];
  double s[NC + 1]; for (int i = 0; i < m; i++) s[i] = i ? s[i - 1] * ratio : 1.0;
  gen_centered_spectral(fam, n, p, s, E0_);
  if (fact) { double c0 = spread < 0.1 ? 1.0 / 64 : spread > 10 ? 64.0 : 1.0; for (int i = 0; i < n; i++) for (int j = 0; j < p; j++) E0_[i * p + j] = (((i >> j) & 1) ? c0 : -c0) / (double)(1 << (2 * j)); }
  else { rmat *G = rm_new(n, p); for (int i = 0; i < n * p; i++) G->a[i] = E0_[i];
    ld minsd = INFINITY; for (int j = 0; j < p; j++) { ld sd; rm_col_stats(G, j, NULL, NULL, &sd, NULL, NULL, NULL); if (sd < minsd) minsd = sd; }
    rm_free(G); vx_require(minsd > 0);
    double f = (double)(spread / minsd) * (1 + 1e-9); for (int i = 0; i < n * p; i++) E0_[i] *= f; }
  for (int i = 0; i < n; i++) for (int j = 0; j < p; j++) X_[i * p + j] = E0_[i * p + j] + (offs ? OFFS[j % 4] : 0.0);

  double delta = nipals_delta(n, DOC_PCACONVERGENCE);
  char key[160], tk[160];
  snprintf(tk, sizeof tk, "nonterm|PCA|scaling=%d,spread=%g", scaling, spread);
  H_INPUT_HASH = vx_hash_doubles(X_, (size_t)(n * p), (uint64_t)(scaling + 8 * a + 64 * mode));
  struct fit A; do_fit(&A, X_, n, p, scaling, a, nproc, tk, 1);
  int okA = (int)A.mod->scores->col == a && (int)A.mod->loadings->col == a && (int)A.mod->varexp->size == a && hm_allfinite(A.mod->scores) && hm_allfinite(A.mod->loadings) && hv_allfinite(A.mod->varexp);
  vx_check(okA, "shape-finite|PCA", "(%dx%d) scaling %d npc %d: wrong shape or non-finite model", n, p, scaling, a);
  if (!okA) { vx_outcome(vx_hash_doubles(X_, (size_t)(n * p), (uint64_t)(3 + 16 * scaling))); return; }
  vx_require(A.lam[0] > 0);
  ld sig1 = sqrtl(A.lam[0]);

  /* per-component allowances; judged[k] iff all leading eigenvalue ratios up to k are <= 0.9 */
  int judged[3] = {0, 0, 0}, njudged = 0; double allow[3], vallow[3]; const char *cls[3];
  { double r = 0;
    for (int k = 0; k < a; k++) {
      double rk = A.lam[k] > 0 ? (double)(A.lam[k + 1] / A.lam[k]) : 1; if (rk > r) r = rk;
      if (r > 0.9) break;
      judged[k] = 1; njudged++;
      ld sk = sqrtl(A.lam[k]);
      allow[k] = nipals_allow(k + 1, delta, r) + 1e3 * DEPS * (n + p) * (double)(sig1 / sk);
      vallow[k] = 100 * (double)((4 * allow[k] * sig1 * sk + allow[k] * allow[k] * A.lam[0] + 2 * delta * A.lam[k]) / A.trace) + 100 * 64 * DEPS * (n * p + 2);
      cls[k] = A.lam[k] < 10 ? "lambda_k<10" : "lambda_k>=10";
    } }
  vx_require(njudged > 0);

  if (mode == 0) {
    for (int k = 0; k < a; k++) if (judged[k]) {
      int sg; double sn = (double)sin_angle_col(A.mod->loadings, k, A.V, k, &sg);
      snprintf(key, sizeof key, "axis|PCA|%s", cls[k]);
      margin_note(A.lam[k] < 10 ? "axis,lambda<10" : "axis,lambda>=10", sn, allow[k]);
      vx_check(sn <= allow[k], key, "(%dx%d) scaling %d spread %g ratio %g nproc %d: loading %d is %.3g rad off the %d-th principal axis (allowance %.3g; lambda_k %.3Lg, %ld iterations)", n, p, scaling, spread, ratio, nproc, k + 1, sn, k + 1, allow[k], A.lam[k], A.iters);
      ld d2 = 0; for (int i = 0; i < n; i++) { ld d = A.mod->scores->data[i][k] - sg * RM(A.T, i, k); d2 += d * d; }
      double ds = (double)sqrtl(d2), tol_s = allow[k] * (double)sig1;
      snprintf(key, sizeof key, "score|PCA|%s", cls[k]);
      margin_note(A.lam[k] < 10 ? "score,lambda<10" : "score,lambda>=10", ds, tol_s);
      vx_check(ds <= tol_s, key, "(%dx%d) scaling %d spread %g ratio %g: |t_%d - E v_%d| = %.3g (allowance %.3g)", n, p, scaling, spread, ratio, k + 1, k + 1, ds, tol_s);
      double ve = 100 * (double)(A.lam[k] / A.trace), dv = fabs(A.mod->varexp->data[k] - ve);
      snprintf(key, sizeof key, "varexp|PCA|%s", cls[k]);
      margin_note(A.lam[k] < 10 ? "varexp,lambda<10" : "varexp,lambda>=10", dv, vallow[k]);
      vx_check(dv <= vallow[k], key, "(%dx%d) scaling %d spread %g ratio %g: varexp[%d] = %.10g, 100*lambda/trace = %.10g (allowance %.3g)", n, p, scaling, spread, ratio, k + 1, A.mod->varexp->data[k], ve, vallow[k]);
      vx_log("k=%d: axis %.3g/%.3g score %.3g/%.3g varexp %.3g/%.3g lambda %.4Lg iters %ld\n", k + 1, sn, allow[k], ds, tol_s, dv, vallow[k], A.lam[k], A.iters);
    }
    vx_outcome(hm_hash(A.mod->loadings, hv_hash(A.mod->varexp, 7)));
    free_fit(&A);
    return;
  }

  /* ---- equivariance: build the transformed input, fit it, compare with the transformed model */
  int rperm[NR], cperm[NC]; for (int i = 0; i < n; i++) rperm[i] = i; for (int j = 0; j < p; j++) cperm[j] = j;
  double Q[NC * NC]; int useQ = 0; const char *what;
  if (mode == 1) {
    what = "rowperm";
    if (n <= 6) vg_perm(n, vx_choose("rowperm", (int)vg_fact(n)), rperm);
    else { int t = vx_choose("rowshift", n); if (t == 0) for (int i = 0; i < n; i++) rperm[i] = n - 1 - i; else for (int i = 0; i < n; i++) rperm[i] = (i + t) % n; }
  } else if (mode == 2) {
    what = "colperm";
    if (p <= 5) vg_perm(p, vx_choose("colperm", (int)vg_fact(p)), cperm);
    else { int t = vx_choose("colshift", p); if (t == 0) for (int j = 0; j < p; j++) cperm[j] = p - 1 - j; else for (int j = 0; j < p; j++) cperm[j] = (j + t) % p; }
  } else { what = "rotation"; vg_orth(500 + vx_choose("rotation", 6), p, Q); useQ = 1; }
  /* row i of B = row rperm[i] of A; column j of B = column cperm[j] of A; or B = A Q */
  for (int i = 0; i < n; i++) for (int j = 0; j < p; j++) {
    if (!useQ) XB_[i * p + j] = X_[rperm[i] * p + cperm[j]];
    else { ld sacc = 0; for (int t = 0; t < p; t++) sacc += (ld)X_[i * p + t] * Q[t * p + j]; XB_[i * p + j] = (double)sacc; }
  }
  snprintf(tk, sizeof tk, "nonterm|PCA|%s,scaling=%d,spread=%g", what, scaling, spread);
  struct fit B; do_fit(&B, XB_, n, p, scaling, a, nproc, tk, 0);
  int okB = (int)B.mod->scores->col == a && (int)B.mod->loadings->col == a && hm_allfinite(B.mod->scores) && hm_allfinite(B.mod->loadings) && hv_allfinite(B.mod->varexp);
  vx_check(okB, "shape-finite|PCA", "(%dx%d) scaling %d: transformed input gives wrong shape or non-finite model", n, p, scaling);
  if (!okB) { vx_outcome(vx_hash_doubles(XB_, (size_t)(n * p), (uint64_t)(4 + 16 * scaling))); return; }
  for (int k = 0; k < a; k++) if (judged[k]) {
    /* expected loading = transformed loading of A */
    rmat *pe = rm_new(p, 1);
    for (int j = 0; j < p; j++) {
      if (!useQ) RM(pe, j, 0) = A.mod->loadings->data[cperm[j]][k];
      else { ld sacc = 0; for (int t = 0; t < p; t++) sacc += (ld)Q[t * p + j] * A.mod->loadings->data[t][k]; RM(pe, j, 0) = sacc; }
    }
    int sg; double sn = (double)sin_angle_col(B.mod->loadings, k, pe, 0, &sg);
    snprintf(key, sizeof key, "equiv-%s|PCA|loadings,%s", what, cls[k]);
    { char mn[64]; snprintf(mn, sizeof mn, "equiv-%s-loadings,%s", what, cls[k]); margin_note(mn, sn, 2 * allow[k]); }
    vx_check(sn <= 2 * allow[k], key, "(%dx%d) scaling %d spread %g ratio %g: loading %d of the transformed problem is %.3g rad off the transformed loading (allowance %.3g)", n, p, scaling, spread, ratio, k + 1, sn, 2 * allow[k]);
    ld d2 = 0; for (int i = 0; i < n; i++) { ld d = B.mod->scores->data[i][k] - sg * A.mod->scores->data[rperm[i]][k]; d2 += d * d; }
    double ds = (double)sqrtl(d2), tol_s = 2 * allow[k] * (double)sig1;
    snprintf(key, sizeof key, "equiv-%s|PCA|scores,%s", what, cls[k]);
    { char mn[64]; snprintf(mn, sizeof mn, "equiv-%s-scores,%s", what, cls[k]); margin_note(mn, ds, tol_s); }
    vx_check(ds <= tol_s, key, "(%dx%d) scaling %d spread %g ratio %g: scores %d differ by %.3g after undoing the transformation and the sign (allowance %.3g)", n, p, scaling, spread, ratio, k + 1, ds, tol_s);
    double dv = fabs(B.mod->varexp->data[k] - A.mod->varexp->data[k]);
    snprintf(key, sizeof key, "equiv-%s|PCA|varexp,%s", what, cls[k]);
    vx_check(dv <= 2 * vallow[k], key, "(%dx%d) scaling %d spread %g ratio %g: varexp[%d] %.10g vs %.10g (allowance %.3g)", n, p, scaling, spread, ratio, k + 1, B.mod->varexp->data[k], A.mod->varexp->data[k], 2 * vallow[k]);
    vx_log("k=%d %s: loadings %.3g/%.3g scores %.3g/%.3g varexp %.3g/%.3g\n", k + 1, what, sn, 2 * allow[k], ds, tol_s, dv, 2 * vallow[k]);
    rm_free(pe);
  }
  /* "nothing else changing": stored column means/scales follow the transformation (rounding; summation order differs) */
  if (scaling >= 0 && !useQ) {
    rmat *RX = rm_from(A.mx); ld xmax = rm_maxabs(RX); int okc = 1; double worst = 0;
    for (int j = 0; j < p; j++) {
      ld sd; rm_col_stats(RX, cperm[j], NULL, NULL, &sd, NULL, NULL, NULL);
      double ta = 64 * DEPS * (n + 2) * (double)xmax, sf = fabs(A.mod->colscaling->data[cperm[j]]);
      double tsc = 64 * DEPS * (n + 2) * sf * (double)(1 + xmax / sd + xmax / (sf > 0 ? sf : 1));
      double d1 = fabs(B.mod->colaverage->data[j] - A.mod->colaverage->data[cperm[j]]), d2 = fabs(B.mod->colscaling->data[j] - A.mod->colscaling->data[cperm[j]]);
      if (!(d1 <= ta) || !(d2 <= tsc)) okc = 0; if (d1 > worst) worst = d1; if (d2 > worst) worst = d2;
    }
    snprintf(key, sizeof key, "equiv-%s|PCA|colaverage-colscaling", what);
    vx_check(okc, key, "(%dx%d) scaling %d: stored column means/scales do not follow the transformation (max diff %g)", n, p, scaling, worst);
    rm_free(RX);
  }
  vx_outcome(hm_hash(B.mod->loadings, hv_hash(B.mod->varexp, (uint64_t)mode)));
  free_fit(&A); free_fit(&B);
}

int main(int argc, char **argv) {
  vg_seed(getenv("VERIF_SEED") ? atol(getenv("VERIF_SEED")) : 0);
  vx_describe("alphabet", "X = U diag(s) V' + offsets (plus, as a deviation, the exact 2^3 and 2^4 two-level factorial designs with dyadic column scales), U'1=0, s_i = ratio^i, ratio in {.3,.6,.85,.01}; overall scale so that the smallest column SD is in {0.02,1,100}; shapes {(6,3),(10,4),(8,8),(5,12),(30,6)} [+(60,25)]; scaling -1..5; 2 [4] instances; offsets {none, (1,-7.5,2.5,40) cyclic}; npc 1..3; nproc {1,3}; transformations: ALL row permutations for n<=6 (720 / 120), cyclic shifts + reversal otherwise; ALL column permutations for p<=5, cyclic + reversal otherwise; 6 Householder-product rotations (scaling -1, 0)");
  vx_describe("oracle", "reference = cyclic Jacobi (long double) on the Gram matrix of the library's preprocessed data; component k judged iff lambda_{j+1}/lambda_j <= 0.9 for all j<=k; sin angle(p_k,v_k) <= 5k*delta/(1-r)^2 + 1e3*eps*(n+p)*sigma_1/sigma_k, delta=sqrt(n*1e-10); scores within sigma_1*allowance; varexp within 100*(4 a s1 sk + a^2 s1^2 + 2 delta lambda_k)/trace; equivariance: twice the allowance, one sign per component shared by loadings and scores");
  vx_set_shard_depth(3);
  vx_expect_outcomes(40);   /* low on purpose: a library that returns the same (e.g. all-zero) model for every input of a shape must surface as violations, not as a vacuity error */
  return vx_main(argc, argv, "C02", body);
}
