/* C03 -- PLS (NIPALS) structural identities for every X, Y, scaling pair and latent-variable count.
 * One execution = one PLS fit on one element of the finite input family; every identity of the statement is
 * evaluated on it in long double from the fields of the fitted model and through the public predictors. */
#include "C03_pls.h"

static const int SHAPES[8][2] = {{6, 1}, {6, 2}, {7, 3}, {10, 4}, {12, 6}, {9, 8}, {20, 10}, {40, 12}};
static const double FAM_KAPPA[4] = {10, 0 /* lattice */, 100, 3};
static double X_[NMAXR * PMAX], Y_[NMAXR * NYMAX];


/* ---------------------------------------------------------------- reused outputs
 * A predictor must give the same result whatever its OUTPUT object held before the call: empty (initMatrix), the result of
 * an earlier call of the same shape, or a matrix of another shape.  PLSScorePredictor and PLSYPredictorAllLV never read
 * their outputs before (re)initialising them and are single-threaded, so the comparison with the result obtained with
 * fresh outputs is bit for bit (NaN == NaN, -0 == +0). */
static int m_same(const matrix *a, const matrix *b) {
  if (a->row != b->row || a->col != b->col) return 0;
  for (size_t i = 0; i < a->row; i++) for (size_t j = 0; j < a->col; j++) { double x = a->data[i][j], y = b->data[i][j]; if (!(x == y || (x != x && y != y))) return 0; }
  return 1;
}
static matrix *m_dup(const matrix *a) { matrix *m; NewMatrix(&m, a->row, a->col); for (size_t i = 0; i < a->row; i++) memcpy(m->data[i], a->data[i], sizeof(double) * a->col); return m; }
/* an output object that was used before for something of another shape and is full of large values */
static matrix *m_junk(int r, int c) { matrix *m; NewMatrix(&m, (size_t)r, (size_t)c); for (int i = 0; i < r; i++) for (int j = 0; j < c; j++) m->data[i][j] = 1e3 + 7.0 * i - 3.0 * j + 0.25; return m; }
static matrix *m_toprows(const matrix *a, int r) { matrix *m; NewMatrix(&m, (size_t)r, a->col); for (int i = 0; i < r; i++) memcpy(m->data[i], a->data[i], sizeof(double) * a->col); return m; }
static void reuse_verdict(const char *fn, const char *cls, int ok, const char *ctx, const char *what, const matrix *got, const matrix *want, const char *how) {
  char key[160]; snprintf(key, sizeof key, "reuse|%s|%s", fn, cls);
  vx_check(ok, key, "%s: %s into an output that %s gives %s %zux%zu differing from the result with fresh outputs (%zux%zu) by %g", ctx, fn, how, what, got->row, got->col, want->row, want->col, ok ? 0.0 : hm_maxdiff(got, want));
}

/* A column whose scaling factor lies inside the library's documented zero-spread guard (here: spread 5e-4 around 0.25 under
 * autoscaling or range scaling) is switched off at fit time; the model on the remaining columns must still re-project: the
 * stored preprocessing applied by PLSScorePredictor to the training X has to treat that column the same way the fit did.
 * Own small alphabet; only the re-projection identity and the stored yrecalculation are judged (to 1e-8 of the score size:
 * both sides run the same arithmetic on the same numbers). */
static void guarded_column(void) {
  int n = vx_choose("objects", 2) ? 12 : 8, p = 3 + vx_choose("p-3", 2), xs = vx_choose("xscaling", 2) ? 4 : 1, ys = vx_choose("yscaling", 2);
  int ny = 1 + vx_choose("ny-1", 2), col = vx_choose("column", p), nlv = 1 + vx_choose("nlv-1", p - 1), k = vx_choose("values", 2);
  vg_fill(900 + k, n, p, X_); for (int i = 0; i < n * p; i++) X_[i] = 2.0 * X_[i] + 1.0 + 0.5 * ((i % p) % 2);
  for (int i = 0; i < n; i++) X_[i * p + col] = 0.25 + ((i * 5) % n) * (5e-4 / n);
  for (int i = 0; i < n; i++) for (int r = 0; r < ny; r++) { double sgn = r ? -1.0 : 1.0, sum = 3.0 + r; for (int j = 0; j < p; j++) if (j != col) sum += sgn * (1.0 + 0.3 * j) * X_[i * p + j]; Y_[i * ny + r] = sum + 0.2 * vg_val(950 + k, i, r); }
  matrix *mx = hm_new(n, p, X_), *my = hm_new(n, ny, Y_), *ps; initMatrix(&ps);
  PLSMODEL *m; NewPLSModel(&m);
  static char tk[64]; snprintf(tk, sizeof tk, "nonterm|PLS|guarded-column"); TICKKEY = tk; vx_tick_reset();
  PLS(mx, my, (size_t)nlv, xs, ys, m, NULL); vx_transition(1);
  char key[128]; snprintf(key, sizeof key, "reproject|PLSScorePredictor|column-inside-zero-guard,xs=%d", xs);
  int shp = (int)m->xscores->row == n && (int)m->xscores->col == nlv && hm_allfinite(m->xscores);
  if (shp) { PLSScorePredictor(mx, m, (size_t)nlv, ps); vx_transition(1); shp = (int)ps->row == n && (int)ps->col == nlv && hm_allfinite(ps); }
  double tmax = 0, d = 0; if (shp) for (int i = 0; i < n; i++) for (int a = 0; a < nlv; a++) { double t = fabs(m->xscores->data[i][a]), e = fabs(ps->data[i][a] - m->xscores->data[i][a]); if (t > tmax) tmax = t; if (e > d) d = e; }
  vx_check(shp && d <= 1e-8 * tmax, key, "X %dx%d with column %d of spread 5e-4 (scaling factor inside the zero-spread guard), ny=%d nlv=%d xs=%d ys=%d: max|PLSScorePredictor(training X) - xscores| = %g, max|t| = %g (or wrong shape / non-finite)", n, p, col, ny, nlv, xs, ys, d, tmax);
  vx_outcome(hm_hash(m->xscores, (uint64_t)(77 + xs)));
  DelMatrix(&ps); DelPLSModel(&m); DelMatrix(&mx); DelMatrix(&my);
}

static void body(void) {
  if (vx_choose_dev("guarded-column", 2)) { guarded_column(); return; }
  int si = vx_choose("shape", vx_thorough() ? 8 : 5);
  int xs = vx_choose("xscaling+1", 7) - 1, ys = vx_choose("yscaling+1", 7) - 1;
  int ny = 1 + vx_choose("ny-1", 4);
  int noise = vx_choose("noise", 3);
  int fam = vx_choose("xfam", vx_thorough() ? 4 : 2);
  int n = SHAPES[si][0], p = SHAPES[si][1];
  int yv = vx_choose_dev("yvariant", 3);
  int xv = vx_choose_dev("xvariant", 4);
  int nlv = 1 + vx_choose("nlv-1", p);               /* deepest choice: consecutive executions share the input (reference cache) */
  vx_require(!(yv == 1 && ny == 1));                 /* "correlated responses" needs two of them */
  vx_require(!(p == 1 && fam >= 2));                 /* one column: the spectral families coincide */

  gen_x(n, p, fam * 11 + si, FAM_KAPPA[fam], xv, X_);
  gen_y(n, p, ny, X_, fam * 11 + si, noise, yv, Y_);
  int band; vx_require(input_ok(X_, n, p, xs, Y_, ny, ys, &band));
  const char *cls = band ? "xscal<1e-2" : "generic";
  const char *lay = (ny > 1 && nlv > 1) ? "ny>1,nlv>1" : "ny=1-or-nlv=1";
  char key[128];
#define KEY(oracle, fn, c) (snprintf(key, sizeof key, "%s|%s|%s", oracle, fn, c), key)

  /* conditioning of this instance, from the documented preprocessing, independent of the library */
  static int ck[8] = {-9, 0, 0, 0, 0, 0, 0, 0}; static double kappa; static ld gamma[PMAX];   /* pure function of the key: caching is deterministic */
  int kq[8] = {si, xs, ys, ny, noise, fam, yv, xv};
  if (memcmp(ck, kq, sizeof ck) != 0) {
    rmat *Er = prep_ref(X_, n, p, xs), *Fr = prep_ref(Y_, n, ny, ys);
    kappa = (double)rm_cond2(Er); ref_pls_gamma(Er, Fr, p, gamma);
    rm_free(Er); rm_free(Fr); memcpy(ck, kq, sizeof ck);
  }
  double tolc = tol_cos(n, p, kappa, gamma, nlv);
  vx_require(tolc <= TOLC_CAP);                      /* latent variable well-posed (see C03_pls.h) */

  matrix *mx = hm_new(n, p, X_), *my = hm_new(n, ny, Y_);
  PLSMODEL *m; NewPLSModel(&m);
  snprintf(key, sizeof key, "nonterm|PLS|%s", ny > 1 ? "ny>1" : "ny=1"); static char tk[64]; snprintf(tk, sizeof tk, "%s", key); TICKKEY = tk;
  vx_tick_reset();
  PLS(mx, my, (size_t)nlv, xs, ys, m, NULL);
  vx_transition(1);
  vx_log("C03 n=%d p=%d ny=%d nlv=%d xs=%d ys=%d noise=%d fam=%d xv=%d yv=%d kappa=%g tolc=%g\n", n, p, ny, nlv, xs, ys, noise, fam, xv, yv, kappa, tolc);

  /* ---- shapes and finiteness */
  int A = nlv;
  int shp = (int)m->xscores->row == n && (int)m->xscores->col == A && (int)m->xloadings->row == p && (int)m->xloadings->col == A &&
            (int)m->xweights->row == p && (int)m->xweights->col == A && (int)m->yloadings->row == ny && (int)m->yloadings->col == A &&
            (int)m->b->size == A && (int)m->recalculated_y->row == n && (int)m->recalculated_y->col == ny * A &&
            (int)m->recalc_residuals->row == n && (int)m->recalc_residuals->col == ny * A &&
            (int)m->xcolaverage->size == (xs >= 0 ? p : 0) && (int)m->xcolscaling->size == (xs >= 0 ? p : 0) &&
            (int)m->ycolaverage->size == (ys >= 0 ? ny : 0) && (int)m->ycolscaling->size == (ys >= 0 ? ny : 0);
  vx_check(shp, KEY("shape", "PLS", lay), "model field dimensions for n=%d p=%d ny=%d nlv=%d xs=%d ys=%d: T %zux%zu P %zux%zu W %zux%zu Q %zux%zu b %zu recalc %zux%zu resid %zux%zu",
           n, p, ny, nlv, xs, ys, m->xscores->row, m->xscores->col, m->xloadings->row, m->xloadings->col, m->xweights->row, m->xweights->col,
           m->yloadings->row, m->yloadings->col, m->b->size, m->recalculated_y->row, m->recalculated_y->col, m->recalc_residuals->row, m->recalc_residuals->col);
  if (!shp) { vx_outcome(1); return; }
  int fin = hm_allfinite(m->xscores) && hm_allfinite(m->xloadings) && hm_allfinite(m->xweights) && hm_allfinite(m->yloadings) && hv_allfinite(m->b) && hm_allfinite(m->recalculated_y) && hm_allfinite(m->recalc_residuals);
  vx_check(fin, KEY("finite", "PLS", cls), "non-finite model field (n=%d p=%d ny=%d nlv=%d xs=%d ys=%d)", n, p, ny, nlv, xs, ys);
  if (!fin) { vx_outcome(2); return; }

  rmat *T = rm_from(m->xscores), *P = rm_from(m->xloadings), *W = rm_from(m->xweights), *Q = rm_from(m->yloadings);
  rmat *E = prep_stored(X_, n, p, m->xcolaverage, m->xcolscaling);
  ld eF = rm_fro(E), tmax = 0; for (int k = 0; k < A; k++) { ld v = colnorm(T, k); if (v > tmax) tmax = v; }

  /* ---- "mutually orthogonal x-scores and mutually orthogonal weights" (cosines) */
  double oT = 0, oW = 0; int oTi = 0, oTj = 0, oWi = 0, oWj = 0;
  for (int i = 0; i < A; i++) for (int j = i + 1; j < A; j++) {
    double c1 = (double)(fabsl(coldot(T, i, T, j)) / (colnorm(T, i) * colnorm(T, j))), c2 = (double)(fabsl(coldot(W, i, W, j)) / (colnorm(W, i) * colnorm(W, j)));
    if (!(c1 <= oT)) { oT = c1; oTi = i; oTj = j; }
    if (!(c2 <= oW)) { oW = c2; oWi = i; oWj = j; }
  }
  vx_check(oT <= tolc, KEY("orth-T", "PLS", cls), "cos(t%d,t%d)=%g allowance %g (n=%d p=%d ny=%d nlv=%d xs=%d ys=%d kappa=%g)", oTi + 1, oTj + 1, oT, tolc, n, p, ny, nlv, xs, ys, kappa);
  vx_check(oW <= tolc, KEY("orth-W", "PLS", cls), "cos(w%d,w%d)=%g allowance %g (n=%d p=%d ny=%d nlv=%d xs=%d ys=%d kappa=%g)", oWi + 1, oWj + 1, oW, tolc, n, p, ny, nlv, xs, ys, kappa);
  if (A > 1) { margin("orth-T", oT, tolc); margin("orth-W", oW, tolc); }

  /* ---- "preprocessed X = scores x loadings^T + residual": successive deflation with the stored T, P in long double;
   *      t_k = E_{k-1} w_k (what the projection computes), the residual is orthogonal to every score, and it vanishes
   *      when nlv = rank */
  rmat *R = rm_copy(E); double dT = 0; int dTk = 0;
  for (int k = 0; k < A; k++) {
    ld wn = colnorm(W, k); if (wn < 1) wn = 1;
    for (int i = 0; i < n; i++) { ld s = 0; for (int j = 0; j < p; j++) s += RM(R, i, j) * RM(W, j, k); double d = (double)(fabsl(s - RM(T, i, k)) / (eF * wn)); if (!(d <= dT)) { dT = d; dTk = k; } }
    for (int i = 0; i < n; i++) for (int j = 0; j < p; j++) RM(R, i, j) -= RM(T, i, k) * RM(P, j, k);
  }
  vx_check(dT <= tolc, KEY("score=Ew", "PLS", cls), "|t%d - E%d w%d|/(|E||w|)=%g allowance %g (n=%d p=%d ny=%d nlv=%d xs=%d ys=%d)", dTk + 1, dTk, dTk + 1, dT, tolc, n, p, ny, nlv, xs, ys);
  margin("score=Ew", dT, tolc);
  double rT = 0; int rTk = 0;
  for (int k = 0; k < A; k++) { ld mx2 = 0; for (int j = 0; j < p; j++) { ld s = 0; for (int i = 0; i < n; i++) s += RM(T, i, k) * RM(R, i, j); mx2 += s * s; } double d = (double)(sqrtl(mx2) / (colnorm(T, k) * eF)); if (!(d <= rT)) { rT = d; rTk = k; } }
  vx_check(rT <= tolc, KEY("resid-orth", "PLS", cls), "|t%d' R|/(|t||E|)=%g allowance %g: E - T P' is not orthogonal to the scores (n=%d p=%d ny=%d nlv=%d xs=%d ys=%d)", rTk + 1, rT, tolc, n, p, ny, nlv, xs, ys);
  margin("resid-orth", rT, tolc);
  if (A == p) { double rr = (double)(rm_fro(R) / eF); vx_check(rr <= tolc, KEY("resid-fullrank", "PLS", cls), "|E - T P'|/|E|=%g allowance %g at nlv=rank=%d (n=%d ny=%d xs=%d ys=%d)", rr, tolc, p, n, ny, xs, ys); margin("resid-fullrank", rr, tolc); }

  /* ---- "re-projecting the training X through the model reproduces the training x-scores" */
  matrix *ps; initMatrix(&ps);
  PLSScorePredictor(mx, m, (size_t)nlv, ps); vx_transition(1);
  double dP = hm_maxdiff(ps, m->xscores) / (double)tmax;
  vx_check(dP <= tolc, KEY("reproject", "PLSScorePredictor", cls), "max|PLSScorePredictor(X) - xscores|/max|t|=%g allowance %g (n=%d p=%d ny=%d nlv=%d xs=%d ys=%d)", dP, tolc, n, p, ny, nlv, xs, ys);
  margin("reproject", dP, tolc);

  /* ---- "stored recalculated responses for a latent variables = back-transformed sum of b_k t_k q_k^T, k <= a" and
   *      "stored residuals = recalculated - observed, column by column"; both for EVERY column c = ny*(a-1)+j */
  double worstY = 0, worstR = 0; int wYc = 0, wRc = 0; double wRv = 0, wRe = 0;
  double yscale_max = 0;
  for (int a = 1; a <= A; a++) for (int j = 0; j < ny; j++) {
    int c = ny * (a - 1) + j;
    ld avg = (int)m->ycolaverage->size == ny ? m->ycolaverage->data[j] : 0, sc = (int)m->ycolscaling->size == ny ? m->ycolscaling->data[j] : 1;
    for (int i = 0; i < n; i++) {
      ld s = 0, sa = 0; for (int k = 0; k < a; k++) { ld v = (ld)m->b->data[k] * RM(T, i, k) * RM(Q, j, k); s += v; sa += fabsl(v); }
      ld ref = s * sc + avg, mag = sa * fabsl(sc) + fabsl(avg);
      double allow = 16 * DEPS * (a + 2) * (double)mag + 1e-300, d = fabs(m->recalculated_y->data[i][c] - (double)ref) / allow;
      if (!(d <= worstY)) { worstY = d; wYc = c; }
      double rec = m->recalculated_y->data[i][c], obs = my->data[i][c % ny], res = m->recalc_residuals->data[i][c];
      double allowr = 4 * DEPS * (fabs(rec) + fabs(obs)) + 1e-300, dr = fabs(res - (rec - obs)) / allowr;
      if (!(dr <= worstR)) { worstR = dr; wRc = c; wRv = res; wRe = rec - obs; }
      if ((double)mag > yscale_max) yscale_max = (double)mag;
    }
  }
  vx_check(worstY <= 1, KEY("recalc-y", "PLS", lay), "recalculated_y column %d (response %d, a=%d) differs from back-transformed sum b t q' by %g allowances (n=%d p=%d ny=%d nlv=%d xs=%d ys=%d)", wYc, wYc % ny, wYc / ny + 1, worstY, n, p, ny, nlv, xs, ys);
  vx_check(worstR <= 1, KEY("resid-col", "PLS", lay), "recalc_residuals column %d (response %d, a=%d): stored %g, recalculated-observed %g (n=%d p=%d ny=%d nlv=%d xs=%d ys=%d)", wRc, wRc % ny, wRc / ny + 1, wRv, wRe, n, p, ny, nlv, xs, ys);
  margin("recalc-y", worstY, 1);

  /* ---- the public all-LV predictor on the training X returns the stored recalculated responses */
  matrix *yp; initMatrix(&yp);
  PLSYPredictorAllLV(mx, m, NULL, yp); vx_transition(1);
  double dY = 0; int dYc = 0;
  if (yp->row == m->recalculated_y->row && yp->col == m->recalculated_y->col) {
    for (int c = 0; c < ny * A; c++) {
      int j = c % ny, a = c / ny + 1; ld sc = (int)m->ycolscaling->size == ny ? fabsl((ld)m->ycolscaling->data[j]) : 1, sa = 0;
      for (int k = 0; k < a; k++) sa += fabsl((ld)m->b->data[k] * RM(Q, j, k)) * colnorm(T, k);
      double scale = (double)(sa * sc) + 1e-300;
      for (int i = 0; i < n; i++) { double d = fabs(yp->data[i][c] - m->recalculated_y->data[i][c]) / scale; if (!(d <= dY)) { dY = d; dYc = c; } }
    }
  } else dY = INFINITY;
  vx_check(dY <= tolc, KEY("predict", "PLSYPredictorAllLV", cls), "column %d of PLSYPredictorAllLV(X) differs from recalculated_y by %g (relative to sum|b q||t|), allowance %g (n=%d p=%d ny=%d nlv=%d xs=%d ys=%d)", dYc, dY, tolc, n, p, ny, nlv, xs, ys);
  margin("predict", dY, tolc);

  /* ---- reused outputs.  Every execution: both routines a second time into the objects the fresh calls above filled
   * (PLSYPredictorAllLV gets the filled n x nlv score matrix as its optional score output).  Other previous shapes cost up to two
   * more predictor calls each, so ONE of the six (routine, previous shape) pairs is visited per execution, in rotation over the
   * sum of the choice indices (consecutive nlv / inputs take consecutive pairs): rows differ = objects filled by a call on the
   * first n-1 objects; columns differ = filled by a call with nlv-1 (hand-filled where this model cannot produce such a
   * shape); both differ. */
  { char ctx[120]; snprintf(ctx, sizeof ctx, "n=%d p=%d ny=%d nlv=%d xs=%d ys=%d", n, p, ny, nlv, xs, ys);
    int rot = (si + xs + ys + ny + noise + fam + yv + xv + nlv + 2) % 6, ok, oky;
    matrix *wt = m_dup(ps), *wy = m_dup(yp);
    PLSScorePredictor(mx, m, (size_t)nlv, ps); ok = m_same(ps, wt);
    reuse_verdict("PLSScorePredictor", "same-shape", ok, ctx, "scores", ps, wt, "holds an earlier result of the same shape");
    PLSYPredictorAllLV(mx, m, ps, yp); oky = m_same(yp, wy); ok = m_same(ps, wt);
    reuse_verdict("PLSYPredictorAllLV", "same-shape", ok && oky, ctx, oky ? "scores" : "predictions", oky ? ps : yp, oky ? wt : wy, "holds an earlier result of the same shape");
    vx_transition(2);
    if (rot < 3) {
      matrix *o;
      if (rot == 0) { matrix *sub = m_toprows(mx, n - 1); initMatrix(&o); PLSScorePredictor(sub, m, (size_t)nlv, o); DelMatrix(&sub); }
      else if (nlv > 1) { matrix *sub = m_toprows(mx, n - 1); initMatrix(&o); PLSScorePredictor(rot == 1 ? mx : sub, m, (size_t)(nlv - 1), o); DelMatrix(&sub); }
      else o = rot == 1 ? m_junk(n, nlv + 1) : m_junk(n + 2, nlv + 3);
      PLSScorePredictor(mx, m, (size_t)nlv, o); vx_transition(1);
      reuse_verdict("PLSScorePredictor", rot < 2 ? "one-dim-differs" : "both-dims-differ", m_same(o, wt), ctx, "scores", o, wt,
                    rot == 0 ? "held the scores of another number of objects" : rot == 1 ? "held the scores of another number of latent variables" : "held the scores of other numbers of objects and latent variables");
      DelMatrix(&o);
    } else {
      matrix *oy, *ot;
      if (rot == 3) { matrix *sub = m_toprows(mx, n - 1); initMatrix(&oy); initMatrix(&ot); PLSYPredictorAllLV(sub, m, ot, oy); DelMatrix(&sub); }
      else if (rot == 4) { oy = m_junk(n, ny * A + 1); ot = m_junk(n, A + 1); }
      else { oy = m_junk(n + 2, ny * A + 3); ot = m_junk(n + 2, A + 3); }
      PLSYPredictorAllLV(mx, m, ot, oy); vx_transition(1); oky = m_same(oy, wy); ok = m_same(ot, wt);
      reuse_verdict("PLSYPredictorAllLV", rot < 5 ? "one-dim-differs" : "both-dims-differ", ok && oky, ctx, oky ? "scores" : "predictions", oky ? ot : oy, oky ? wt : wy,
                    rot == 3 ? "held the result for another number of objects" : rot == 4 ? "held matrices with another number of columns" : "held matrices with other numbers of rows and columns");
      DelMatrix(&oy); DelMatrix(&ot);
    }
    DelMatrix(&wt); DelMatrix(&wy); }

  vx_outcome(hm_hash(m->recalculated_y, hm_hash(m->xscores, (uint64_t)(xs + 1) * 7 + (uint64_t)(ys + 1))));
  rm_free(T); rm_free(P); rm_free(W); rm_free(Q); rm_free(E); rm_free(R);
  DelMatrix(&ps); DelMatrix(&yp); DelPLSModel(&m); DelMatrix(&mx); DelMatrix(&my);
}

int main(int argc, char **argv) {
  vg_seed(getenv("VERIF_SEED") ? atol(getenv("VERIF_SEED")) : 0);
  vx_describe("alphabet", "[deviation: one X column of spread 5e-4 inside the zero-spread guard, objects {8,12} x p {3,4} x xscaling {1,4} x yscaling {0,1} x ny 1..2 x column x nlv 1..p-1 x 2 value sets: re-projection only] X shapes {(6,1),(6,2),(7,3),(10,4),(12,6)} [thorough +(9,8),(20,10),(40,12)] x families {spectral kappa 10, lattice} [+ kappa 100, kappa 3] x "
              "xscaling -1..5 x yscaling -1..5 x ny 1..4 x noise {0,0.1,3} x nlv 1..p (all) ; deviations (<=1 quick, <=2 thorough): Y variant {offsets, correlated, differently scaled}, "
              "X variant {offset columns, no offsets, 1e3 offset + x50 column, column sd 4e-3 (fit/apply zero-guard band)}");
  vx_describe("oracle", "cos(t_i,t_j), cos(w_i,w_j), |t_k - E_{k-1} w_k|, |t_k'(E-TP')|, |E-TP'| at nlv=rank, PLSScorePredictor(X)=T, PLSYPredictorAllLV(X)=recalculated_y: "
              "allowance 1e3*eps*(n+p)*kappa(E)/min_k gamma_k (kappa by long-double Jacobi SVD of the documented preprocessing, gamma from a long-double reference PLS path; instances with allowance > 1e-6 pruned); "
              "recalculated_y[:,ny(a-1)+j] vs long-double back-transform of sum b t q' (16*eps*(a+2)*sum|terms|); recalc_residuals[:,c] = recalculated_y[:,c] - my[:,c mod ny] (4 eps); "
              "PLSScorePredictor / PLSYPredictorAllLV (predictions and scores) into reused outputs (same shape, one or both dimensions different) = result with fresh outputs, bit for bit");
  vx_describe("tick", "DVectorMatrixDotProduct wrapped (2 calls per NIPALS iteration + 1 per latent variable), ceiling %ld", vx_tick_ceiling);
  vx_set_shard_depth(3);
  vx_expect_outcomes(1000);
  return vx_main(argc, argv, "C03", body);
}
