/* C04 -- PLS regression is a correct least-squares family: OLS limit at nlv = rank, monotone RSS / R2, regression-
 * coefficient form = score-based predictor (ny = 1, DESIGN 6.0), affine equivariance of a single centred response.
 * One execution = one input (X, Y, unseen Z, scaling pair) fitted with all its well-posed latent variables (nlv = rank
 * unless the Krylov space is exhausted earlier); every a <= nlv is judged on it. */
#include "C03_pls.h"

static const int SHAPES[8][2] = {{6, 1}, {7, 2}, {8, 3}, {12, 4}, {10, 4}, {9, 8}, {20, 6}, {40, 10}};
static const double KAPPA[3] = {1, 10, 100};
static const double AFF[4][2] = {{-2, 0}, {1, 5}, {0.01, -3}, {1e3, 7}};
#define NZ 8
static double X_[NMAXR * PMAX], Y_[NMAXR * NYMAX], Z_[NZ * PMAX], Y2_[NMAXR];

static ld back(const PLSMODEL *m, int j, ld v) { /* un-scale then un-centre response j, as PLSYPredictor documents */
  if (m->ycolaverage->size > 0) { if (m->ycolscaling->size > 0) v *= m->ycolscaling->data[j]; v += m->ycolaverage->data[j]; }
  return v;
}

static void body(void) {
  int si = vx_choose("shape", vx_thorough() ? 8 : 4);
  int xs = vx_choose("xscaling+1", 7) - 1, ys = vx_choose("yscaling+1", 7) - 1;
  int kap = vx_choose("kappa", 3);
  int ny = 1 + vx_choose("ny-1", 3);
  int noise = vx_choose("noise", 3);
  int fam = vx_choose("xfam", vx_thorough() ? 3 : 2);
  int yv = vx_choose_dev("yvariant", 3);
  int xv = vx_choose_dev("xvariant", 3);
  int n = SHAPES[si][0], p = SHAPES[si][1];
  vx_require(!(p == 1 && kap > 0));
  vx_require(!(yv == 1 && ny == 1));
  int kk = fam * 13 + si + 40;
  gen_x(n, p, kk, KAPPA[kap], xv, X_);
  gen_y(n, p, ny, X_, kk, noise, yv, Y_);
  /* unseen objects: general-position values with the spread and level of each training column */
  for (int j = 0; j < p; j++) { ld mj, sd = ref_scaling(X_, n, p, j, 1, &mj, NULL); for (int i = 0; i < NZ; i++) Z_[i * p + j] = (double)(mj + 2 * sd * (ld)vg_val(kk + 700, i, j)); }
  int band; vx_require(input_ok(X_, n, p, xs, Y_, ny, ys, &band));
  vx_require(!band);                                  /* the fit/apply zero-guard band is C03's class */
  const char *cny = ny > 1 ? "ny>1" : "ny=1";
  char key[128];
#define KEY(oracle, fn, c) (snprintf(key, sizeof key, "%s|%s|%s", oracle, fn, c), key)

  rmat *Er = prep_ref(X_, n, p, xs), *Fr = prep_ref(Y_, n, ny, ys);
  double kappa = (double)rm_cond2(Er);
  ld gamma[PMAX]; ref_pls_gamma(Er, Fr, p, gamma);
  int amax = 0; while (amax < p && tol_cos(n, p, kappa, gamma, amax + 1) <= TOLC_CAP) amax++;
  rm_free(Er); rm_free(Fr);
  vx_require(amax >= 1);
  /* the model is fitted with the well-posed latent variables only: beyond them the NIPALS inner loop iterates on rounding
   * residue of an exhausted Y (0/0 in exact arithmetic) and need not terminate -- degenerate data, judged by C18 */
  const int A = amax;
  vx_log("C04 n=%d p=%d ny=%d xs=%d ys=%d kappa(E)=%g amax=%d tolc(amax)=%g noise=%d fam=%d xv=%d yv=%d\n", n, p, ny, xs, ys, kappa, amax, tol_cos(n, p, kappa, gamma, amax), noise, fam, xv, yv);

  matrix *mx = hm_new(n, p, X_), *my = hm_new(n, ny, Y_), *mz = hm_new(NZ, p, Z_);
  PLSMODEL *m; NewPLSModel(&m);
  static char tk[64]; snprintf(tk, sizeof tk, "nonterm|PLS|%s", cny); TICKKEY = tk;
  vx_tick_reset(); PLS(mx, my, (size_t)A, xs, ys, m, NULL); vx_transition(1);
  matrix *ypX, *ypZ, *tz; initMatrix(&ypX); initMatrix(&ypZ); initMatrix(&tz);
  PLSYPredictorAllLV(mx, m, NULL, ypX); PLSYPredictorAllLV(mz, m, tz, ypZ); vx_transition(2);
  int shp = (int)m->xscores->row == n && (int)m->xscores->col == A && (int)m->b->size == A && (int)m->recalculated_y->row == n && (int)m->recalculated_y->col == ny * A &&
            (int)ypX->row == n && (int)ypX->col == ny * A && (int)ypZ->row == NZ && (int)ypZ->col == ny * A && (int)tz->row == NZ && (int)tz->col == A &&
            (int)m->yloadings->row == ny && (int)m->yloadings->col == A && (int)m->xweights->row == p && (int)m->xweights->col == A;
  vx_check(shp, KEY("shape", "PLS", cny), "dimensions of model / predictions for n=%d p=%d ny=%d nlv=%d", n, p, ny, A);
  if (!shp) { vx_outcome(1); return; }
  /* the score-based predictor itself, PLSYPredictor(scores, a), scanned over a = 1..A and then back down into ONE output
   * matrix that is reused from call to call (the way a caller scans the number of latent variables): every call must give
   * what the all-LV predictor stores for that a, whatever the output matrix held before */
  { matrix *yre; initMatrix(&yre); double wre = 0; int are = 0;
    for (int pass = 0; pass < 2; pass++) for (int a = pass ? A : 1; pass ? a >= 1 : a <= A; a += pass ? -1 : 1) {
      PLSYPredictor(tz, m, (size_t)a, yre); vx_transition(1);
      if ((int)yre->row != NZ || (int)yre->col != ny) { wre = INFINITY; are = a; break; }
      for (int i = 0; i < NZ; i++) for (int j = 0; j < ny; j++) { double d = fabs(yre->data[i][j] - ypZ->data[i][ny * (a - 1) + j]) / (DBL_MIN + 64 * DEPS * (fabs(ypZ->data[i][ny * (a - 1) + j]) + 1e-300)); if (!(d <= wre)) { wre = d; are = a; } } }
    vx_check(wre <= 1, KEY("reuse", "PLSYPredictor", cny), "a=%d: PLSYPredictor into a reused output matrix differs from PLSYPredictorAllLV's column block by %g allowances (64 eps relative)", are, wre);
    DelMatrix(&yre); }
  int fin = hm_allfinite(m->xscores) && hv_allfinite(m->b) && hm_allfinite(m->recalculated_y) && hm_allfinite(ypX) && hm_allfinite(ypZ) && hm_allfinite(m->yloadings) && hm_allfinite(m->xweights) && hm_allfinite(m->xloadings);
  vx_check(fin, KEY("finite", "PLS", cny), "non-finite model field or prediction (n=%d p=%d ny=%d xs=%d ys=%d)", n, p, ny, xs, ys);
  if (!fin) { vx_outcome(2); return; }

  /* reference column statistics (means only: the least-squares fit is invariant to the column scalings) */
  ld xm[PMAX], ym[NYMAX], ycn[NYMAX], tss[NYMAX], ymaxabs[NYMAX];
  for (int j = 0; j < p; j++) { ref_scaling(X_, n, p, j, 0, &xm[j], NULL); if (xs < 0) xm[j] = 0; }
  for (int r = 0; r < ny; r++) {
    ld mean; ref_scaling(Y_, n, ny, r, 0, &mean, NULL); ym[r] = ys < 0 ? 0 : mean;
    ycn[r] = 0; tss[r] = 0; ymaxabs[r] = 0;
    for (int i = 0; i < n; i++) { ld v = Y_[i * ny + r]; ycn[r] += (v - ym[r]) * (v - ym[r]); tss[r] += (v - mean) * (v - mean); if (fabsl(v) > ymaxabs[r]) ymaxabs[r] = fabsl(v); }
    ycn[r] = sqrtl(ycn[r]);
  }

  /* magnitude of the terms of the back-transformed sum, per object / response / a (rounding scale) */
  /* sy[a][r] = |ysc_r| sum_{k<=a} |b_k q_rk| max_i |t_ik| over training and unseen scores */
  ld tmaxk[PMAX], sy[PMAX + 1][NYMAX];
  for (int k = 0; k < A; k++) { tmaxk[k] = 0; for (int i = 0; i < n; i++) if (fabsl((ld)m->xscores->data[i][k]) > tmaxk[k]) tmaxk[k] = fabsl((ld)m->xscores->data[i][k]); for (int i = 0; i < NZ; i++) if (fabsl((ld)tz->data[i][k]) > tmaxk[k]) tmaxk[k] = fabsl((ld)tz->data[i][k]); }
  for (int r = 0; r < ny; r++) { ld sc = m->ycolscaling->size > 0 ? fabsl((ld)m->ycolscaling->data[r]) : 1; sy[0][r] = 0; for (int a = 1; a <= A; a++) sy[a][r] = sy[a - 1][r] + sc * fabsl((ld)m->b->data[a - 1] * m->yloadings->data[r][a - 1]) * tmaxk[a - 1]; }

  /* ---- (i) "with as many latent variables as the rank of X the PLS fitted responses coincide with the OLS fitted
   *      responses (computed independently)": Householder-QR least squares in long double on the preprocessed problem */
  if (amax == p) {
    double tolc = tol_cos(n, p, kappa, gamma, p);
    rmat *Ec = rm_new(n, p), *Yc = rm_new(n, ny), *B = rm_new(p, ny);
    for (int i = 0; i < n; i++) { for (int j = 0; j < p; j++) RM(Ec, i, j) = X_[i * p + j] - xm[j]; for (int r = 0; r < ny; r++) RM(Yc, i, r) = Y_[i * ny + r] - ym[r]; }
    int ok = rm_lstsq(Ec, Yc, B);
    if (ok) {
      double w1 = 0, w2 = 0; int c1 = 0, c2 = 0;
      for (int r = 0; r < ny; r++) {
        int c = ny * (p - 1) + r; double allow = tolc * (double)ycn[r] + 16 * DEPS * (double)fabsl(ym[r]) + 1e-300;
        for (int i = 0; i < n; i++) {
          ld f = ym[r]; for (int j = 0; j < p; j++) f += RM(Ec, i, j) * RM(B, j, r);
          double d1 = fabs(m->recalculated_y->data[i][c] - (double)f) / allow, d2 = fabs(ypX->data[i][c] - (double)f) / allow;
          if (!(d1 <= w1)) { w1 = d1; c1 = r; } if (!(d2 <= w2)) { w2 = d2; c2 = r; }
        }
      }
      vx_check(w1 <= 1, KEY("ols-limit", "PLS.recalculated_y", cny), "response %d: fitted values at nlv=rank=%d differ from least squares by %g allowances (tolc=%g, n=%d ny=%d xs=%d ys=%d kappa=%g)", c1, p, w1, tolc, n, ny, xs, ys, kappa);
      vx_check(w2 <= 1, KEY("ols-limit", "PLSYPredictorAllLV", cny), "response %d: predictions of the training objects at nlv=rank=%d differ from least squares by %g allowances (tolc=%g, n=%d ny=%d xs=%d ys=%d kappa=%g)", c2, p, w2, tolc, n, ny, xs, ys, kappa);
      margin("ols-limit", w1 > w2 ? w1 : w2, 1);
    }
    rm_free(Ec); rm_free(Yc); rm_free(B);
  }

  /* ---- (ii) "the training RSS never increases when a latent variable is added (R2 non-decreasing)": holds for any
   *      iterate, so every a up to the rank is judged; allowance = rounding of the sums, no conditioning involved */
  matrix *r2; initMatrix(&r2);
  PLSRegressionStatistics(my, m->recalculated_y, r2, NULL, NULL); vx_transition(1);
  int r2shape = (int)r2->row == A && (int)r2->col == ny;
  vx_check(r2shape, KEY("shape", "PLSRegressionStatistics", cny), "r2 table is %zux%zu, expected %dx%d", r2->row, r2->col, A, ny);
  double wm = 0, wr = 0; int wma = 0, wmr = 0, wra = 0, wrr = 0; double wmv0 = 0, wmv1 = 0, wrv0 = 0, wrv1 = 0;
  for (int r = 0; r < ny; r++) {
    ld prev = ycn[r] * ycn[r], scale2 = 0;
    for (int i = 0; i < n; i++) { ld v = fabsl((ld)Y_[i * ny + r]) + fabsl(ym[r]) + sy[A][r] + (m->ycolaverage->size > 0 ? fabsl((ld)m->ycolaverage->data[r]) : 0); scale2 += v * v; }
    double allow = 64 * DEPS * n * (p + 2) * (double)scale2 + 1e-300;
    for (int a = 1; a <= A; a++) {
      ld rss = 0; for (int i = 0; i < n; i++) { ld d = (ld)m->recalculated_y->data[i][ny * (a - 1) + r] - Y_[i * ny + r]; rss += d * d; }
      double d = (double)(rss - prev) / allow; if (!(d <= wm)) { wm = d; wma = a; wmr = r; wmv0 = (double)prev; wmv1 = (double)rss; }
      prev = rss;
      if (r2shape && a >= 2) { double allow2 = allow / (double)tss[r] + 8 * DEPS * n, d2 = (r2->data[a - 2][r] - r2->data[a - 1][r]) / allow2; if (!(d2 <= wr)) { wr = d2; wra = a; wrr = r; wrv0 = r2->data[a - 2][r]; wrv1 = r2->data[a - 1][r]; } }
    }
  }
  vx_check(wm <= 1, KEY("monotone-rss", "PLS", cny), "response %d: RSS(a=%d)=%.17g > RSS(a=%d)=%.17g by %g allowances (n=%d p=%d ny=%d xs=%d ys=%d)", wmr, wma, wmv1, wma - 1, wmv0, wm, n, p, ny, xs, ys);
  vx_check(wr <= 1, KEY("monotone-r2", "PLSRegressionStatistics", cny), "response %d: R2(a=%d)=%.17g < R2(a=%d)=%.17g by %g allowances (n=%d p=%d ny=%d xs=%d ys=%d)", wrr, wra, wrv1, wra - 1, wrv0, wr, n, p, ny, xs, ys);
  margin("monotone-rss", wm, 1); margin("monotone-r2", wr, 1);

  /* ---- (iii) "the regression-coefficient form returned for a latent variables predicts exactly what the score-based
   *      predictor predicts, on the training objects and on unseen objects" (one vector is returned: ny = 1 only) */
  if (ny == 1) {
    double wb1 = 0, wb2 = 0; int ab1 = 0, ab2 = 0;
    for (int a = 1; a <= amax; a++) {
      dvector *bt; initDVector(&bt); PLSBetasCoeff(m, (size_t)a, bt); vx_transition(1);
      if ((int)bt->size != p || !hv_allfinite(bt)) { vx_check(0, KEY("betas", "PLSBetasCoeff", "shape-or-nan"), "a=%d: %zu coefficients for %d predictors, or non-finite", a, bt->size, p); DelDVector(&bt); continue; }
      double allow = tol_cos(n, p, kappa, gamma, a) * (double)sy[a][0] + 16 * DEPS * (double)fabsl(back(m, 0, 0)) + 1e-300;
      for (int set = 0; set < 2; set++) {
        const double *D = set ? Z_ : X_; int rows = set ? NZ : n; matrix *yp = set ? ypZ : ypX;
        for (int i = 0; i < rows; i++) {
          ld s = 0;
          for (int j = 0; j < p; j++) { ld e = D[i * p + j]; if ((int)m->xcolaverage->size == p) e -= m->xcolaverage->data[j]; if ((int)m->xcolscaling->size == p) e /= m->xcolscaling->data[j]; s += e * bt->data[j]; }
          double d = fabs((double)back(m, 0, s) - yp->data[i][a - 1]) / allow;
          if (set == 0) { if (!(d <= wb1)) { wb1 = d; ab1 = a; } } else { if (!(d <= wb2)) { wb2 = d; ab2 = a; } }
        }
      }
      DelDVector(&bt);
    }
    vx_check(wb1 <= 1, KEY("betas", "PLSBetasCoeff", "train"), "a=%d: x*beta back-transformed differs from the score-based prediction of a training object by %g allowances (n=%d p=%d xs=%d ys=%d kappa=%g)", ab1, wb1, n, p, xs, ys, kappa);
    vx_check(wb2 <= 1, KEY("betas", "PLSBetasCoeff", "unseen"), "a=%d: x*beta back-transformed differs from the score-based prediction of an unseen object by %g allowances (n=%d p=%d xs=%d ys=%d kappa=%g)", ab2, wb2, n, p, xs, ys, kappa);
    margin("betas-train", wb1, 1); margin("betas-unseen", wb2, 1);
  }

  /* ---- (iv) "predictions of a single centred response are equivariant to affine changes of that response":
   *      ny = 1, y-scaling 0 (centred), and y-scaling -1 for the purely multiplicative maps */
  if (ny == 1 && (ys == 0 || ys == -1)) {
    for (int f = 0; f < 4; f++) {
      double c = AFF[f][0], d0 = AFF[f][1];
      if (ys == -1 && d0 != 0) continue;
      ld y2max = 0; for (int i = 0; i < n; i++) { Y2_[i] = c * Y_[i] + d0; if (fabsl((ld)Y2_[i]) > y2max) y2max = fabsl((ld)Y2_[i]); }
      matrix *my2 = hm_new(n, 1, Y2_); PLSMODEL *m2; NewPLSModel(&m2);
      snprintf(tk, sizeof tk, "nonterm|PLS|affine"); vx_tick_reset(); PLS(mx, my2, (size_t)A, xs, ys, m2, NULL);
      matrix *qX, *qZ; initMatrix(&qX); initMatrix(&qZ);
      int okfit = (int)m2->b->size == A && hv_allfinite(m2->b);
      if (okfit) { PLSYPredictorAllLV(mx, m2, NULL, qX); PLSYPredictorAllLV(mz, m2, NULL, qZ); }
      vx_transition(3);
      char cls[48]; snprintf(cls, sizeof cls, "c=%g,d=%g", c, d0);
      double amp = 1 + (double)(y2max / (fabsl((ld)c) * ycn[0] / sqrtl((ld)n)));
      double wa = 0; int wa_a = 0, wa_set = 0; double v1 = 0, v2 = 0;
      for (int a = 1; okfit && a <= amax; a++) {
        double allow = tol_cos(n, p, kappa, gamma, a) * fabs(c) * (double)sy[a][0] * amp + 16 * DEPS * (double)y2max + 1e-300;
        for (int i = 0; i < n; i++) { double e = c * ypX->data[i][a - 1] + d0, dd = fabs(qX->data[i][a - 1] - e) / allow; if (!(dd <= wa)) { wa = dd; wa_a = a; wa_set = 0; v1 = qX->data[i][a - 1]; v2 = e; } }
        for (int i = 0; i < NZ; i++) { double e = c * ypZ->data[i][a - 1] + d0, dd = fabs(qZ->data[i][a - 1] - e) / allow; if (!(dd <= wa)) { wa = dd; wa_a = a; wa_set = 1; v1 = qZ->data[i][a - 1]; v2 = e; } }
      }
      vx_check(okfit && wa <= 1, KEY("affine", "PLS", cls), "a=%d %s object: prediction after y -> %g*y%+g is %.15g, mapped prediction %.15g (%g allowances; n=%d p=%d xs=%d ys=%d)", wa_a, wa_set ? "unseen" : "training", c, d0, v1, v2, wa, n, p, xs, ys);
      margin("affine", wa, 1);
      DelMatrix(&qX); DelMatrix(&qZ); DelPLSModel(&m2); DelMatrix(&my2);
    }
  }

  vx_outcome(hm_hash(m->recalculated_y, hm_hash(ypZ, (uint64_t)(xs + 1) * 7 + (uint64_t)(ys + 1))));
  DelMatrix(&r2); DelMatrix(&ypX); DelMatrix(&ypZ); DelMatrix(&tz); DelPLSModel(&m); DelMatrix(&mx); DelMatrix(&my); DelMatrix(&mz);
}

int main(int argc, char **argv) {
  vg_seed(getenv("VERIF_SEED") ? atol(getenv("VERIF_SEED")) : 0);
  vx_describe("alphabet", "X shapes {(6,1),(7,2),(8,3),(12,4)} [thorough +(10,4),(9,8),(20,6),(40,10)] spectral kappa {1,10,100} x 2 [3] families, column offsets; "
              "xscaling -1..5 x yscaling -1..5 (all 49 pairs) x ny 1..3 x noise {0 (exact linear),0.1,3 (dominant)}; fit at nlv = rank, every a <= rank judged; 8 unseen objects; "
              "affine response maps (-2,0),(1,5),(0.01,-3),(1e3,7); deviations: Y variant {offsets, correlated, differently scaled}, X variant {offsets, none, 1e3 offset + x50 column}");
  vx_describe("oracle", "(i) fitted Y at nlv=rank vs long-double Householder-QR least squares on the centred problem: tolc*|y_c| ; (ii) RSS(a+1)<=RSS(a), R2 table non-decreasing: 64*eps*n*(p+2)*sum(|y|+|terms|)^2 ; "
              "(iii) ny=1: ((x-avg)/sc).PLSBetasCoeff(a) back-transformed vs PLSYPredictorAllLV, training and unseen: tolc*|ysc| sum|b_k| max|t_k| ; (iv) ny=1, yscaling 0 (-1 for d=0): pred(c*y+d)=c*pred(y)+d ; "
              "tolc = 1e3*eps*(n+p)*kappa(E)/min_{k<=a} gamma_k as in C03, a judged while tolc <= 1e-6");
  vx_describe("tick", "DVectorMatrixDotProduct wrapped, ceiling %ld", vx_tick_ceiling);
  vx_set_shard_depth(3);
  vx_expect_outcomes(1000);
  return vx_main(argc, argv, "C04", body);
}
