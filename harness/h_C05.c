/* C05 -- cross-validation predictions are out-of-sample and fold assignments are partitions.
 *
 * mode 0  partition helpers, exhaustive: random_kfold_group_generator + kfold_group_train_test_split for
 *         all nobj 1..30 x groups 1..nobj x seeds, train_test_split for all nobj x testsize 0.1..0.9 x seeds.
 * mode 1  LeaveOneOut x {PLS, MLR, LDA}
 * mode 2  KFoldCV x {PLS, MLR, LDA} for EVERY user label vector in {0..k-1}^n
 * mode 3  BootstrapRandomGroupsCV x {PLS, MLR, LDA}, nthreads 1..3 (workers of a batch run inline, in order), groups 2..n, iterations {1,2,3,4,6,12}
 *
 * Oracles (modes 1-3), all on the real routines:
 *   refit      the value reported for object i equals (the average over iterations of) the prediction of a model
 *              refitted by the harness through the public API (PLS/MLR/LDA + predictor) on exactly the other folds
 *   leak       re-running the whole cross-validation with object i's own response changed leaves prediction i
 *              bit-identical (for every i)
 *   partition  the folds actually handed to the learner (observed at the public fit/predict entry points through
 *              link-time --wrap seams: rows are identified by content) are disjoint from their test rows, exhaust
 *              the data, and the test sets of one sweep are a partition of all objects
 *   influence  (bootstrap, 1 iteration, regression) the partition is reconstructed black-box from the influence
 *              matrix A[i][j] = "prediction i changes when y_j changes"; {j : A[i][j]=0} must be an equivalence
 *              relation with at most `group` classes and must coincide with the observed test groups
 *   resid      residual column c = prediction column c - observed column (c mod ny)
 *   finite/shape
 */
#include "hcommon.h"
#include "modelvalidation.h"
#include "pls.h"
#include "mlr.h"
#include "lda.h"
#include <pthread.h>
#include <unistd.h>

#define NMAX 32
#define CMAX 12
enum { A_PLS = 0, A_MLR = 1, A_LDA = 2 };
enum { S_LOO = 0, S_KFOLD = 1, S_BOOT = 2 };
static const char *ANAME[] = {"PLS", "MLR", "LDA"};
static const char *SNAME[] = {"LeaveOneOut", "KFoldCV", "BootstrapRandomGroupsCV"};
typedef struct { int algo, n, p, ny, nlv, xa, ya, ncls, fam; } cfg_t;
typedef struct { int ntr, tr[NMAX], nte, te[NMAX], bad; } fold_t;

/* ------------------------------------------------------------------ seams */
typedef struct { int kind; void *model; int nrow; signed char id[NMAX]; char yok; } rec_t;
#define LOGMAX 4096
static rec_t LOGR[LOGMAX];
static volatile int NLOG, LOG_OVER, IN_CV, NONTERM;
static volatile long TICKS;
static pthread_mutex_t LOGM = PTHREAD_MUTEX_INITIALIZER;
static pthread_t MAIN_T;
static matrix *GX, *GY;
static char TICKKEY[120] = "nonterm|?";

static int row_id(const double *r, size_t p) {
  for (size_t i = 0; i < GX->row; i++) if (memcmp(GX->data[i], r, p * sizeof(double)) == 0) return (int)i;
  return -1;
}
/* bootstrap scheme with several workers: each worker is one complete sweep; to keep the fold log sweep-by-sweep the
 * workers of a batch are run inline, one after the other, in creation order (same library logic, incl. the merge of the
 * worker results and the final division; schedule independence itself belongs to C06) */
static int INLINE_THREADS;
int __real_pthread_create(pthread_t *, const pthread_attr_t *, void *(*)(void *), void *);
int __real_pthread_join(pthread_t, void **);
int __wrap_pthread_create(pthread_t *t, const pthread_attr_t *a, void *(*fn)(void *), void *arg) {
  if (!INLINE_THREADS) return __real_pthread_create(t, a, fn, arg);
  fn(arg); memset(t, 0, sizeof *t); return 0;
}
int __wrap_pthread_join(pthread_t t, void **r) { if (!INLINE_THREADS) return __real_pthread_join(t, r); if (r) *r = NULL; return 0; }

static void log_call(int kind, matrix *mx, matrix *my, void *model) {
  rec_t r; memset(&r, 0, sizeof r); r.kind = kind; r.model = model; r.yok = 1;
  r.nrow = (int)mx->row; if (r.nrow > NMAX) { r.nrow = NMAX; LOG_OVER = 1; }
  for (int i = 0; i < r.nrow; i++) {
    int id = mx->col == GX->col ? row_id(mx->data[i], mx->col) : -1;
    r.id[i] = (signed char)id;
    if (my && id >= 0 && (my->col != GY->col || my->row != mx->row || memcmp(my->data[i], GY->data[id], my->col * sizeof(double)) != 0)) r.yok = 0;
  }
  pthread_mutex_lock(&LOGM);
  if (NLOG < LOGMAX) LOGR[NLOG++] = r; else LOG_OVER = 1;
  pthread_mutex_unlock(&LOGM);
}
/* thread-safe iteration tick: the library's CV workers are real pthreads, vx_tick is main-thread only */
static void tick_any(void) {
  long t = __sync_add_and_fetch(&TICKS, 1);
  if (t > vx_tick_ceiling) {
    if (pthread_equal(pthread_self(), MAIN_T)) { TICKS = 0; vx_fail_abort(TICKKEY, "iteration tick ceiling %ld exceeded", vx_tick_ceiling); }
    NONTERM = 1; pthread_exit(NULL);
  }
}
void __real_PLS(matrix *, matrix *, size_t, int, int, PLSMODEL *, ssignal *);
void __wrap_PLS(matrix *mx, matrix *my, size_t nlv, int xa, int ya, PLSMODEL *m, ssignal *s) { if (IN_CV) log_call(0, mx, my, m); __real_PLS(mx, my, nlv, xa, ya, m, s); }
void __real_PLSYPredictorAllLV(matrix *, PLSMODEL *, matrix *, matrix *);
void __wrap_PLSYPredictorAllLV(matrix *mx, PLSMODEL *m, matrix *t, matrix *y) { if (IN_CV) log_call(1, mx, NULL, m); __real_PLSYPredictorAllLV(mx, m, t, y); }
void __real_MLR(matrix *, matrix *, MLRMODEL *, ssignal *);
void __wrap_MLR(matrix *mx, matrix *my, MLRMODEL *m, ssignal *s) { if (IN_CV) log_call(0, mx, my, m); __real_MLR(mx, my, m, s); }
void __real_MLRPredictY(matrix *, matrix *, MLRMODEL *, matrix *, matrix *, dvector *, dvector *);
void __wrap_MLRPredictY(matrix *mx, matrix *my, MLRMODEL *m, matrix *py, matrix *pr, dvector *r2, dvector *sd) { if (IN_CV) log_call(1, mx, NULL, m); __real_MLRPredictY(mx, my, m, py, pr, r2, sd); }
void __real_LDA(matrix *, matrix *, LDAMODEL *);
void __wrap_LDA(matrix *mx, matrix *my, LDAMODEL *m) { if (IN_CV) log_call(0, mx, my, m); __real_LDA(mx, my, m); }
void __real_LDAPrediction(matrix *, LDAMODEL *, matrix *, matrix *, matrix *, matrix *);
void __wrap_LDAPrediction(matrix *mx, LDAMODEL *m, matrix *a, matrix *b, matrix *c, matrix *d) { if (IN_CV) log_call(1, mx, NULL, m); __real_LDAPrediction(mx, m, a, b, c, d); }
int __real_randInt(int, int);
int __wrap_randInt(int lo, int hi) { tick_any(); return __real_randInt(lo, hi); }
double __real_calcConvergence(dvector *, dvector *);
double __wrap_calcConvergence(dvector *a, dvector *b) { tick_any(); return __real_calcConvergence(a, b); }

/* optional measurement log (env C05_STATS=file), used for the margins quoted in notes/C05.md */
#include <fcntl.h>
static void stat_line(const char *what, const char *fn, const char *al, double a, double b) {
  static int fd = -2; if (fd == -2) { const char *f = getenv("C05_STATS"); fd = f ? open(f, O_WRONLY | O_CREAT | O_APPEND, 0644) : -1; }
  if (fd < 0) return;
  char buf[200]; int n = snprintf(buf, sizeof buf, "%s %s %s %.6g %.6g\n", what, fn, al, a, b); if (write(fd, buf, (size_t)n) < 0) fd = -1;
}
/* ------------------------------------------------------------------ data */
static void make_data(const cfg_t *c, matrix **Xo, matrix **Yo) {
  int n = c->n, p = c->p, k = c->fam * 31;
  matrix *X = hm_new(n, p, NULL), *Y = hm_new(n, c->ny, NULL);
  for (int i = 0; i < n; i++) for (int j = 0; j < p; j++) X->data[i][j] = 2 * vg_val(k + 1, i, j) + (j + 1);
  if (c->algo == A_LDA) {
    for (int i = 0; i < n; i++) { int lab = i % c->ncls; Y->data[i][0] = lab; X->data[i][0] += 0.9 * lab; if (p > 1) X->data[i][1] -= 0.5 * lab; }
  } else {
    for (int r = 0; r < c->ny; r++) for (int i = 0; i < n; i++) {
      double s = 2 + r;
      for (int j = 0; j < p; j++) s += (1 + vg_val(k + 2, j, r)) * (X->data[i][j] - (j + 1));
      s += 0.3 * vg_val(k + 3, i, r);
      Y->data[i][r] = s * (1 + 0.5 * r);
    }
  }
  *Xo = X; *Yo = Y;
}

static matrix *rows_of(matrix *M, const int *ids, int k) {
  matrix *r = hm_new(k, (int)M->col, NULL);
  for (int i = 0; i < k; i++) memcpy(r->data[i], M->data[ids[i]], M->col * sizeof(double));
  return r;
}
static void sort_ints(int *a, int n) { for (int i = 1; i < n; i++) { int v = a[i], j = i; while (j > 0 && a[j - 1] > v) { a[j] = a[j - 1]; j--; } a[j] = v; } }

/* refit through the public API on f->tr (ascending object order), predict f->te.  out[k][col]; for LDA
 * gap[k] = relative distance between the two best stored scores (ties are never judged) */
static void refit(const cfg_t *c, matrix *X, matrix *Y, const fold_t *f, double out[][CMAX], double *gap, double *kappa) {
  int tr[NMAX]; memcpy(tr, f->tr, sizeof(int) * (size_t)f->ntr); sort_ints(tr, f->ntr);
  matrix *xtr = rows_of(X, tr, f->ntr), *ytr = rows_of(Y, tr, f->ntr), *xte = rows_of(X, f->te, f->nte);
  int ncol = c->ny * c->nlv;
  *kappa = 1;
  if (c->algo != A_LDA) {
    rmat *d = rm_new(f->ntr, c->p + 1);
    for (int i = 0; i < f->ntr; i++) { RM(d, i, 0) = 1; for (int j = 0; j < c->p; j++) RM(d, i, j + 1) = xtr->data[i][j]; }
    *kappa = (double)rm_cond2(d); rm_free(d);
  }
  if (c->algo == A_PLS) {
    PLSMODEL *m; NewPLSModel(&m); PLS(xtr, ytr, (size_t)c->nlv, c->xa, c->ya, m, NULL);
    matrix *yp; initMatrix(&yp); PLSYPredictorAllLV(xte, m, NULL, yp);
    for (int k = 0; k < f->nte; k++) for (int j = 0; j < ncol; j++) out[k][j] = ((int)yp->row == f->nte && (int)yp->col == ncol) ? yp->data[k][j] : NAN;
    DelMatrix(&yp); DelPLSModel(&m);
  } else if (c->algo == A_MLR) {
    MLRMODEL *m; NewMLRModel(&m); MLR(xtr, ytr, m, NULL);
    matrix *yp; initMatrix(&yp); MLRPredictY(xte, NULL, m, yp, NULL, NULL, NULL);
    for (int k = 0; k < f->nte; k++) for (int j = 0; j < ncol; j++) out[k][j] = ((int)yp->row == f->nte && (int)yp->col == ncol) ? yp->data[k][j] : NAN;
    DelMatrix(&yp); DelMLRModel(&m);
  } else {
    LDAMODEL *m; NewLDAModel(&m); LDA(xtr, ytr, m);
    matrix *pf, *pr, *mn, *cl; initMatrix(&pf); initMatrix(&pr); initMatrix(&mn); initMatrix(&cl);
    LDAPrediction(xte, m, pf, pr, mn, cl);
    for (int k = 0; k < f->nte; k++) {
      out[k][0] = (int)cl->row == f->nte ? cl->data[k][0] : NAN;
      double b1 = -INFINITY, b2 = -INFINITY, mag = 1;
      for (size_t j = 0; j < pr->col; j++) { double v = pr->data[k][j]; if (fabs(v) > mag) mag = fabs(v); if (v > b1) { b2 = b1; b1 = v; } else if (v > b2) b2 = v; }
      gap[k] = (b1 - b2) / mag; if (!(gap[k] == gap[k])) gap[k] = 0;
    }
    DelMatrix(&pf); DelMatrix(&pr); DelMatrix(&mn); DelMatrix(&cl); DelLDAModel(&m);
  }
  DelMatrix(&xtr); DelMatrix(&ytr); DelMatrix(&xte);
}

/* ------------------------------------------------------------------ one cross-validation call */
typedef struct { int scheme, nthreads, groups, iters; const int *labels; } call_t;

static void run_cv(const cfg_t *c, const call_t *k, matrix *X, matrix *Y, matrix **pred, matrix **res) {
  MODELINPUT in = initModelInput();
  in.mx = X; in.my = Y; in.nlv = c->algo == A_PLS ? (size_t)c->nlv : 0; in.xautoscaling = (size_t)c->xa; in.yautoscaling = (size_t)c->ya;
  AlgorithmType at = c->algo == A_PLS ? _PLS_ : c->algo == A_MLR ? _MLR_ : _LDA_;
  initMatrix(pred); initMatrix(res);
  snprintf(TICKKEY, sizeof TICKKEY, "nonterm|%s|%s", SNAME[k->scheme], ANAME[c->algo]);
  NLOG = 0; LOG_OVER = 0; NONTERM = 0; TICKS = 0;
  srand_(1u);
  IN_CV = 1;
  if (k->scheme == S_LOO) LeaveOneOut(&in, at, *pred, *res, (size_t)k->nthreads, NULL, 0);
  else if (k->scheme == S_KFOLD) {
    uivector *g; NewUIVector(&g, (size_t)c->n); for (int i = 0; i < c->n; i++) g->data[i] = (size_t)k->labels[i];
    KFoldCV(&in, g, at, *pred, *res, (size_t)k->nthreads, NULL, 0);
    DelUIVector(&g);
  } else { INLINE_THREADS = k->nthreads > 1; BootstrapRandomGroupsCV(&in, (size_t)k->groups, (size_t)k->iters, at, *pred, *res, (size_t)k->nthreads, NULL, 0); INLINE_THREADS = 0; }
  IN_CV = 0;
  vx_transition(1);
  if (NONTERM) vx_fail_abort(TICKKEY, "a cross-validation worker exceeded the iteration tick ceiling %ld", vx_tick_ceiling);
}

/* folds seen at the learner's entry points: every predict call paired with the latest fit of the same model */
static int folds_from_log(fold_t *F, int maxf, int *unpaired) {
  int nf = 0; *unpaired = 0;
  for (int i = 0; i < NLOG; i++) if (LOGR[i].kind == 1) {
    int j = i - 1; while (j >= 0 && !(LOGR[j].kind == 0 && LOGR[j].model == LOGR[i].model)) j--;
    if (j < 0) { (*unpaired)++; continue; }
    if (nf >= maxf) break;
    fold_t *f = &F[nf++]; memset(f, 0, sizeof *f);
    f->ntr = LOGR[j].nrow; f->nte = LOGR[i].nrow; if (!LOGR[j].yok) f->bad |= 1;
    for (int t = 0; t < f->ntr; t++) { f->tr[t] = LOGR[j].id[t]; if (f->tr[t] < 0) f->bad |= 2; }
    for (int t = 0; t < f->nte; t++) { f->te[t] = LOGR[i].id[t]; if (f->te[t] < 0) f->bad |= 2; }
  }
  return nf;
}

#define MAXF 512
static fold_t F[MAXF];

static void cv_case(const cfg_t *c, const call_t *k, int delta_choice) {
  int n = c->n, ncol = c->ny * c->nlv;
  const char *fn = SNAME[k->scheme], *al = ANAME[c->algo];
  char key[160];
  matrix *X, *Y; make_data(c, &X, &Y); GX = X; GY = Y;
  matrix *pred, *res;
  run_cv(c, k, X, Y, &pred, &res);

  /* ---- shape, finiteness, residual definition */
  snprintf(key, sizeof key, "shape|%s|%s", fn, al);
  int shp = (int)pred->row == n && (int)pred->col == ncol && (int)res->row == n && (int)res->col == ncol;
  vx_check(shp, key, "predicted_y %zux%zu residuals %zux%zu, expected %dx%d", pred->row, pred->col, res->row, res->col, n, ncol);
  if (!shp) { vx_outcome(7); return; }
  snprintf(key, sizeof key, "finite|%s|%s", fn, al);
  vx_check(hm_allfinite(pred), key, "a prediction is not finite (n=%d groups=%d iterations=%d)", n, k->groups, k->iters);
  double scale = fmax(1.0, fmax(hm_maxabs(Y), hm_maxabs(pred)));
  {
    int badc = -1, badi = -1; double worst = 0;
    for (int i = 0; i < n; i++) for (int j = 0; j < ncol; j++) {
      double want = pred->data[i][j] - Y->data[i][j % c->ny], d = fabs(res->data[i][j] - want);
      if (!(d <= 4 * DEPS * scale) && (d > worst || d != d)) { worst = d; badc = j; badi = i; }
    }
    snprintf(key, sizeof key, "resid-col|%s|%s", fn, (c->ny > 1 && c->nlv > 1) ? "ny>1,nlv>1" : "ny=1-or-nlv=1");
    vx_check(badc < 0, key, "%s ny=%d nlv=%d: residual[%d][%d]=%.17g but prediction minus observed column (col mod ny) = %.17g", al, c->ny, c->nlv, badi, badc,
             badc >= 0 ? res->data[badi][badc] : 0.0, badc >= 0 ? pred->data[badi][badc] - Y->data[badi][badc % c->ny] : 0.0);
  }

  /* ---- folds observed at the seam */
  if (NLOG == 0 || LOG_OVER) { fprintf(stderr, "C05: seam lost (%d fit/predict calls observed, overflow=%d)\n", NLOG, LOG_OVER); _exit(2); }
  int unpaired, nf = folds_from_log(F, MAXF, &unpaired);
  snprintf(key, sizeof key, "train-test|%s|%s", fn, al);
  vx_check(unpaired == 0 && nf > 0, key, "%d predictor calls without a preceding fit of the same model", unpaired);
  int sweeps = 0, leftover = 0, part_ok = 1; char seen[NMAX]; memset(seen, 0, sizeof seen); int cover = 0, groups_in_sweep = 0, maxgroups = 0;
  for (int f = 0; f < nf; f++) {
    fold_t *q = &F[f]; char in_tr[NMAX] = {0}, in_te[NMAX] = {0}; int ok = !q->bad, un = 0;
    for (int t = 0; ok && t < q->ntr; t++) { if (in_tr[q->tr[t]]) ok = 0; in_tr[q->tr[t]] = 1; }
    for (int t = 0; ok && t < q->nte; t++) { if (in_te[q->te[t]] || in_tr[q->te[t]]) ok = 0; in_te[q->te[t]] = 1; }
    for (int i = 0; ok && i < n; i++) un += in_tr[i] || in_te[i];
    vx_check(ok && un == n, key, "fold %d: training rows (%d) and test rows (%d) are not a disjoint cover of the %d objects with their own responses (flags %d)", f, q->ntr, q->nte, n, q->bad);
    if (!(ok && un == n)) { part_ok = 0; continue; }
    if (q->nte > 0) groups_in_sweep++;
    for (int t = 0; t < q->nte; t++) { if (seen[q->te[t]]) part_ok = 0; seen[q->te[t]] = 1; cover++; }
    if (cover >= n) { sweeps++; if (groups_in_sweep > maxgroups) maxgroups = groups_in_sweep; memset(seen, 0, sizeof seen); cover = 0; groups_in_sweep = 0; }
  }
  leftover = cover;
  /* the bootstrap scheme runs whole batches of nthreads sweeps: ceil(iterations/nthreads)*nthreads of them */
  int want_sweeps = k->scheme == S_BOOT ? ((k->iters + k->nthreads - 1) / k->nthreads) * k->nthreads : 1;
  snprintf(key, sizeof key, "partition|%s|%s", fn, al);
  vx_check(part_ok && leftover == 0 && sweeps == want_sweeps, key, "test sets of the %d observed folds do not form %d partition(s) of the %d objects (complete sweeps %d, leftover %d)", nf, want_sweeps, n, sweeps, leftover);
  if (k->scheme == S_BOOT) vx_check(maxgroups <= k->groups, key, "%d non-empty groups in one sweep, %d requested", maxgroups, k->groups);
  int usable = part_ok && leftover == 0 && sweeps == want_sweeps;

  /* ---- the folds the statement prescribes (LOO, KFold) must be the ones used */
  if (usable && k->scheme != S_BOOT) {
    int okk = 1;
    for (int f = 0; f < nf && okk; f++) {
      fold_t *q = &F[f];
      if (k->scheme == S_LOO) { if (q->nte != 1) okk = 0; }
      else for (int t = 0; t < q->nte; t++) { if (k->labels[q->te[t]] != k->labels[q->te[0]]) okk = 0; }
      if (k->scheme == S_KFOLD && q->nte > 0) { int cnt = 0; for (int i = 0; i < n; i++) cnt += k->labels[i] == k->labels[q->te[0]]; if (cnt != q->nte) okk = 0; }
    }
    snprintf(key, sizeof key, "folds|%s|%s", fn, al);
    vx_check(okk, key, "the test sets handed to the learner are not the prescribed folds");
    if (!okk) usable = 0;
  }

  /* ---- refit oracle: expected value of every object, summed over sweeps */
  static double expv[NMAX][CMAX], tol[NMAX], out[NMAX][CMAX], gap[NMAX]; static char judge[NMAX];
  memset(expv, 0, sizeof expv); memset(tol, 0, sizeof tol); for (int i = 0; i < n; i++) judge[i] = 1;
  double worst_ratio = 0;
  if (usable) {
    for (int f = 0; f < nf; f++) {
      fold_t *q = &F[f]; if (q->nte == 0) continue;
      double kap; refit(c, X, Y, q, out, gap, &kap);
      for (int t = 0; t < q->nte; t++) {
        int i = q->te[t];
        for (int j = 0; j < ncol; j++) expv[i][j] += out[t][j];
        if (c->algo == A_LDA) { if (gap[t] < 1e-6) judge[i] = 0; }
        else { if (!(kap <= 1e3)) judge[i] = 0; tol[i] += 1e3 * DEPS * n * kap * kap * scale; }
      }
    }
    int bi = -1, bj = -1;
    for (int i = 0; i < n; i++) if (judge[i]) for (int j = 0; j < ncol; j++) {
      double e = expv[i][j] / want_sweeps, d = fabs(pred->data[i][j] - e), a = c->algo == A_LDA ? 1e-12 : tol[i] / want_sweeps;
      if (!(d <= a)) { if (bi < 0) { bi = i; bj = j; } }
      if (a > 0 && d / a > worst_ratio) worst_ratio = d / a;
    }
    snprintf(key, sizeof key, "refit|%s|%s", fn, al);
    vx_check(bi < 0, key, "%s n=%d p=%d ny=%d nlv=%d threads=%d groups=%d iterations=%d: object %d column %d reported %.17g, model refitted on the other folds predicts %.17g (allowance %.3g)",
             al, n, c->p, c->ny, c->nlv, k->nthreads, k->groups, k->iters, bi, bj, bi >= 0 ? pred->data[bi][bj] : 0.0, bi >= 0 ? expv[bi][bj] / want_sweeps : 0.0, bi >= 0 ? tol[bi] / want_sweeps : 0.0);
    vx_log("refit: worst |reported-refit|/allowance = %.3g\n", worst_ratio);
    { double wd = 0, wt = 0; int nj = 0; for (int i = 0; i < n; i++) if (judge[i]) { nj++; if (tol[i] / want_sweeps > wt) wt = tol[i] / want_sweeps; for (int j = 0; j < ncol; j++) wd = fmax(wd, fabs(pred->data[i][j] - expv[i][j] / want_sweeps)); }
      stat_line("refit", fn, al, wd, wt); stat_line("judged", fn, al, nj, n); }
    if (c->algo == A_LDA && k->scheme != S_BOOT) {
      int okl = 1; for (int i = 0; i < n; i++) { double v = pred->data[i][0]; if (v != floor(v) || v < 0 || v >= c->ncls) okl = 0; }
      snprintf(key, sizeof key, "label|%s|LDA", fn);
      vx_check(okl, key, "a predicted label does not occur among the training labels 0..%d", c->ncls - 1);
    }
  }

  /* ---- own-response invariance and influence matrix: n more complete cross-validations */
  static char A[NMAX][NMAX]; int ambiguous = 0, leak_i = -1; double leak_d = 0;
  double delta = delta_choice ? -37.0 : 1.0;
  for (int j = 0; j < n; j++) {
    matrix *Y2 = hm_new(n, c->ny, NULL), *p2, *r2;
    for (int i = 0; i < n; i++) memcpy(Y2->data[i], Y->data[i], sizeof(double) * (size_t)c->ny);
    if (c->algo == A_LDA) Y2->data[j][0] = (double)(((int)Y->data[j][0] + 1 + delta_choice % (c->ncls - 1)) % c->ncls);
    else for (int r = 0; r < c->ny; r++) Y2->data[j][r] += delta * (1 + 0.25 * r);
    if (c->algo == A_LDA && Y2->data[j][0] == Y->data[j][0]) { for (int i = 0; i < n; i++) A[i][j] = i == j ? 0 : 2; DelMatrix(&Y2); continue; }
    GY = Y2;
    run_cv(c, k, X, Y2, &p2, &r2);
    GY = Y;
    int same_shape = p2->row == pred->row && p2->col == pred->col;
    for (int i = 0; i < n; i++) {
      double d = 0; for (int q = 0; same_shape && q < ncol; q++) { double e = fabs(p2->data[i][q] - pred->data[i][q]); if (e != e) e = INFINITY; if (e > d) d = e; }
      if (!same_shape) d = INFINITY;
      A[i][j] = d == 0 ? 0 : d > 1e-9 * fmax(scale, fabs(delta)) ? 1 : 2;
      if (i == j) { if (A[i][j] == 1 && leak_i < 0) { leak_i = i; leak_d = d; } if (A[i][j] == 2) ambiguous++; }
    }
    DelMatrix(&Y2); DelMatrix(&p2); DelMatrix(&r2);
  }
  { double mininf = INFINITY; int amb = 0; for (int i = 0; i < n; i++) for (int j = 0; j < n; j++) if (A[i][j] == 2 && c->algo != A_LDA) amb++;
    stat_line("ambiguous-influence", fn, al, amb, ambiguous); (void)mininf; }
  snprintf(key, sizeof key, "leak|%s|%s", fn, al);
  vx_check(leak_i < 0, key, "%s n=%d threads=%d groups=%d iterations=%d: the prediction of object %d changes by %.3g when its own response is changed", al, n, k->nthreads, k->groups, k->iters, leak_i, leak_d);

  if (usable && k->scheme == S_BOOT && want_sweeps == 1 && c->algo != A_LDA && leak_i < 0) {
    for (int i = 0; i < n; i++) for (int j = 0; j < n; j++) if (A[i][j] == 2) ambiguous++;
    if (!ambiguous) {
      /* R(i,j) := y_j has no influence on prediction i.  Equivalence relation whose classes are the test groups. */
      int eq = 1, nclass = 0; char rep[NMAX]; memset(rep, 0, sizeof rep);
      for (int i = 0; i < n; i++) { if (A[i][i]) eq = 0; for (int j = 0; j < n; j++) { if (A[i][j] != A[j][i]) eq = 0; for (int t = 0; t < n; t++) if (!A[i][j] && !A[j][t] && A[i][t]) eq = 0; } }
      for (int i = 0; i < n; i++) { int first = 1; for (int j = 0; j < i; j++) if (!A[i][j]) first = 0; nclass += first; }
      int match = 1;
      for (int f = 0; f < nf; f++) for (int a = 0; a < F[f].nte; a++) for (int i = 0; i < n; i++) {
        int in = 0; for (int b = 0; b < F[f].nte; b++) if (F[f].te[b] == i) in = 1;
        if ((A[F[f].te[a]][i] == 0) != in) match = 0;
      }
      snprintf(key, sizeof key, "influence-partition|%s|%s", fn, al);
      vx_check(eq && nclass <= k->groups && match, key, "n=%d groups=%d: objects whose response does not influence a prediction do not form the test groups (equivalence %d, classes %d, equals observed folds %d)", n, k->groups, eq, nclass, match);
    }
  }
  /* ---- optional outputs: each of the two output matrices may be NULL; what is returned in the other one must not depend on it
   * (same seed, same schedule: bit for bit).  PLS and MLR only (the LDA workers take no residual matrix). */
  if (c->algo != A_LDA && delta_choice == 0) {
    MODELINPUT in = initModelInput();
    in.mx = X; in.my = Y; in.nlv = c->algo == A_PLS ? (size_t)c->nlv : 0; in.xautoscaling = (size_t)c->xa; in.yautoscaling = (size_t)c->ya;
    AlgorithmType at = c->algo == A_PLS ? _PLS_ : _MLR_;
    for (int only = 0; only < 2; only++) {        /* 0: residuals only, 1: predictions only */
      matrix *o; initMatrix(&o); NLOG = 0; LOG_OVER = 0; NONTERM = 0; TICKS = 0; srand_(1u); IN_CV = 1;
      matrix *op = only ? o : NULL, *orr = only ? NULL : o;
      if (k->scheme == S_LOO) LeaveOneOut(&in, at, op, orr, (size_t)k->nthreads, NULL, 0);
      else if (k->scheme == S_KFOLD) { uivector *g; NewUIVector(&g, (size_t)c->n); for (int i = 0; i < c->n; i++) g->data[i] = (size_t)k->labels[i]; KFoldCV(&in, g, at, op, orr, (size_t)k->nthreads, NULL, 0); DelUIVector(&g); }
      else { INLINE_THREADS = k->nthreads > 1; BootstrapRandomGroupsCV(&in, (size_t)k->groups, (size_t)k->iters, at, op, orr, (size_t)k->nthreads, NULL, 0); INLINE_THREADS = 0; }
      IN_CV = 0; vx_transition(1);
      const matrix *want = only ? pred : res; int same = o->row == want->row && o->col == want->col; double dmax = 0;
      for (size_t i = 0; same && i < o->row; i++) for (size_t j = 0; j < o->col; j++) { double a = o->data[i][j], b = want->data[i][j]; if (!(a == b || (a != a && b != b))) { double d = fabs(a - b); if (!(d <= dmax)) dmax = d; } }
      snprintf(key, sizeof key, "optional-output|%s|%s", fn, only ? "predictions-only" : "residuals-only");
      vx_check(same && dmax == 0, key, "%s n=%d: the %s returned when the other output is NULL differ from the call with both outputs (%zux%zu vs %zux%zu, max difference %g)", al, n, only ? "predictions" : "residuals", o->row, o->col, want->row, want->col, dmax);
      DelMatrix(&o);
    }
  }
  uint64_t h = hm_hash(pred, (uint64_t)(k->scheme * 16 + c->algo)); h = hm_hash(res, h);
  vx_outcome(h);
  DelMatrix(&pred); DelMatrix(&res); DelMatrix(&X); DelMatrix(&Y);
}

/* ------------------------------------------------------------------ configuration alphabets */
/* level -1: minimal (two responses only), 0: small quick alphabet (KFold, bootstrap), 1: quick LOO, 2: thorough */
static void choose_learner(cfg_t *c, int nalgo, int level) {
  memset(c, 0, sizeof *c); c->ny = 1; c->nlv = 1; c->ncls = 0;
  c->algo = vx_choose("algo", nalgo);
  if (c->algo == A_PLS) {
    c->p = 2 + vx_choose("p-2", level == 2 ? 3 : level == 1 ? 2 : 1); c->nlv = 1 + vx_choose("nlv-1", level == 2 ? 3 : 2); c->ny = level < 0 ? 2 : 1 + vx_choose("ny-1", level == 2 ? 3 : 2);
    c->xa = level <= 0 ? 1 : vx_choose("xscaling", 2); c->ya = level == 2 ? vx_choose("yscaling", 2) : 0;
    vx_require(c->nlv <= c->p);
  } else if (c->algo == A_MLR) {
    c->p = 1 + vx_choose("p-1", level == 2 ? 6 : level == 1 ? 3 : 2); c->ny = level < 0 ? 2 : 1 + vx_choose("ny-1", level == 0 ? 2 : 3);
  } else {
    c->p = 1 + vx_choose("p-1", 2); c->ncls = 2 + vx_choose("ncls-2", 2);
  }
}
static int min_class(const cfg_t *c) { return c->n / c->ncls; }

static void mode_loo(void) {
  static const int NQ[] = {6, 7, 9, 12}, NT[] = {6, 7, 9, 12, 20, 30};
  int T = vx_thorough();
  int n = T ? NT[vx_choose("n", 6)] : NQ[vx_choose("n", 4)];
  int big = n > 12;                             /* 20 and 30 objects: small learner alphabet, one perturbation size */
  int tc = vx_choose("threads", T ? 5 : 4);
  int nthreads = tc == 0 ? 1 : tc == 1 ? 2 : tc == 2 ? 3 : tc == 3 ? n + 1 : 8;
  int dl = big ? 0 : vx_choose("delta", 2);
  cfg_t c; choose_learner(&c, 3, big ? 0 : T ? 2 : 1); c.n = n;
  c.fam = vx_choose("fam", (T && !big) ? 2 : 1);
  vx_require(c.n - 1 >= c.p + 2);
  if (c.algo == A_LDA) vx_require(min_class(&c) >= 3 && c.n - 2 - c.ncls >= c.p);
  call_t k = {S_LOO, nthreads, 0, 1, NULL};
  cv_case(&c, &k, dl);
}

static void mode_kfold(void) {
  int T = vx_thorough();
  int n = T ? 6 + vx_choose("n-6", 2) : 6;
  int nlab = n == 7 ? 4 : 3;
  static int lab[NMAX]; int cnt[8] = {0};
  for (int i = 0; i < n; i++) { lab[i] = vx_choose("label", nlab); cnt[lab[i]]++; }
  /* n = 7 ({0..3}^7, 16384 label vectors): two worker threads (fewer threads than groups and a ragged last batch), small learner alphabet */
  int tc = n == 7 ? 1 : vx_choose("threads", 3), nthreads = tc == 0 ? 1 : tc == 1 ? 2 : 4;
  int dl = 0;
  cfg_t c; choose_learner(&c, n == 7 ? 2 : 3, n == 7 ? -1 : T ? 1 : 0); c.n = n;
  /* the statement's refit is undefined when a training set cannot carry the model */
  for (int g = 0; g < nlab; g++) if (cnt[g]) vx_require(c.n - cnt[g] >= c.p + 2);
  if (c.algo == A_LDA) for (int g = 0; g < nlab; g++) if (cnt[g]) {   /* every class keeps >= 2 members outside every fold (class of object i is i mod ncls) */
    int left[4] = {0, 0, 0, 0}; for (int i = 0; i < n; i++) if (lab[i] != g) left[i % c.ncls]++;
    for (int q = 0; q < c.ncls; q++) vx_require(left[q] >= 2);
    vx_require(c.n - cnt[g] - c.ncls >= c.p);
  }
  call_t k = {S_KFOLD, nthreads, 0, 1, lab};
  cv_case(&c, &k, dl);
}

static void mode_boot(void) {
  static const int NQ[] = {6, 8, 9}, NT[] = {6, 8, 9, 12};
  static const int IT[] = {1, 2, 3, 12, 4, 6};
  int T = vx_thorough();
  int n = T ? NT[vx_choose("n", 4)] : NQ[vx_choose("n", 3)];
  int g = 1 + vx_choose("groups-1", n);
  int it = IT[vx_choose("iterations", T ? 6 : 4)];
  cfg_t c; choose_learner(&c, 3, T ? 1 : 0); c.n = n;
  c.fam = vx_choose("fam", (T && n < 12) ? 2 : 1);
  int dl = c.algo == A_LDA ? vx_choose("delta", 2) : 0;
  int t = (c.n + g - 1) / g;
  /* groups = 1 leaves an empty training set, small group counts leave too few rows: not judged here (DESIGN 6.0) */
  vx_require(c.n - t >= c.p + 2);
  if (c.algo == A_LDA) vx_require(min_class(&c) - 1 - t >= 1 && c.n - t - 1 - c.ncls >= c.p);
  int nthr = 1 + vx_choose("threads-1", 3);
  call_t k = {S_BOOT, nthr, g, it, NULL};
  cv_case(&c, &k, dl);
}

/* ------------------------------------------------------------------ mode 0: the partition helpers */
static void mode_helpers(void) {
  int which = vx_choose("helper", 2), T = vx_thorough();
  int n = 1 + vx_choose("nobj-1", 30);
  matrix *X = hm_new(n, 2, NULL), *Y = hm_new(n, 1, NULL);
  for (int i = 0; i < n; i++) { X->data[i][0] = i + 0.25 * vg_val(5, i, 0); X->data[i][1] = 100 + i + vg_val(5, i, 1); Y->data[i][0] = -1000 - i; }
  if (which == 0) {
    int g = 1 + vx_choose("groups-1", n); unsigned int seed = (unsigned int)vx_choose("seed", T ? 64 : 8);
    matrix *gid; initMatrix(&gid);
    snprintf(TICKKEY, sizeof TICKKEY, "nonterm|random_kfold_group_generator|rejection-sampling"); TICKS = 0;
    random_kfold_group_generator(gid, (size_t)g, (size_t)n, &seed); vx_transition(1);
    int cols = (n + g - 1) / g;
    vx_check((int)gid->row == g && (int)gid->col == cols, "shape|random_kfold_group_generator", "nobj=%d groups=%d: gid is %zux%zu, expected %dx%d", n, g, gid->row, gid->col, g, cols);
    int cnt[NMAX] = {0}, okc = 1, empty = 0;
    for (size_t i = 0; i < gid->row; i++) for (size_t j = 0; j < gid->col; j++) {
      double v = gid->data[i][j];
      if (v == -1) { empty++; continue; }
      if (v != floor(v) || v < 0 || v >= n) { okc = 0; continue; }
      cnt[(int)v]++;
    }
    for (int i = 0; i < n; i++) if (cnt[i] != 1) okc = 0;
    vx_check(okc && empty == (int)(gid->row * gid->col) - n, "partition|random_kfold_group_generator", "nobj=%d groups=%d seed=%u: the ids in the group matrix are not each of 0..%d exactly once (%d empty slots)", n, g, seed, n - 1, empty);
    if (okc) for (size_t q = 0; q < gid->row; q++) {
      matrix *xtr, *ytr, *xte, *yte; initMatrix(&xtr); initMatrix(&ytr); initMatrix(&xte); initMatrix(&yte);
      kfold_group_train_test_split(X, Y, gid, q, xtr, ytr, xte, yte); vx_transition(1);
      int members[NMAX], nm = 0; for (size_t j = 0; j < gid->col; j++) if (gid->data[q][j] != -1) members[nm++] = (int)gid->data[q][j];
      int ok = (int)xte->row == nm && (int)yte->row == nm && (int)xtr->row == n - nm && (int)ytr->row == n - nm;
      if (nm > 0) ok = ok && xte->col == 2 && yte->col == 1; if (n - nm > 0) ok = ok && xtr->col == 2 && ytr->col == 1;
      for (int t = 0; ok && t < nm; t++) if (memcmp(xte->data[t], X->data[members[t]], 16) || yte->data[t][0] != Y->data[members[t]][0]) ok = 0;
      char used[NMAX] = {0}; for (int t = 0; t < nm; t++) used[members[t]] = 1;
      GX = X;
      for (int t = 0; ok && t < n - nm; t++) { int id = row_id(xtr->data[t], 2); if (id < 0 || used[id] || ytr->data[t][0] != Y->data[id][0]) ok = 0; else used[id] = 1; }
      vx_check(ok, "split|kfold_group_train_test_split", "nobj=%d groups=%d group %zu (%d members): test rows are not that group's rows in order or training rows are not exactly the others", n, g, q, nm);
      DelMatrix(&xtr); DelMatrix(&ytr); DelMatrix(&xte); DelMatrix(&yte);
    }
    vx_outcome(hm_hash(gid, 3)); DelMatrix(&gid);
  } else {
    int tsi = vx_choose("testsize", 9); unsigned int seed = (unsigned int)vx_choose("seed", T ? 64 : 8);
    double ts = (tsi + 1) / 10.0;
    matrix *xtr, *ytr, *xte, *yte; initMatrix(&xtr); initMatrix(&ytr); initMatrix(&xte); initMatrix(&yte);
    uivector *ids; initUIVector(&ids);
    snprintf(TICKKEY, sizeof TICKKEY, "nonterm|train_test_split|rejection-sampling"); TICKS = 0;
    train_test_split(X, Y, ts, xtr, ytr, xte, yte, ids, &seed); vx_transition(1);
    int nt = (int)ids->size, ok = nt <= n && (int)xte->row == nt && (int)yte->row == nt && (int)xtr->row == n - nt && (int)ytr->row == n - nt;
    char used[NMAX] = {0};
    for (int t = 0; ok && t < nt; t++) { size_t id = ids->data[t]; if (id >= (size_t)n || used[id]) { ok = 0; break; } used[id] = 1; if (memcmp(xte->data[t], X->data[id], 16) || yte->data[t][0] != Y->data[id][0]) ok = 0; }
    GX = X;
    for (int t = 0; ok && t < n - nt; t++) { int id = row_id(xtr->data[t], 2); if (id < 0 || used[id] || ytr->data[t][0] != Y->data[id][0]) ok = 0; else used[id] = 1; }
    vx_check(ok, "split|train_test_split", "nobj=%d testsize=%.1f seed=%u: %d test ids; test and training rows are not a disjoint exhaustive copy of the data", n, ts, seed, nt);
    uint64_t h = 5; for (int t = 0; t < nt; t++) h = vx_hash(&ids->data[t], sizeof(size_t), h);
    vx_outcome(h);
    DelMatrix(&xtr); DelMatrix(&ytr); DelMatrix(&xte); DelMatrix(&yte); DelUIVector(&ids);
  }
  DelMatrix(&X); DelMatrix(&Y);
}

static void body(void) {
  MAIN_T = pthread_self();
  int mode = vx_choose("mode", 4);
  { const char *only = getenv("C05_MODE"); if (only && atoi(only) != mode) vx_require(0); }   /* measurement aid only */
  switch (mode) {
    case 0: mode_helpers(); break;
    case 1: mode_loo(); break;
    case 2: mode_kfold(); break;
    case 3: mode_boot(); break;
  }
}

int main(int argc, char **argv) {
  vg_seed(getenv("VERIF_SEED") ? atol(getenv("VERIF_SEED")) : 0);
  vx_describe("alphabet", "helpers: nobj 1..30 x groups 1..nobj x seeds 0..7[63], testsize .1...9; LOO x {PLS nlv<=2[3] ny<=2[3] scaling, MLR p<=3[6] ny<=3, LDA 2-3 classes} x n {6,7,9,12[,20,30]} x threads {1,2,3,n+1[,8]}; KFoldCV x {PLS,MLR,LDA} x every label vector in {0,1,2}^6 x threads {1,2,4} [and {0..3}^7 x 2 threads]; Bootstrap x {PLS,MLR,LDA} x n {6,8,9[,12]} x groups 1..n x iterations {1,2,3,4,6,12}, 1 thread; each followed by n re-runs with one response changed");
  vx_describe("oracle", "reported value = (mean over sweeps of) public-API refit on the other folds (allowance 1e3*eps*n*kappa^2*scale, kappa of the training design by long-double SVD); own-response change leaves own prediction bit-identical; folds observed at PLS/MLR/LDA entry points are disjoint, exhaustive partitions; influence-matrix reconstruction of the bootstrap partition; residual = prediction - observed[col mod ny]; each output returned alone (other one NULL) = the call with both outputs, bit for bit");
  vx_set_shard_depth(5);
  vx_expect_outcomes(500);
  return vx_main(argc, argv, "C05", body);
}
