/* C06 -- validation results are deterministic under EVERY thread schedule and thread count.
 *
 * The library's worker threads are run under the cooperative scheduler (engine/vsched.c); scheduling
 * points are thread creation / exit / join and every entry into srand_/rand_/randInt/randDouble
 * (link-time wrappers below).  All interleavings with at most B preemptions are enumerated and, for
 * each complete schedule, the result must be bit-identical to the result of the default schedule
 * (workers run one after the other) and equal to rounding to the single-thread run.
 *
 * Built twice: ASan + scheduler (exhaustive schedules), and -DC06_FREE with clang ThreadSanitizer
 * (free-running real threads; any reported data race kills the worker = violation).
 */
#include "hcommon.h"
#include "vsched.h"
#include "modelvalidation.h"
#include "clustering.h"
#include "pls.h"
#include <pthread.h>

/* ---------------------------------------------------------------- the clock is an input too */
/* an unseeded generator falls back to time(NULL): the harness owns that source of nondeterminism.  Every call returns
 * a new value (time moves on), counted from a fixed origin that is reset with each run of a driver, so executions are
 * reproducible while any dependence of a result on the clock shows up as a dependence on the schedule. */
#include <time.h>
static long CLOCK_TICKS;
time_t __wrap_time(time_t *t) { time_t v = (time_t)(1700000000L + 7L * __atomic_fetch_add(&CLOCK_TICKS, 1, __ATOMIC_SEQ_CST)); if (t) *t = v; return v; }

/* ---------------------------------------------------------------- RNG seams */
void __real_srand_(uint32_t); double __real_rand_(void); int __real_randInt(int, int); double __real_randDouble(double, double);
static uint64_t STREAM[VS_MAXT]; static long DRAWS[VS_MAXT];
/* global-order information that pins down a process-wide seed (if the implementation has one) */
static uint32_t LAST_SEED; static long SINCE_SEED;
#ifdef C06_FREE
/* free-running pass: the seams forward and keep no shared bookkeeping of their own */
void __wrap_srand_(uint32_t s) { __real_srand_(s); }
double __wrap_rand_(void) { return __real_rand_(); }
int __wrap_randInt(int lo, int hi) { return __real_randInt(lo, hi); }
double __wrap_randDouble(double lo, double hi) { return __real_randDouble(lo, hi); }
#else
static void note(uint64_t v) { int t = vs_current(); if (t < VS_MAXT) { STREAM[t] = vx_hash(&v, sizeof v, STREAM[t]); DRAWS[t]++; } SINCE_SEED++; }
void __wrap_srand_(uint32_t s) { vs_point("srand_"); __real_srand_(s); LAST_SEED = s; SINCE_SEED = 0; }
double __wrap_rand_(void) { vs_point("rand_"); double v = __real_rand_(); uint64_t b; memcpy(&b, &v, 8); note(b); return v; }
int __wrap_randInt(int lo, int hi) { vs_point("randInt"); int v = __real_randInt(lo, hi); note((uint64_t)(unsigned)v); return v; }
double __wrap_randDouble(double lo, double hi) { vs_point("randDouble"); double v = __real_randDouble(lo, hi); uint64_t b; memcpy(&b, &v, 8); note(b); return v; }

#endif
/* canonical state at a scheduling point: per thread (run state, draws made, hash of the values received) +
 * (argument of the last srand_ in global order, draws since).  For a process-wide seed this determines the seed
 * and every thread's local state; for per-thread seeds it is merely finer than needed.  Equal keys => equal futures. */
#define SEEN_CAP (1u << 20)
static uint64_t *SEEN; static long nseen; static uint64_t CFG; static long STATE_CAP = 200000; static int capped;
static int prune_cb(void) {
  uint64_t h = vs_thread_states() ^ CFG;
  h = vx_hash(STREAM, sizeof STREAM, h); h = vx_hash(DRAWS, sizeof DRAWS, h); h = vx_hash(&LAST_SEED, sizeof LAST_SEED, h); h = vx_hash(&SINCE_SEED, sizeof SINCE_SEED, h);
  if (!h) h = 1;
  if (!SEEN) SEEN = calloc(SEEN_CAP, sizeof(uint64_t));
  unsigned i = (unsigned)(h & (SEEN_CAP - 1));
  for (;; i = (i + 1) & (SEEN_CAP - 1)) {
    if (SEEN[i] == h) return 1;
    if (!SEEN[i]) { if (nseen >= STATE_CAP) { if (!capped) { capped = 1; vx_note_cap(); } return 1; } SEEN[i] = h; nseen++; vx_state(h); return 0; }
  }
}

/* ---------------------------------------------------------------- data */
static matrix *mk(int r, int c, int fam, double off) { matrix *m; NewMatrix(&m, (size_t)r, (size_t)c); for (int i = 0; i < r; i++) for (int j = 0; j < c; j++) m->data[i][j] = vg_val(fam, i, j) + off; return m; }
static matrix *mk_y(matrix *x, int fam) { matrix *y; NewMatrix(&y, x->row, 1); for (size_t i = 0; i < x->row; i++) { double s = 0.3 * vg_val(fam + 7, (int)i, 0); for (size_t j = 0; j < x->col; j++) s += (1.0 + j) * x->data[i][j]; y->data[i][0] = s; } return y; }
static matrix *mk_labels(int n, int n0) { matrix *y; NewMatrix(&y, (size_t)n, 1); for (int i = 0; i < n; i++) y->data[i][0] = (i % 2 == 0 && n0-- > 0) ? 0 : 1; return y; }

typedef struct { uint64_t h; int rows, cols; double *v; int post; } result;   /* post: the caller's next draw after the call (bootstrap driver) */
static result take(matrix *p) { result r; r.rows = (int)p->row; r.cols = (int)p->col; r.v = malloc(sizeof(double) * (size_t)(r.rows * r.cols + 1)); for (int i = 0; i < r.rows; i++) for (int j = 0; j < r.cols; j++) r.v[i * r.cols + j] = p->data[i][j]; r.h = hm_hash(p, 6); return r; }
static int same_bits(const result *a, const result *b) { return a->rows == b->rows && a->cols == b->cols && memcmp(a->v, b->v, sizeof(double) * (size_t)(a->rows * a->cols)) == 0; }
static double reldiff(const result *a, const result *b) { if (a->rows != b->rows || a->cols != b->cols) return INFINITY; double d = 0, s = 1e-300; for (int i = 0; i < a->rows * a->cols; i++) { double x = fabs(a->v[i] - b->v[i]); if (x != x) { if (!(a->v[i] != a->v[i] && b->v[i] != b->v[i])) return INFINITY; x = 0; } if (x > d) d = x; if (fabs(b->v[i]) > s) s = fabs(b->v[i]); } return d / s; }

/* ---------------------------------------------------------------- drivers */
static const char *LNAME[3] = {"PLS", "MLR", "LDA"};
#define CALLER_SEED 4242u
static int caller_next_draw(void) { static int have, v; if (!have) { __real_srand_(CALLER_SEED); v = __real_randInt(0, 1000000000); have = 1; } return v; }
static result run_bootstrap(int learner, int nthreads, int iterations, int groups, int nobj, int fam) {
  CLOCK_TICKS = 0;
  matrix *x, *y, *pred; MODELINPUT in = initModelInput();
  if (learner == 2) { x = mk(nobj, 1, fam, 0); for (int i = 0; i < nobj; i++) x->data[i][0] += (i % 2) ? 0.3 : -0.3; y = mk_labels(nobj, (nobj + 1) / 2); }
  else { x = mk(nobj, learner == 0 ? 2 : 1, fam, 0.5); y = mk_y(x, fam); }
  in.mx = x; in.my = y; in.nlv = learner == 0 ? 1 : 0; in.xautoscaling = learner == 0 ? 1 : 0; in.yautoscaling = 0;
  initMatrix(&pred);
  __real_srand_(CALLER_SEED);     /* the caller's own seeded stream: "never perturbed by another worker" -- nor by the validation it calls */
  BootstrapRandomGroupsCV(&in, (size_t)groups, (size_t)iterations, learner == 0 ? _PLS_ : learner == 1 ? _MLR_ : _LDA_, pred, NULL, (size_t)nthreads, NULL, 0);
  int post = __real_randInt(0, 1000000000);
  result r = take(pred); r.post = post;
  DelMatrix(&pred); DelMatrix(&x); DelMatrix(&y);
  return r;
}

/* driver C: two user threads using the seeded RNG API concurrently */
typedef struct { int what; unsigned seed; uint64_t out; } uarg;
static matrix *UX;
static void *user_thread(void *p) {
  uarg *a = p; uint64_t h = 17;
  if (a->what == 0) { matrix *g; initMatrix(&g); unsigned s = a->seed; random_kfold_group_generator(g, 2, 5, &s); h = hm_hash(g, h); DelMatrix(&g); }
  else if (a->what == 1) { matrix *xt, *yt, *xs, *ys; uivector *ids; initMatrix(&xt); initMatrix(&yt); initMatrix(&xs); initMatrix(&ys); initUIVector(&ids); unsigned s = a->seed;
    train_test_split(UX, UX, 0.4, xt, yt, xs, ys, ids, &s); h = hm_hash(xs, hm_hash(xt, h)); h = vx_hash(ids->data, sizeof(size_t) * ids->size, h);
    DelMatrix(&xt); DelMatrix(&yt); DelMatrix(&xs); DelMatrix(&ys); DelUIVector(&ids); }
  else { srand_(a->seed); uivector *sel; initUIVector(&sel); KMeansppCenters(UX, 2, sel, 1); h = vx_hash(sel->data, sizeof(size_t) * sel->size, h); DelUIVector(&sel); }
  a->out = h; return NULL;
}
static void run_users(int w0, int w1, uint64_t out[2], int together) {
  CLOCK_TICKS = 0;
  uarg a[2] = {{w0, 11u, 0}, {w1, 12u + (unsigned)w1, 0}}; pthread_t t[2];
  UX = mk(6, 2, 3, 0);
  if (together) { for (int i = 0; i < 2; i++) pthread_create(&t[i], NULL, user_thread, &a[i]); for (int i = 0; i < 2; i++) pthread_join(t[i], NULL); }
  else { for (int i = 0; i < 2; i++) { pthread_create(&t[i], NULL, user_thread, &a[i]); pthread_join(t[i], NULL); } }
  out[0] = a[0].out; out[1] = a[1].out; DelMatrix(&UX);
}

/* reference results are computed once per process and configuration, under the default schedule */
#define NREF 64
static struct { int key; result r; } REF[NREF]; static int nref;
static result *reference(int learner, int nthreads, int iterations, int groups, int nobj, int fam) {
  int key = ((((learner * 16 + nthreads) * 32 + iterations) * 16 + groups) * 32 + nobj) * 8 + fam;
  for (int i = 0; i < nref; i++) if (REF[i].key == key) return &REF[i].r;
  vs_begin(1, 0); result r = run_bootstrap(learner, nthreads, iterations, groups, nobj, fam); vs_end();
  REF[nref].key = key; REF[nref].r = r; return &REF[nref++].r;
}

/* driver D: y-scrambling; its inner bootstrap validation hard-codes 4 workers x 100 iterations, the outer loop draws
 * the permutation from the caller's stream between the inner validations */
static result run_yscrambling(int learner, int loo, int fam, int nthreads) {
  CLOCK_TICKS = 0;
  matrix *x = mk(7, learner == 0 ? 2 : 1, fam, 0.5), *y = mk_y(x, fam), *cc; MODELINPUT in = initModelInput();
  in.mx = x; in.my = y; in.nlv = learner == 0 ? 1 : 0; in.xautoscaling = learner == 0 ? 1 : 0; in.yautoscaling = 0;
  ValidationArg va = initValidationArg(); va.vtype = loo ? LOO : BootstrapRGCV; va.rgcv_group = 3; va.rgcv_iterations = 4;
  initMatrix(&cc);
  YScrambling(&in, learner == 0 ? _PLS_ : _MLR_, va, 1, cc, (size_t)nthreads, NULL);
  result r = take(cc); DelMatrix(&cc); DelMatrix(&x); DelMatrix(&y); return r;
}

#ifndef C06_FREE
static void body(void) {
  int driver = vx_choose("driver", 8);
  { const char *only = getenv("C06_ONLY_DRIVER"); if (only && *only) vx_require(driver == atoi(only)); }   /* calibration aid, never set by run_check */
  if (driver == 7) {            /* H: y-scrambling table for every requested thread count (default schedule) = the table with 2 threads */
    int learner = vx_choose("learner", 2), loo = vx_choose("validation", 2), cfg = vx_choose("nthreads", 4), fam = vx_choose("data", 2);
    static const int NTH[4] = {1, 3, 4, 5};
    static result ref2[2][2][2]; static char have2[2][2][2];
    vs_prune_cb = 0;
    if (!have2[learner][loo][fam]) { vs_begin(1, 0); ref2[learner][loo][fam] = run_yscrambling(learner, loo, fam, 2); vs_end(); have2[learner][loo][fam] = 1; }
    vs_begin(1, 0); result r = run_yscrambling(learner, loo, fam, NTH[cfg]); vs_end(); vx_transition(2);
    char key[96]; snprintf(key, sizeof key, "threadcount|YScrambling|%s,%s", LNAME[learner], loo ? "LOO" : "bootstrap");
    vx_check(same_bits(&r, &ref2[learner][loo][fam]), key, "y-scrambling table with nthreads=%d differs from the one with nthreads=2 (max rel diff %g)", NTH[cfg], reldiff(&r, &ref2[learner][loo][fam]));
    vx_outcome(r.h); free(r.v); return;
  }
  if (driver == 6) {            /* G: leave-one-out and k-fold pools for every thread count (default schedule): N threads = sequential run */
    int learner = vx_choose("learner", 3), kfold = vx_choose("scheme", 2), cfg = vx_choose("nthreads", 6), fam = vx_choose("data", 2);
    static const int NTG[6] = {1, 2, 3, 4, 5, 7};
    vx_require(!(kfold && learner == 2 && 0));
    result rr[2];
    for (int pass = 0; pass < 2; pass++) {
      int nobj = 9; matrix *x, *y, *pred; MODELINPUT in = initModelInput();
      if (learner == 2) { x = mk(nobj, 1, fam, 0); for (int i = 0; i < nobj; i++) x->data[i][0] += (i % 2) ? 0.3 : -0.3; y = mk_labels(nobj, 5); } else { x = mk(nobj, 2, fam, 0.5); y = mk_y(x, fam); }
      in.mx = x; in.my = y; in.nlv = learner == 0 ? 1 : 0; in.xautoscaling = learner == 0; initMatrix(&pred);
      AlgorithmType at = learner == 0 ? _PLS_ : learner == 1 ? _MLR_ : _LDA_;
      CLOCK_TICKS = 0; vs_begin(1, 0);
      if (!kfold) LeaveOneOut(&in, at, pred, NULL, (size_t)(pass ? NTG[cfg] : 1), NULL, 0);
      else { uivector *g; NewUIVector(&g, (size_t)nobj); for (int i = 0; i < nobj; i++) g->data[i] = (size_t)(fam ? (i < 4 ? 0 : i < 7 ? 1 : 2) : i % 3);   /* data set 1: folds of unequal size 4/3/2 */ KFoldCV(&in, g, at, pred, NULL, (size_t)(pass ? NTG[cfg] : 1), NULL, 0); DelUIVector(&g); }
      vs_end();
      rr[pass] = take(pred); DelMatrix(&pred); DelMatrix(&x); DelMatrix(&y);
    }
    vx_transition(2);
    char key[96]; snprintf(key, sizeof key, "threadcount|%s|%s", kfold ? "KFoldCV" : "LeaveOneOut", LNAME[learner]);
    vx_check(same_bits(&rr[0], &rr[1]), key, "predictions with nthreads=%d differ from nthreads=1 (max rel diff %g)", NTG[cfg], reldiff(&rr[1], &rr[0]));
    vx_outcome(rr[1].h); free(rr[0].v); free(rr[1].v); return;
  }
  if (driver == 5) {            /* F: seeded k-means (random and k-means++ initialisers) for every thread count, default schedule */
    int init = vx_choose("initialiser", 2), cfg = vx_choose("nthreads", 7), n = 11 + 4 * vx_choose("objects", 4), k = 2 + vx_choose("k-2", 3);
    static const int NTF[7] = {1, 2, 3, 4, 5, 6, 8};
    uint64_t h[2];
    for (int pass = 0; pass < 2; pass++) {
      matrix *m = mk(n, 2, 5, 0), *cen; uivector *lab; initMatrix(&cen); initUIVector(&lab);
      CLOCK_TICKS = 0; vs_begin(1, 0); srand_(77u + (unsigned)init); KMeans(m, (size_t)k, init, lab, cen, (size_t)(pass ? NTF[cfg] : 1)); vs_end();
      h[pass] = hm_hash(cen, vx_hash(lab->data, sizeof(size_t) * lab->size, 5));
      DelMatrix(&m); DelMatrix(&cen); DelUIVector(&lab);
    }
    vx_transition(2);
    char key[96]; snprintf(key, sizeof key, "threadcount|KMeans|%s", init ? "kmeans++" : "random");
    vx_check(h[0] == h[1], key, "n=%d k=%d: labels/centroids with nthreads=%d differ from nthreads=1 after the same seed", n, k, NTF[cfg]);
    vx_outcome(h[1]); return;
  }
  if (driver == 4) {            /* D: YScrambling */
    int learner = vx_choose("learner", 2), loo = vx_choose("validation", 2), fam = vx_choose("data", 2);
    if (!vx_thorough()) vx_require(fam == 0 && learner == 1);   /* quick: MLR, one data set, both validation kinds */
    memset(STREAM, 0, sizeof STREAM); memset(DRAWS, 0, sizeof DRAWS); LAST_SEED = 0; SINCE_SEED = 0; vs_prune_cb = 0;
    static result refd[2][2][2]; static char haved[2][2][2];
    if (!haved[learner][loo][fam]) { vs_begin(1, 0); refd[learner][loo][fam] = run_yscrambling(learner, loo, fam, 2); vs_end(); haved[learner][loo][fam] = 1; }
    vs_preemption_bound = 1;
    vs_begin(0, vx_thorough() ? 20 : 12); result r = run_yscrambling(learner, loo, fam, 2); vs_end(); vx_transition(1);
    char key[96]; snprintf(key, sizeof key, "schedule|YScrambling|%s,%s", LNAME[learner], loo ? "LOO" : "bootstrap");
    vx_check(same_bits(&r, &refd[learner][loo][fam]), key, "y-scrambling table under this schedule differs from the default schedule (max rel diff %g)", reldiff(&r, &refd[learner][loo][fam]));
    vx_outcome(r.h); free(r.v); return;
  }
  memset(STREAM, 0, sizeof STREAM); memset(DRAWS, 0, sizeof DRAWS); LAST_SEED = 0; SINCE_SEED = 0;
  vs_prune_cb = 0; vs_preemption_bound = 1000000;
  if (driver <= 1) {            /* A: 2 workers, B: 3 workers */
    int learner = vx_choose("learner", 3), fam = vx_choose("data", 2), mode = vx_choose("mode", 2);
    /* mode 0: all schedules with <= B preemptions, no merging; mode 1: unbounded preemptions, merged on the canonical state */
    if (mode == 0) vs_preemption_bound = driver == 0 ? (vx_thorough() ? 3 : 2) : (vx_thorough() ? 2 : 1);
    else { vs_prune_cb = prune_cb; CFG = vx_hash(&learner, sizeof learner, (uint64_t)(driver * 4 + fam)); }
    int nw = driver == 0 ? 2 : 3, nobj = learner == 2 ? 9 : 6, groups = learner == 2 ? 3 : 2;
    result *ref = reference(learner, nw, nw, groups, nobj, fam);
    result *seq = reference(learner, 1, nw, groups, nobj, fam);
    char key[96];
    vs_begin(0, driver == 0 ? 0 : 150);
    result r = run_bootstrap(learner, nw, nw, groups, nobj, fam);
    vs_end(); vx_transition(1);
    snprintf(key, sizeof key, "schedule|BootstrapRandomGroupsCV|%s,%dworkers", LNAME[learner], nw);
    vx_check(same_bits(&r, ref), key, "result under this schedule differs from the default schedule (max rel diff %g); draws per thread %ld/%ld/%ld", reldiff(&r, ref), DRAWS[1], DRAWS[2], DRAWS[3]);
    snprintf(key, sizeof key, "threads-vs-sequential|BootstrapRandomGroupsCV|%s,%dworkers", LNAME[learner], nw);
    vx_check(reldiff(&r, seq) <= 1e-12, key, "result with %d threads differs from the single-thread run by %g (relative)", nw, reldiff(&r, seq));
    uint64_t o = r.h; for (int t = 1; t <= nw; t++) o = vx_hash(&STREAM[t], 8, o);
    vx_outcome(o); free(r.v);
  } else if (driver == 2) {     /* C: two user threads */
    int w0 = vx_choose("user0", 3), w1 = vx_choose("user1", 3), mode = vx_choose("mode", 2);
    if (mode == 0) vs_preemption_bound = vx_thorough() ? 3 : 2; else { vs_prune_cb = prune_cb; CFG = (uint64_t)(100 + w0 * 3 + w1); }
    static uint64_t alone[3][3][2]; static char have[3][3];
    if (!have[w0][w1]) { vs_begin(1, 0); run_users(w0, w1, alone[w0][w1], 0); vs_end(); have[w0][w1] = 1; }
    uint64_t out[2];
    vs_begin(0, 0); run_users(w0, w1, out, 1); vs_end(); vx_transition(2);
    static const char *UN[3] = {"random_kfold_group_generator", "train_test_split", "KMeansppCenters"};
    char key[128]; snprintf(key, sizeof key, "schedule|concurrent-callers|%s+%s", UN[w0], UN[w1]);
    vx_check(out[0] == alone[w0][w1][0] && out[1] == alone[w0][w1][1], key, "a seeded call returned a different result because another thread used the generator concurrently");
    vx_outcome(vx_hash(out, sizeof out, 3));
  } else {                      /* E: thread-count configurations under the default schedule */
    int learner = vx_choose("learner", 3), cfg = vx_choose("nthreads", 6), fam = vx_choose("data", 2);
    static const int NT[6] = {1, 2, 3, 4, 6, 8};
    int nobj = learner == 2 ? 9 : 8, groups = 3, it = 24;
    result *seq = reference(learner, 1, it, groups, nobj, fam);
    result *r = reference(learner, NT[cfg], it, groups, nobj, fam);
    vs_begin(1, 0); result again = run_bootstrap(learner, NT[cfg], it, groups, nobj, fam); vs_end(); vx_transition(2);
    char key[96]; snprintf(key, sizeof key, "threadcount|BootstrapRandomGroupsCV|%s", LNAME[learner]);
    vx_check(reldiff(r, seq) <= 1e-12, key, "nthreads=%d differs from nthreads=1 by %g (relative), 24 iterations", NT[cfg], reldiff(r, seq));
    snprintf(key, sizeof key, "caller-stream|BootstrapRandomGroupsCV|%s", LNAME[learner]);
    vx_check(r->post == caller_next_draw() && again.post == caller_next_draw(), key, "the caller seeded its stream, ran the validation with nthreads=%d and drew %d / %d; without the validation the same seed gives %d: the validation perturbed the caller's stream", NT[cfg], r->post, again.post, caller_next_draw());
    snprintf(key, sizeof key, "repeat|BootstrapRandomGroupsCV|%s", LNAME[learner]);
    vx_check(same_bits(&again, r), key, "two runs with nthreads=%d are not bit-identical", NT[cfg]);
    vx_outcome(r->h ^ (uint64_t)cfg); free(again.v);
  }
}
#else
/* free-running ThreadSanitizer pass over the same driver bodies */
static void body(void) {
  int driver = vx_choose("driver", 3), rep = vx_choose("repetition", vx_thorough() ? 20 : 5);
  (void)rep;
  if (driver == 0) { int learner = vx_choose("learner", 3), nt = 2 + 2 * vx_choose("nthreads", 2); result r = run_bootstrap(learner, nt, 2 * nt, 3, learner == 2 ? 9 : 8, 0); vx_outcome(r.h); free(r.v); }
  else if (driver == 1) { int w0 = vx_choose("user0", 3), w1 = vx_choose("user1", 3); uint64_t out[2]; run_users(w0, w1, out, 1); vx_outcome(out[0] ^ out[1]); }
  else { /* leave-one-out and k-fold pools */
    int learner = vx_choose("learner", 3), nt = 2 + vx_choose("nthreads", 3);
    matrix *x, *y, *pred; MODELINPUT in = initModelInput(); int nobj = 9;
    if (learner == 2) { x = mk(nobj, 1, 0, 0); for (int i = 0; i < nobj; i++) x->data[i][0] += (i % 2) ? 2.0 : -2.0; y = mk_labels(nobj, 5); } else { x = mk(nobj, 2, 0, 0.5); y = mk_y(x, 0); }
    in.mx = x; in.my = y; in.nlv = learner == 0 ? 1 : 0; in.xautoscaling = learner == 0; initMatrix(&pred);
    LeaveOneOut(&in, learner == 0 ? _PLS_ : learner == 1 ? _MLR_ : _LDA_, pred, NULL, (size_t)nt, NULL, 0);
    vx_outcome(hm_hash(pred, 9)); DelMatrix(&pred); DelMatrix(&x); DelMatrix(&y);
  }
  vx_transition(1);
}
#endif

int main(int argc, char **argv) {
  vg_seed(getenv("VERIF_SEED") ? atol(getenv("VERIF_SEED")) : 0);
#ifdef C06_FREE
  vs_free_run = 1;
  vx_describe("pass", "free-running real threads under ThreadSanitizer over the driver bodies (bootstrap CV with 2/4 workers, concurrent seeded callers, leave-one-out pools); a reported race terminates the worker and is attributed to the path");
  vx_set_shard_depth(2);
#else
  vx_describe("drivers", "A: BootstrapRandomGroupsCV 2 workers x {PLS,MLR,LDA} x 2 data sets; B: 3 workers (decision horizon 150); C: two user threads, each one of {random_kfold_group_generator, train_test_split, KMeansppCenters} after seeding; E: nthreads in {1,2,3,4,6,8} with 24 iterations under the default schedule; G: LeaveOneOut and KFoldCV x {PLS,MLR,LDA} x nthreads {1,2,3,4,5,7} bit-identical to nthreads=1; F: seeded KMeans (random / k-means++ initialiser) x objects {11,15,19,23} x k 2..4 x nthreads {1,2,3,4,5,6,8} equal to nthreads=1; E also: the caller's seeded stream gives the same next draw after the validation as without it; H: YScrambling (PLS, MLR) x (LOO, bootstrap) x nthreads {1,3,4,5} bit-identical to nthreads=2; D: YScrambling (PLS, MLR) x (LOO, bootstrap validation with its hard-coded 4 workers x 100 iterations), 1 scrambling iteration, decision horizon 12 (20 thorough; quick: MLR on one data set only), preemption bound 1");
  vx_describe("scheduling points", "pthread_create, thread exit, blocking pthread_join, entry of srand_/rand_/randInt/randDouble; exactly one thread runs at a time; enabled set ordered running-first then ascending id");
  vx_describe("bounds", "mode 0: all schedules with at most B preemptions (A, C: 2 quick / 3 thorough; B: 1 / 2), no state merging; mode 1: unbounded preemptions with merging on the canonical state (per-thread run state, draws, hash of received values; last srand_ argument in global order and draws since), state cap 200000 (A, B, C in both tiers)");
  vx_describe("oracle", "every complete schedule: result bit-identical to the default schedule and within 1e-12 of the single-thread run; concurrent seeded callers each equal their stand-alone outcome");
  vx_set_dev_bound(1000000, 1000000);   /* preemptions are bounded per driver by vsched */
  vx_set_shard_depth(3);
#endif
  return vx_main(argc, argv, "C06", body);
}
