/* C07 -- MLR is ordinary least squares with intercept.
 * One execution = one (X, Y) of a finite family: the fit, its diagnostics, predictions on training and unseen objects,
 * four response maps and four predictor re-mixings are judged against long-double references.
 * MLR has no iterative loop (normal equations + Gauss-Jordan inverse), so no tick seam is needed. */
#include "hcommon.h"
#include "mlr.h"
#include "algebra.h"

#define PMAX 10
#define NMAXR 50
#define NYMAX 4
#define NZ 8
static const int SHAPES[26][2] = {{4, 1}, {4, 2}, {5, 1}, {5, 2}, {5, 3}, {8, 1}, {8, 2}, {8, 3}, {8, 6}, {20, 1}, {20, 2}, {20, 3}, {20, 6}, {20, 10},
                                  {50, 1}, {50, 2}, {50, 3}, {50, 6}, {50, 10},
                                  {7, 1}, {7, 3}, {11, 2}, {23, 6},   /* object counts of every residue mod 4 (unrolled kernels) */
                                  {4, 3}, {6, 5}, {11, 10}};           /* saturated: objects = predictors + 1 (square design, exact interpolation) */
static const double KAPPA[3] = {1, 1e2, 1e4};
static const double NOISE[3] = {0, 0.1, 10};
static const double AFF[6][2] = {{-2, 0}, {1, 5}, {0.01, -3}, {1e3, 7}, {1e6, 0}, {1, 1e7}};   /* the last two: large response units / large offset against the spread */
static const double KAPPA_A[4] = {1, 3, 10, 10};
static double X_[NMAXR * PMAX], Y_[NMAXR * NYMAX], Z_[NZ * PMAX], B_[(PMAX + 1) * NYMAX], X2_[NMAXR * PMAX], Z2_[NZ * PMAX], Y2_[NMAXR * NYMAX], A_[PMAX * PMAX];

/* opt-in margin histogram (env H_MARGINS, manual runs only) */
static int MARG_ = -1;
static void margin(const char *name, double measured, double allow) {
  if (MARG_ < 0) MARG_ = getenv("H_MARGINS") != NULL;
  if (!MARG_) return;
  double r = allow > 0 ? measured / allow : (measured > 0 ? 1e30 : 0);
  int dec = r <= 1e-20 ? -20 : (int)ceil(log10(r));
  char key[96]; snprintf(key, sizeof key, "margin|%s|1e%+03d", name, dec);
  vx_check(0, key, "measured %g allowance %g", measured, allow);
}

/* design matrix [1 X], its 2-norm condition number and Frobenius norm (reference numerics, long double) */
static rmat *design(const double *X, int n, int p) { rmat *D = rm_new(n, p + 1); for (int i = 0; i < n; i++) { RM(D, i, 0) = 1; for (int j = 0; j < p; j++) RM(D, i, j + 1) = X[i * p + j]; } return D; }
/* normal equations + explicit Gauss-Jordan inverse (the algorithm the library documents): relative allowance
 * 1e3 (fixed safety factor) * eps * (n+p) * kappa_d^2 */
static double tol_rel(int n, int p, double kd) { return 1e3 * DEPS * (n + p + 1) * kd * kd; }
#define TOLREL_CAP 2e-3

static ld vnorm(const ld *v, int k) { ld s = 0; for (int i = 0; i < k; i++) s += v[i] * v[i]; return sqrtl(s); }

struct fit { MLRMODEL *m; matrix *mx, *my; rmat *D; double kd, tr; ld dF; ld bn[NYMAX], yn[NYMAX]; int ok; };

static int do_fit(struct fit *f, const double *X, const double *Y, int n, int p, int ny) {
  f->mx = hm_new(n, p, X); f->my = hm_new(n, ny, Y); NewMLRModel(&f->m);
  MLR(f->mx, f->my, f->m, NULL); vx_transition(1);
  f->ok = (int)f->m->b->row == p + 1 && (int)f->m->b->col == ny && hm_allfinite(f->m->b);
  for (int r = 0; r < ny; r++) {
    ld s = 0, t = 0; for (int i = 0; i < n; i++) s += (ld)Y[i * ny + r] * Y[i * ny + r];
    if (f->ok) for (int j = 0; j <= p; j++) t += (ld)f->m->b->data[j][r] * f->m->b->data[j][r];
    f->yn[r] = sqrtl(s); f->bn[r] = sqrtl(t);
  }
  return f->ok;
}
static void free_fit(struct fit *f) { DelMLRModel(&f->m); DelMatrix(&f->mx); DelMatrix(&f->my); }


/* ---------------------------------------------------------------- reused outputs
 * MLRPredictY must give the same result whatever its OUTPUT objects held before the call: empty (initMatrix), the result of an
 * earlier call of the same shape, or matrices of another shape.  predicted_y and predicted_residuals are documented and
 * implemented as overwritten outputs (every cell is assigned), single-threaded: compared bit for bit (NaN == NaN, -0 == +0)
 * with the result obtained with fresh outputs.  r2y and sdep are filled with DVectorAppend (the library's convention for
 * vector outputs, MLR() itself relies on it): a reused vector is NOT expected to be reset, only its trailing ny entries are
 * compared, and both "appended" and "reset and refilled" are accepted as its size. */
static int m_same(const matrix *a, const matrix *b) {
  if (a->row != b->row || a->col != b->col) return 0;
  for (size_t i = 0; i < a->row; i++) for (size_t j = 0; j < a->col; j++) { double x = a->data[i][j], y = b->data[i][j]; if (!(x == y || (x != x && y != y))) return 0; }
  return 1;
}
static matrix *m_dup(const matrix *a) { matrix *m; NewMatrix(&m, a->row, a->col); for (size_t i = 0; i < a->row; i++) memcpy(m->data[i], a->data[i], sizeof(double) * a->col); return m; }
static matrix *m_junk(int r, int c) { matrix *m; NewMatrix(&m, (size_t)r, (size_t)c); for (int i = 0; i < r; i++) for (int j = 0; j < c; j++) m->data[i][j] = 1e3 + 7.0 * i - 3.0 * j + 0.25; return m; }
static matrix *m_toprows(const matrix *a, int r) { matrix *m; NewMatrix(&m, (size_t)r, a->col); for (int i = 0; i < r; i++) memcpy(m->data[i], a->data[i], sizeof(double) * a->col); return m; }
static int v_tail_same(const dvector *v, size_t before, const double *want, int k) {
  if (!(v->size == (size_t)k || v->size == before + (size_t)k)) return 0;
  for (int i = 0; i < k; i++) { double x = v->data[v->size - (size_t)k + (size_t)i], y = want[i]; if (!(x == y || (x != x && y != y))) return 0; }
  return 1;
}
/* one call into the given (used) outputs, judged against the fresh results */
static void reuse_call(const char *cls, const char *how, const char *ctx, struct fit *F, matrix *oy, matrix *ores, dvector *o2, dvector *os, const matrix *wy, const matrix *wres, const double *w2, const double *ws, int ny) {
  size_t b2 = o2->size, bs = os->size; char key[96];
  MLRPredictY(F->mx, F->my, F->m, oy, ores, o2, os); vx_transition(1);
  int oky = m_same(oy, wy), okr = m_same(ores, wres), okv = v_tail_same(o2, b2, w2, ny) && v_tail_same(os, bs, ws, ny);
  snprintf(key, sizeof key, "reuse|MLRPredictY|%s", cls);
  vx_check(oky && okr && okv, key, "%s: MLRPredictY into outputs that %s: %s differs from the result with fresh outputs (predicted_y %zux%zu, fresh %zux%zu, max difference %g; residuals %zux%zu, max difference %g; r2y %zu and sdep %zu entries, %zu and %zu before the call)",
           ctx, how, !oky ? "predicted_y" : !okr ? "predicted_residuals" : "the trailing r2y/sdep entries", oky ? wy->row : oy->row, oky ? wy->col : oy->col, wy->row, wy->col, oky ? 0.0 : hm_maxdiff(oy, wy), ores->row, ores->col, okr ? 0.0 : hm_maxdiff(ores, wres), o2->size, os->size, b2, bs);
}

static void body(void) {
  int si = vx_choose("shape", 26);
  int kap = vx_choose("kappa", 3);
  int ny = 1 + vx_choose("ny-1", 4);
  int noise = vx_choose("noise", 3);
  int fam = vx_choose("xfam", vx_thorough() ? 24 : 2);
  int xmod = vx_choose("xmod", 4);
  int n = SHAPES[si][0], p = SHAPES[si][1];
  vx_require(!(p == 1 && kap > 0));
  int kk = fam * 23 + si + 100;
  char key[128];
#define KEY(oracle, fn, c) (snprintf(key, sizeof key, "%s|%s|%s", oracle, fn, c), key)

  /* X = U diag(s) V^T (s1 = sqrt(n), s1/sp = kappa) with column modifiers: 0 offsets +-(1+0.5j), 1 none,
   * 2 column 0 offset 1e3 and last column x50, 3 everything x1e-3 */
  vg_spectral(kk, n, p, sqrt((double)n), p > 1 ? pow(KAPPA[kap], -1.0 / (p - 1)) : 1.0, X_);
  vg_fill(kk + 700, NZ, p, Z_);
  for (int j = 0; j < p; j++) {
    ld m = 0, ss = 0; for (int i = 0; i < n; i++) m += X_[i * p + j]; m /= n; for (int i = 0; i < n; i++) ss += (X_[i * p + j] - m) * (X_[i * p + j] - m);
    double sd = (double)sqrtl(ss / (n - 1)), off = 0, mul = 1;
    if (xmod == 0) off = (j % 2 ? -1.0 : 1.0) * (1.0 + 0.5 * j);
    if (xmod == 2) { off = j == 0 ? 1e3 : 0.75 * (j % 2 ? -1.0 : 1.0); if (j == p - 1 && p > 1) mul = 50; }
    if (xmod == 3) mul = 1e-3;
    for (int i = 0; i < NZ; i++) Z_[i * p + j] = ((double)m + 2 * sd * Z_[i * p + j]) * mul + off;   /* unseen objects: level and spread of the training column */
    for (int i = 0; i < n; i++) X_[i * p + j] = X_[i * p + j] * mul + off;
  }
  /* Y = b0 + X B + noise: generating coefficients B (general position), noise relative to the spread of the signal */
  for (int r = 0; r < ny; r++) {
    B_[0 * ny + r] = (r % 2 ? -1.0 : 1.0) * (2.0 + r);
    for (int j = 0; j < p; j++) { ld m = 0, ss = 0; for (int i = 0; i < n; i++) m += X_[i * p + j]; m /= n; for (int i = 0; i < n; i++) ss += (X_[i * p + j] - m) * (X_[i * p + j] - m); B_[(j + 1) * ny + r] = 2.0 * vg_val(kk + 300, j, r) / (double)sqrtl(ss / (n - 1)); }
    ld sig[NMAXR], m = 0, ss = 0, nm = 0, nss = 0, nz[NMAXR];
    for (int i = 0; i < n; i++) { ld s = B_[r]; for (int j = 0; j < p; j++) s += (ld)X_[i * p + j] * B_[(j + 1) * ny + r]; sig[i] = s; m += s; nz[i] = vg_val(kk + 400, i, r); nm += nz[i]; }
    m /= n; nm /= n; for (int i = 0; i < n; i++) { ss += (sig[i] - m) * (sig[i] - m); nss += (nz[i] - nm) * (nz[i] - nm); }
    for (int i = 0; i < n; i++) Y_[i * ny + r] = (double)(sig[i] + (ld)NOISE[noise] * sqrtl(ss / nss) * (nz[i] - nm));
    ld sum = 0; for (int i = 0; i < n; i++) sum += Y_[i * ny + r];
    vx_require(fabsl(sum) >= 1e-5L);        /* MatrixColAverage flushes |column sum| < 1e-6 to a mean of 0 (known finding of C11) */
  }
  rmat *D = design(X_, n, p); double kd = (double)rm_cond2(D), tr = tol_rel(n, p, kd); ld dF = rm_fro(D);
  vx_require(tr <= TOLREL_CAP);             /* "condition number up to 1e4": judged while the derived allowance stays below 2e-3 */
  char cls[40]; snprintf(cls, sizeof cls, "kappa_d<1e%d", kd < 10 ? 1 : kd < 1e2 ? 2 : kd < 1e3 ? 3 : kd < 1e4 ? 4 : 5);
  vx_log("C07 n=%d p=%d ny=%d kappa=%g noise=%g fam=%d xmod=%d kappa_d=%g tol_rel=%g\n", n, p, ny, KAPPA[kap], NOISE[noise], fam, xmod, kd, tr);

  if (getenv("H_MARGINS")) { snprintf(key, sizeof key, "margin|class|%s,kappa=%g", cls, KAPPA[kap]); vx_check(0, key, "count"); }
  struct fit F; do_fit(&F, X_, Y_, n, p, ny);
  MLRMODEL *m = F.m;
  int shp = F.ok && (int)m->recalculated_y->row == n && (int)m->recalculated_y->col == ny && (int)m->recalc_residuals->row == n && (int)m->recalc_residuals->col == ny &&
            (int)m->ymean->size == ny && (int)m->r2y_model->size == ny && (int)m->sdec->size == ny && hm_allfinite(m->recalculated_y) && hm_allfinite(m->recalc_residuals) && hv_allfinite(m->r2y_model) && hv_allfinite(m->sdec);
  vx_check(shp, KEY("shape", "MLR", cls), "b %zux%zu recalculated %zux%zu residuals %zux%zu ymean %zu r2 %zu sdec %zu (n=%d p=%d ny=%d) or non-finite values", m->b->row, m->b->col, m->recalculated_y->row, m->recalculated_y->col, m->recalc_residuals->row, m->recalc_residuals->col, m->ymean->size, m->r2y_model->size, m->sdec->size, n, p, ny);
  if (!shp) { vx_outcome(1); return; }

  /* ---- reference least squares (Householder QR, long double) */
  rmat *Yr = rm_new(n, ny), *Bref = rm_new(p + 1, ny); for (int i = 0; i < n; i++) for (int r = 0; r < ny; r++) RM(Yr, i, r) = Y_[i * ny + r];
  int okref = rm_lstsq(D, Yr, Bref);
  vx_require(okref);

  double w_sum = 0, w_orth = 0, w_coef = 0, w_rec = 0, w_res = 0, w_recal = 0, w_r2 = 0, w_r2lo = 0, w_sdec = 0, w_ols = 0, w_resn = 0; int j_orth = 0;
  double r2ref[NYMAX], r2all[NYMAX], sdref[NYMAX];   /* reference 1-RSS/TSS, its allowance, reference sqrt(RSS/n) of response r */
  double fe[NYMAX];                          /* forward-error allowance of the coefficient vector of response r (2-norm) */
  for (int r = 0; r < ny; r++) {
    ld bref[PMAX + 1], bn = 0; for (int j = 0; j <= p; j++) { bref[j] = RM(Bref, j, r); bn += bref[j] * bref[j]; } bn = sqrtl(bn);
    fe[r] = tr * (double)(bn + F.yn[r] / dF);
    /* "the training residuals sum to zero and are orthogonal to every predictor" (stored residuals) */
    for (int j = 0; j <= p; j++) {
      ld s = 0, dn = 0; for (int i = 0; i < n; i++) { s += RM(D, i, j) * (ld)m->recalc_residuals->data[i][r]; dn += RM(D, i, j) * RM(D, i, j); } dn = sqrtl(dn);
      double d = (double)(fabsl(s) / (dn * (F.yn[r] + dF * F.bn[r]))) / tr;
      if (j == 0) { if (!(d <= w_sum)) w_sum = d; } else if (!(d <= w_orth)) { w_orth = d; j_orth = j; }
    }
    /* "the MLR coefficients minimise the RSS": the minimiser is unique (full column rank); compare with it */
    { ld s = 0; for (int j = 0; j <= p; j++) { ld d = (ld)m->b->data[j][r] - bref[j]; s += d * d; } double d = (double)sqrtl(s) / fe[r]; if (!(d <= w_coef)) w_coef = d; }
    /* "noise-free linear data are recovered exactly": against the generating coefficients */
    if (noise == 0) { ld s = 0; for (int j = 0; j <= p; j++) { ld d = (ld)m->b->data[j][r] - B_[j * ny + r]; s += d * d; } double d = (double)sqrtl(s) / fe[r]; if (!(d <= w_rec)) w_rec = d; }
    /* stored recalculated responses = b0 + X b ; stored residuals = recalculated - observed */
    ld rss = 0, tss = 0, mean = 0; for (int i = 0; i < n; i++) mean += Y_[i * ny + r]; mean /= n;
    for (int i = 0; i < n; i++) {
      ld s = m->b->data[0][r], sa = fabsl(s); for (int j = 0; j < p; j++) { ld v = (ld)X_[i * p + j] * m->b->data[j + 1][r]; s += v; sa += fabsl(v); }
      double d = fabs(m->recalculated_y->data[i][r] - (double)s) / (8 * DEPS * (p + 2) * (double)sa + 1e-300); if (!(d <= w_recal)) w_recal = d;
      /* the statement fixes no sign convention for a residual: either one is accepted, but the same one for every cell */
      double rec = m->recalculated_y->data[i][r], obs = Y_[i * ny + r], ar = 4 * DEPS * (fabs(rec) + fabs(obs)) + 1e-300, dr = fabs(m->recalc_residuals->data[i][r] - (rec - obs)) / ar, dn = fabs(m->recalc_residuals->data[i][r] + (rec - obs)) / ar;
      if (!(dr <= w_res)) w_res = dr; if (!(dn <= w_resn)) w_resn = dn;
      rss += ((ld)rec - obs) * ((ld)rec - obs); tss += (obs - mean) * (obs - mean);
    }
    /* "the reported R2 equals 1 - RSS/TSS and lies in [0,1] on the training data, and the reported SDEC equals sqrt(RSS/n)" */
    { double ref = (double)(1 - rss / tss), allow = 16 * DEPS * n * (1 + (double)(rss / tss)) * (1 + sqrt((double)(mean * mean * n / tss))), d = fabs(m->r2y_model->data[r] - ref) / allow; if (!(d <= w_r2)) w_r2 = d;
      double lo = -tr * (double)((F.yn[r] + dF * F.bn[r]) * (F.yn[r] + dF * F.bn[r]) / tss) - allow, hi = 1 + allow;
      double dl = m->r2y_model->data[r] < lo ? (lo - m->r2y_model->data[r]) / allow : m->r2y_model->data[r] > hi ? (m->r2y_model->data[r] - hi) / allow : 0; if (!(dl <= w_r2lo)) w_r2lo = dl;
      double sref = (double)sqrtl(rss / n), ds = fabs(m->sdec->data[r] - sref) / (16 * DEPS * n * sref + 1e-300); if (!(ds <= w_sdec)) w_sdec = ds;
      r2ref[r] = ref; r2all[r] = allow; sdref[r] = sref; }
    /* the documented mechanism observed directly: OrdinaryLeastSquares on [1 X] returns the same minimiser */
    { matrix *dm = hm_from_rm(D); dvector *yv = hv_new(n, NULL), *co; for (int i = 0; i < n; i++) yv->data[i] = Y_[i * ny + r]; initDVector(&co);
      OrdinaryLeastSquares(dm, yv, co); vx_transition(1);
      double d = INFINITY; if ((int)co->size == p + 1) { ld s = 0; for (int j = 0; j <= p; j++) { ld e = (ld)co->data[j] - bref[j]; s += e * e; } d = (double)sqrtl(s) / fe[r]; }
      if (!(d <= w_ols)) w_ols = d; DelMatrix(&dm); DelDVector(&yv); DelDVector(&co); }
  }
  vx_check(w_sum <= 1, KEY("resid-sum", "MLR", cls), "sum of training residuals is %g allowances (allowance %g relative to |1|(|y|+|D||b|); n=%d p=%d ny=%d kappa_d=%g)", w_sum, tr, n, p, ny, kd);
  vx_check(w_orth <= 1, KEY("resid-orth", "MLR", cls), "x_%d' residuals is %g allowances (allowance %g relative; n=%d p=%d ny=%d kappa_d=%g)", j_orth, w_orth, tr, n, p, ny, kd);
  vx_check(w_coef <= 1, KEY("minimiser", "MLR", cls), "|b - b_leastsquares| is %g allowances (n=%d p=%d ny=%d kappa_d=%g tol_rel=%g)", w_coef, n, p, ny, kd, tr);
  if (noise == 0) vx_check(w_rec <= 1, KEY("recover", "MLR", cls), "noise-free data: |b - b_generating| is %g allowances (n=%d p=%d ny=%d kappa_d=%g tol_rel=%g)", w_rec, n, p, ny, kd, tr);
  vx_check(w_recal <= 1, KEY("recalc-y", "MLR", cls), "recalculated_y differs from b0 + X b by %g rounding allowances (n=%d p=%d ny=%d)", w_recal, n, p, ny);
  vx_check(w_res <= 1 || w_resn <= 1, KEY("resid-def", "MLR", cls), "recalc_residuals differs from +-(recalculated - observed) by %g / %g rounding allowances (n=%d p=%d ny=%d)", w_res, w_resn, n, p, ny);
  vx_check(w_r2 <= 1, KEY("r2", "MLR", ny > 1 ? "ny>1" : "ny=1"), "r2y_model differs from 1 - RSS/TSS by %g allowances (n=%d p=%d ny=%d)", w_r2, n, p, ny);
  vx_check(w_r2lo <= 0, KEY("r2-range", "MLR", cls), "r2y_model outside [0,1] by %g allowances (n=%d p=%d ny=%d)", w_r2lo, n, p, ny);
  vx_check(w_sdec <= 1, KEY("sdec", "MLR", ny > 1 ? "ny>1" : "ny=1"), "sdec differs from sqrt(RSS/n) by %g allowances (n=%d p=%d ny=%d)", w_sdec, n, p, ny);
  vx_check(w_ols <= 1, KEY("minimiser", "OrdinaryLeastSquares", cls), "|coefficients - b_leastsquares| is %g allowances (n=%d p=%d kappa_d=%g)", w_ols, n, p, kd);
  margin("resid-sum", w_sum, 1); margin("resid-orth", w_orth, 1); margin("minimiser", w_coef, 1); if (noise == 0) margin("recover", w_rec, 1); margin("recalc-y", w_recal, 1); margin("r2", w_r2, 1); margin("sdec", w_sdec, 1);

  /* ---- MLRRegressionStatistics on (observed, recalculated) reports the same R2 and RMSE */
  { dvector *cc, *rm, *bi; initDVector(&cc); initDVector(&rm); initDVector(&bi);
    MLRRegressionStatistics(F.my, m->recalculated_y, cc, rm, bi); vx_transition(1);
    double w = 0; int okst = (int)cc->size == ny && (int)rm->size == ny;
    for (int r = 0; okst && r < ny; r++) {
      ld rss = 0, tss = 0, mean = 0; for (int i = 0; i < n; i++) mean += Y_[i * ny + r]; mean /= n;
      for (int i = 0; i < n; i++) { ld e = (ld)m->recalculated_y->data[i][r] - Y_[i * ny + r]; rss += e * e; tss += (Y_[i * ny + r] - mean) * (Y_[i * ny + r] - mean); }
      double a1 = 16 * DEPS * n * (1 + (double)(rss / tss)) * (1 + sqrt((double)(mean * mean * n / tss))), d1 = fabs(cc->data[r] - (double)(1 - rss / tss)) / a1, sref = (double)sqrtl(rss / n), d2 = fabs(rm->data[r] - sref) / (16 * DEPS * n * sref + 1e-300);
      if (!(d1 <= w)) w = d1; if (!(d2 <= w)) w = d2;
    }
    vx_check(okst && w <= 1, KEY("r2-rmse", "MLRRegressionStatistics", ny > 1 ? "ny>1" : "ny=1"), "reported R2 / RMSE differ from 1-RSS/TSS / sqrt(RSS/n) by %g allowances (n=%d ny=%d)", w, n, ny);
    DelDVector(&cc); DelDVector(&rm); DelDVector(&bi); }

  /* ---- "predictions for any matrix equal intercept + X*b": training and unseen objects through MLRPredictY */
  matrix *mz = hm_new(NZ, p, Z_), *pX, *pZ; initMatrix(&pX); initMatrix(&pZ);
  MLRPredictY(F.mx, NULL, m, pX, NULL, NULL, NULL); MLRPredictY(mz, NULL, m, pZ, NULL, NULL, NULL); vx_transition(2);
  int pshape = (int)pX->row == n && (int)pX->col == ny && (int)pZ->row == NZ && (int)pZ->col == ny;
  double w_p[2] = {0, 0};
  for (int set = 0; pshape && set < 2; set++) { const double *Dd = set ? Z_ : X_; int rows = set ? NZ : n; matrix *pp = set ? pZ : pX;
    for (int r = 0; r < ny; r++) for (int i = 0; i < rows; i++) { ld s = m->b->data[0][r], sa = fabsl(s); for (int j = 0; j < p; j++) { ld v = (ld)Dd[i * p + j] * m->b->data[j + 1][r]; s += v; sa += fabsl(v); }
      double d = fabs(pp->data[i][r] - (double)s) / (8 * DEPS * (p + 2) * (double)sa + 1e-300); if (!(d <= w_p[set])) w_p[set] = d; } }
  vx_check(pshape && w_p[0] <= 1, KEY("predict", "MLRPredictY", "train"), "prediction of a training object differs from b0 + x b by %g rounding allowances, or wrong shape %zux%zu (n=%d p=%d ny=%d)", w_p[0], pX->row, pX->col, n, p, ny);
  vx_check(pshape && w_p[1] <= 1, KEY("predict", "MLRPredictY", "unseen"), "prediction of an unseen object differs from b0 + z b by %g rounding allowances, or wrong shape %zux%zu (n=%d p=%d ny=%d)", w_p[1], pZ->row, pZ->col, n, p, ny);
  if (!pshape) { vx_outcome(3); return; }

  /* ---- reused outputs: all four outputs of MLRPredictY(training X, training Y) a second time into the same objects, then into
   * objects that held the result for the first n-1 objects (rows differ), hand-filled n x (ny+1) matrices (columns differ; no
   * call with this model produces them) and (n+2) x (ny+3) matrices (both differ) */
  { char ctx[96]; snprintf(ctx, sizeof ctx, "n=%d p=%d ny=%d", n, p, ny);
    matrix *fy, *fr, *wy, *wr; dvector *f2, *fs; double w2[NYMAX], ws[NYMAX]; initMatrix(&fy); initMatrix(&fr); initDVector(&f2); initDVector(&fs);
    MLRPredictY(F.mx, F.my, m, fy, fr, f2, fs); vx_transition(1);
    int fresh_ok = m_same(fy, pX) && (int)fr->row == n && (int)fr->col == ny && (int)f2->size == ny && (int)fs->size == ny;
    vx_check(fresh_ok, KEY("predict", "MLRPredictY", "train,with-my"), "prediction of the training objects with the known responses passed differs from the one without (or residuals %zux%zu, r2y %zu, sdep %zu entries; n=%d ny=%d)", fr->row, fr->col, f2->size, fs->size, n, ny);
    /* ---- the statistics MLRPredictY itself reports for (training X, training Y), with every subset of its optional outputs
     * (residual matrix, r2 vector, sdep vector) requested: the same 1 - RSS/TSS and sqrt(RSS/n), the same predictions */
    if (fresh_ok) for (int mask = 0; mask < 8; mask++) {
      matrix *oy, *ores; dvector *o2, *os; initMatrix(&oy); initMatrix(&ores); initDVector(&o2); initDVector(&os);
      MLRPredictY(F.mx, F.my, m, oy, (mask & 1) ? ores : NULL, (mask & 2) ? o2 : NULL, (mask & 4) ? os : NULL); vx_transition(1);
      int ok = m_same(oy, fy) && (!(mask & 1) || m_same(ores, fr)) && (!(mask & 2) || (int)o2->size == ny) && (!(mask & 4) || (int)os->size == ny);
      double w2o = 0, wso = 0;
      for (int r = 0; ok && r < ny; r++) {
        if (mask & 2) { double d = fabs(o2->data[r] - r2ref[r]) / r2all[r]; if (!(d <= w2o)) w2o = d; }
        if (mask & 4) { double d = fabs(os->data[r] - sdref[r]) / (16 * DEPS * n * sdref[r] + 1e-300); if (!(d <= wso)) wso = d; }
      }
      char oc[48]; snprintf(oc, sizeof oc, "outputs=%s%s%s", (mask & 1) ? "res," : "", (mask & 2) ? "r2," : "", (mask & 4) ? "sdep" : "");
      vx_check(ok && w2o <= 1 && wso <= 1, KEY("stats", "MLRPredictY", oc), "MLRPredictY(training X, training Y) with the optional outputs %s requested: predictions/residuals differ from the call with all outputs, or r2 differs from 1 - RSS/TSS by %g allowances, sdep from sqrt(RSS/n) by %g allowances (n=%d p=%d ny=%d)", oc, w2o, wso, n, p, ny);
      DelMatrix(&oy); DelMatrix(&ores); DelDVector(&o2); DelDVector(&os);
    }
    if (fresh_ok) {
      wy = m_dup(fy); wr = m_dup(fr); for (int r = 0; r < ny; r++) { w2[r] = f2->data[r]; ws[r] = fs->data[r]; }
      reuse_call("same-shape", "hold an earlier result of the same shape", ctx, &F, fy, fr, f2, fs, wy, wr, w2, ws, ny);
      /* rows differ */
      { struct fit S = F; S.mx = m_toprows(F.mx, n - 1); S.my = m_toprows(F.my, n - 1);
        matrix *oy, *ores; dvector *o2, *os; initMatrix(&oy); initMatrix(&ores); initDVector(&o2); initDVector(&os);
        MLRPredictY(S.mx, S.my, m, oy, ores, o2, os);
        reuse_call("one-dim-differs", "held the result for another number of objects (same number of responses)", ctx, &F, oy, ores, o2, os, wy, wr, w2, ws, ny);
        DelMatrix(&S.mx); DelMatrix(&S.my); DelMatrix(&oy); DelMatrix(&ores); DelDVector(&o2); DelDVector(&os); }
      /* columns differ */
      { matrix *oy = m_junk(n, ny + 1), *ores = m_junk(n, ny + 1); dvector *o2 = hv_new(ny + 1, NULL), *os = hv_new(ny + 1, NULL);
        reuse_call("one-dim-differs", "held matrices with the same number of objects and another number of columns", ctx, &F, oy, ores, o2, os, wy, wr, w2, ws, ny);
        DelMatrix(&oy); DelMatrix(&ores); DelDVector(&o2); DelDVector(&os); }
      /* both differ */
      { matrix *oy = m_junk(n + 2, ny + 3), *ores = m_junk(n + 2, ny + 3); dvector *o2 = hv_new(ny + 3, NULL), *os = hv_new(ny + 3, NULL);
        reuse_call("both-dims-differ", "held matrices with other numbers of rows and columns", ctx, &F, oy, ores, o2, os, wy, wr, w2, ws, ny);
        DelMatrix(&oy); DelMatrix(&ores); DelDVector(&o2); DelDVector(&os); }
      DelMatrix(&wy); DelMatrix(&wr);
    }
    DelMatrix(&fy); DelMatrix(&fr); DelDVector(&f2); DelDVector(&fs); }

  /* ---- "scaling or shifting a response scales/shifts its coefficients and predictions" */
  for (int f = 0; f < 6; f++) {
    double c = AFF[f][0], d0 = AFF[f][1];
    for (int i = 0; i < n * ny; i++) Y2_[i] = c * Y_[i] + d0;
    int flush = 0; for (int r = 0; r < ny; r++) { ld s = 0; for (int i = 0; i < n; i++) s += Y2_[i * ny + r]; if (fabsl(s) < 1e-5L) flush = 1; }
    if (flush) continue;
    struct fit G; do_fit(&G, X_, Y2_, n, p, ny);
    char mc[48]; snprintf(mc, sizeof mc, "c=%g,d=%g", c, d0);
    double wb = 0, wp = 0;
    if (G.ok) {
      matrix *qX, *qZ; initMatrix(&qX); initMatrix(&qZ); MLRPredictY(G.mx, NULL, G.m, qX, NULL, NULL, NULL); MLRPredictY(mz, NULL, G.m, qZ, NULL, NULL, NULL); vx_transition(2);
      for (int r = 0; r < ny; r++) {
        double allow = tr * (double)(G.bn[r] + G.yn[r] / dF) + fabs(c) * fe[r];
        ld s = 0; for (int j = 0; j <= p; j++) { ld e = (ld)G.m->b->data[j][r] - (c * (ld)m->b->data[j][r] + (j == 0 ? d0 : 0)); s += e * e; }
        double d = (double)sqrtl(s) / allow; if (!(d <= wb)) wb = d;
        for (int set = 0; set < 2; set++) { const double *Dd = set ? Z_ : X_; int rows = set ? NZ : n; matrix *pp = set ? pZ : pX, *qq = set ? qZ : qX;
          for (int i = 0; i < rows; i++) { ld zn = 1; for (int j = 0; j < p; j++) zn += (ld)Dd[i * p + j] * Dd[i * p + j]; zn = sqrtl(zn);
            double e = c * pp->data[i][r] + d0, dd = fabs(qq->data[i][r] - e) / (allow * (double)zn + 16 * DEPS * (fabs(e) + fabs(d0))); if (!(dd <= wp)) wp = dd; } }
      }
      DelMatrix(&qX); DelMatrix(&qZ);
    }
    /* R2 = 1 - RSS/TSS does not change under y -> c*y + d (c != 0).  With rho = |mean| sqrt(n)/sqrt(TSS): two-pass sums err by
     * eps*n*(1+rho) relative, and the fitting error tol_rel*|y| of the mapped fit moves RSS/TSS by tol_rel*(1+rho); a one-pass
     * TSS (sum y^2 - n mean^2) would err by eps*n*rho^2 */
    if (G.ok && (int)G.m->r2y_model->size == ny && (int)m->r2y_model->size == ny) {
      double wr2 = 0;
      for (int r = 0; r < ny; r++) { ld mu = 0, tss = 0; for (int i = 0; i < n; i++) mu += Y2_[i * ny + r]; mu /= n; for (int i = 0; i < n; i++) tss += (Y2_[i * ny + r] - mu) * (Y2_[i * ny + r] - mu);
        double rho = sqrt((double)(mu * mu * n / (tss + 1e-300L))), allow = (64 * DEPS * n + 8 * tr) * (1 + rho), d = fabs(G.m->r2y_model->data[r] - m->r2y_model->data[r]) / allow; if (!(d <= wr2)) wr2 = d; }
      vx_check(wr2 <= 1, KEY("equiv-response-r2", "MLR", mc), "R2 after y -> %g*y%+g differs from the R2 of the original response by %g allowances (n=%d p=%d ny=%d)", c, d0, wr2, n, p, ny);
    }
    vx_check(G.ok && wb <= 1, KEY("equiv-response-coef", "MLR", mc), "coefficients after y -> %g*y%+g differ from the mapped coefficients by %g allowances (n=%d p=%d ny=%d kappa_d=%g)", c, d0, wb, n, p, ny, kd);
    vx_check(G.ok && wp <= 1, KEY("equiv-response-pred", "MLR", mc), "predictions after y -> %g*y%+g differ from the mapped predictions by %g allowances (n=%d p=%d ny=%d kappa_d=%g)", c, d0, wp, n, p, ny, kd);
    margin("equiv-response", wb > wp ? wb : wp, 1);
    free_fit(&G);
  }

  /* ---- "an invertible linear re-mixing of the predictors leaves predictions unchanged": X -> X A, kappa(A) <= 10 */
  for (int f = 0; f < (p == 1 ? 1 : 4); f++) {
    vg_spectral(900 + f * 5 + p, p, p, 2.0, p > 1 ? pow(KAPPA_A[f], -1.0 / (p - 1)) : 1.0, A_);
    for (int i = 0; i < n; i++) for (int j = 0; j < p; j++) { ld s = 0; for (int k = 0; k < p; k++) s += (ld)X_[i * p + k] * A_[k * p + j]; X2_[i * p + j] = (double)s; }
    for (int i = 0; i < NZ; i++) for (int j = 0; j < p; j++) { ld s = 0; for (int k = 0; k < p; k++) s += (ld)Z_[i * p + k] * A_[k * p + j]; Z2_[i * p + j] = (double)s; }
    rmat *D2 = design(X2_, n, p); double kd2 = (double)rm_cond2(D2), tr2 = tol_rel(n, p, kd2); ld dF2 = rm_fro(D2); rm_free(D2);
    if (tr2 > TOLREL_CAP) continue;                        /* re-mixed design too ill-conditioned for the normal equations: not judged */
    struct fit G; do_fit(&G, X2_, Y_, n, p, ny);
    char mc[48]; snprintf(mc, sizeof mc, "kappaA=%g", KAPPA_A[f]);
    double wp = 0;
    if (G.ok) {
      matrix *mz2 = hm_new(NZ, p, Z2_), *qX, *qZ; initMatrix(&qX); initMatrix(&qZ); MLRPredictY(G.mx, NULL, G.m, qX, NULL, NULL, NULL); MLRPredictY(mz2, NULL, G.m, qZ, NULL, NULL, NULL); vx_transition(2);
      for (int r = 0; r < ny; r++) {
        double fe2 = tr2 * (double)(G.bn[r] + G.yn[r] / dF2);
        for (int set = 0; set < 2; set++) { const double *Dd = set ? Z_ : X_, *D2d = set ? Z2_ : X2_; int rows = set ? NZ : n; matrix *pp = set ? pZ : pX, *qq = set ? qZ : qX;
          for (int i = 0; i < rows; i++) { ld zn = 1, zn2 = 1; for (int j = 0; j < p; j++) { zn += (ld)Dd[i * p + j] * Dd[i * p + j]; zn2 += (ld)D2d[i * p + j] * D2d[i * p + j]; }
            double allow = fe[r] * (double)sqrtl(zn) + fe2 * (double)sqrtl(zn2) + 16 * DEPS * fabs(pp->data[i][r]), dd = fabs(qq->data[i][r] - pp->data[i][r]) / allow; if (!(dd <= wp)) wp = dd; } }
      }
      DelMatrix(&mz2); DelMatrix(&qX); DelMatrix(&qZ);
    }
    vx_check(G.ok && wp <= 1, KEY("equiv-remix", "MLR", mc), "predictions after X -> X A differ by %g allowances (n=%d p=%d ny=%d kappa_d=%g kappa_d(XA)=%g)", wp, n, p, ny, kd, kd2);
    margin("equiv-remix", wp, 1);
    free_fit(&G);
  }

  vx_outcome(hm_hash(m->b, hm_hash(pZ, (uint64_t)si * 131 + (uint64_t)xmod)));
  rm_free(D); rm_free(Yr); rm_free(Bref); DelMatrix(&mz); DelMatrix(&pX); DelMatrix(&pZ); free_fit(&F);
}

int main(int argc, char **argv) {
  vg_seed(getenv("VERIF_SEED") ? atol(getenv("VERIF_SEED")) : 0);
  vx_describe("alphabet", "n in {4,5,7,8,11,20,23,50} (every residue mod 4) x p in {1,2,3,6,10} with n >= p+2 (23 shapes) + saturated 4x3, 6x5, 11x10 (n = p+1) x spectral kappa {1,1e2,1e4} x ny 1..4 x noise {0,0.1,10}*sd(signal) x 2 [thorough 24] families x "
              "column modifiers {offsets +-(1+0.5j), none, 1e3 offset + x50 column, x1e-3}; per execution: 8 unseen objects, response maps (-2,0),(1,5),(0.01,-3),(1e3,7), predictor re-mixings X->XA with kappa(A) in {1,3,10,10}");
  vx_describe("oracle", "allowance tol_rel = 1e3*eps*(n+p+1)*kappa_d^2 (kappa_d = 2-norm condition number of [1 X] by long-double Jacobi SVD; normal equations + explicit inverse), judged while tol_rel <= 2e-3: "
              "|D_j' residuals| <= tol_rel |D_j| (|y| + |D||b|); |b - b_QR| and (noise 0) |b - b_generating| <= tol_rel (|b| + |y|/|D|); recalculated_y, residuals, MLRPredictY vs b0 + x b at rounding level; "
              "r2y_model / MLRRegressionStatistics = 1 - RSS/TSS, in [0,1]; sdec = sqrt(RSS/n); response-map and re-mixing equivariance within the two fits' forward-error allowances; "
              "MLRPredictY into reused outputs (same shape, one or both dimensions different) = result with fresh outputs, bit for bit (r2y/sdep: trailing entries, append convention)");
  vx_set_shard_depth(3);
  vx_expect_outcomes(500);
  return vx_main(argc, argv, "C07", body);
}
