/* C08 -- LDA predicts the arg-max discriminant, stores priors/means, is invariant to affine re-coding and
 * row order, works for labels numbered from 0 or from 1; multiclass ROC summaries of perfect predictions.
 *
 * mode 0  model + prediction + separation + affine invariance:
 *         classes 2..5 x features 2..4[..6] x sizes {(4,4..),(6,4..),(12,4..),(40,5..)} x label base {0,1}
 *         x centre layout {lattice, collinear-uneven} x separation {overlapping, well separated} x 7 affine maps
 * mode 1  row-order invariance: all 8! orders of the 2x4 data set, 8 fixed permutations otherwise
 * mode 2  LDAMulticlassStatistics on perfect predictions numbered from 0
 *
 * Reference: textbook LDA in long double (pooled within-class covariance, delta_k = mu_k' W^-1 x - mu_k' W^-1 mu_k/2
 * + ln prior_k).  "Well separated" := the reference classifies every training object with posterior margin >= 20.
 * Calls with labels numbered from 1 run LDAPrediction in a forked child (results come back through a pipe) so that
 * the crash this input class provokes on the pinned tree is reported under its own key and costs no worker restart. */
#include "hcommon.h"
#include "lda.h"
#include <unistd.h>
#include <fcntl.h>
#include <sys/types.h>
extern pid_t waitpid(pid_t, int *, int);   /* <sys/wait.h> drags in <signal.h>, which clashes with the library's ssignal */

#define KMAX 5
#define PMAX 6
#define NOBJ 64
#define NEXTRA 4
static const int SIZES[4][2] = {{4, 4}, {6, 4}, {12, 4}, {40, 5}};
typedef struct { int K, p, sz, base, layout, sep, fam; int n, nk[KMAX]; } dcfg;

/* ------------------------------------------------------------------ data */
static void centre(const dcfg *c, int k, double *out) {
  static const double T[KMAX] = {0, 1, 10, 11, 30}, DIR[PMAX] = {1, 0.5, -0.3, 0.2, 0.1, -0.4};
  double sv = c->sep ? 8.0 : 0.5;
  for (int j = 0; j < c->p; j++)
    out[j] = c->layout == 0 ? sv * ((double)(((k + 1) * (j + 2) * 7 + k * k) % 5) - 2 + 0.8 * vg_val(c->fam * 17 + 50, k, j)) + 3 + j
                            : sv * T[k] * DIR[j] + 3 + j;
}
static void gen(dcfg *c, matrix **Xo, matrix **Yo, int **cls) {
  c->n = 0; for (int k = 0; k < c->K; k++) { c->nk[k] = SIZES[c->sz][k ? 1 : 0]; c->n += c->nk[k]; }
  matrix *X = hm_new(c->n, c->p, NULL), *Y = hm_new(c->n, 1, NULL); int *cl = malloc(sizeof(int) * (size_t)c->n);
  int i = 0; double ce[PMAX], e[PMAX];
  for (int k = 0; k < c->K; k++) { centre(c, k, ce);
    for (int t = 0; t < c->nk[k]; t++, i++) {
      for (int j = 0; j < c->p; j++) e[j] = vg_val(c->fam * 13 + 3, i, j);
      for (int j = 0; j < c->p; j++) X->data[i][j] = ce[j] + e[j] + 0.3 * e[(j + 1) % c->p];
      Y->data[i][0] = c->base + k; cl[i] = k;
    } }
  *Xo = X; *Yo = Y; *cls = cl;
}
static matrix *testset(const dcfg *c, matrix *X) {
  matrix *t = hm_new(c->n + NEXTRA, c->p, NULL); double a[PMAX], b[PMAX];
  for (int i = 0; i < c->n; i++) memcpy(t->data[i], X->data[i], sizeof(double) * (size_t)c->p);
  for (int e = 0; e < NEXTRA; e++) { centre(c, e % c->K, a); centre(c, (e + 1) % c->K, b);
    for (int j = 0; j < c->p; j++) t->data[c->n + e][j] = a[j] + (0.2 + 0.15 * e) * (b[j] - a[j]) + vg_val(c->fam * 13 + 4, e, j); }
  return t;
}

/* ------------------------------------------------------------------ long-double reference */
/* Gauss-Jordan inverse with partial pivoting on the augmented matrix [A|I] (local: engine rm_inv/rm_solve mishandles
 * a row exchange after the first elimination step, see notes/C08.md) */
static int ld_inv(const rmat *a, rmat *out) {
  int n = a->r; ld M[PMAX][2 * PMAX];
  for (int i = 0; i < n; i++) for (int j = 0; j < n; j++) { M[i][j] = RM(a, i, j); M[i][n + j] = i == j; }
  for (int k = 0; k < n; k++) {
    int piv = k; for (int i = k + 1; i < n; i++) if (fabsl(M[i][k]) > fabsl(M[piv][k])) piv = i;
    if (M[piv][k] == 0) return 0;
    if (piv != k) for (int j = 0; j < 2 * n; j++) { ld t = M[k][j]; M[k][j] = M[piv][j]; M[piv][j] = t; }
    ld d = M[k][k]; for (int j = 0; j < 2 * n; j++) M[k][j] /= d;
    for (int i = 0; i < n; i++) if (i != k) { ld f = M[i][k]; if (f != 0) for (int j = 0; j < 2 * n; j++) M[i][j] -= f * M[k][j]; }
  }
  for (int i = 0; i < n; i++) for (int j = 0; j < n; j++) RM(out, i, j) = M[i][n + j];
  return 1;
}
typedef struct { rmat *mu, *W, *T, *Wi, *Ti; ld prior[KMAX]; ld kW, kT; int ok; } ref_t;
static void ref_build(const dcfg *c, const matrix *X, const int *cls, ref_t *r) {
  int p = c->p, n = c->n, K = c->K; int cnt[KMAX] = {0};
  r->mu = rm_new(K, p); r->W = rm_new(p, p); r->T = rm_new(p, p); r->Wi = rm_new(p, p); r->Ti = rm_new(p, p);
  ld g[PMAX] = {0};
  for (int i = 0; i < n; i++) { cnt[cls[i]]++; for (int j = 0; j < p; j++) { RM(r->mu, cls[i], j) += X->data[i][j]; g[j] += X->data[i][j]; } }
  for (int k = 0; k < K; k++) { r->prior[k] = (ld)cnt[k] / n; for (int j = 0; j < p; j++) RM(r->mu, k, j) /= cnt[k]; }
  for (int j = 0; j < p; j++) g[j] /= n;
  for (int i = 0; i < n; i++) for (int a = 0; a < p; a++) for (int b = 0; b < p; b++) {
    RM(r->W, a, b) += (X->data[i][a] - RM(r->mu, cls[i], a)) * (X->data[i][b] - RM(r->mu, cls[i], b)) / (n - K);
    RM(r->T, a, b) += (X->data[i][a] - g[a]) * (X->data[i][b] - g[b]) / n;
  }
  r->ok = ld_inv(r->W, r->Wi) && ld_inv(r->T, r->Ti);
  r->kW = r->ok ? rm_cond2(r->W) : INFINITY; r->kT = r->ok ? rm_cond2(r->T) : INFINITY;
}
static void ref_free(ref_t *r) { rm_free(r->mu); rm_free(r->W); rm_free(r->T); rm_free(r->Wi); rm_free(r->Ti); }
/* discriminant with inverse Ci; *mag = sum of absolute terms (forward-error scale) */
static ld ref_score(const dcfg *c, const ref_t *r, const rmat *Ci, const double *x, int k, ld *mag) {
  ld s = 0, m = 0;
  for (int a = 0; a < c->p; a++) for (int b = 0; b < c->p; b++) {
    ld t1 = RM(r->mu, k, a) * RM(Ci, a, b) * x[b], t2 = RM(r->mu, k, a) * RM(Ci, a, b) * RM(r->mu, k, b) / 2;
    s += t1 - t2; m += fabsl(t1) + fabsl(t2);
  }
  s += logl(r->prior[k]); m += fabsl(logl(r->prior[k]));
  if (mag && m > *mag) *mag = m;
  return s;
}
/* smallest margin (true class minus best other) over the training objects; number of objects the rule gets wrong */
static ld ref_margin(const dcfg *c, const ref_t *r, const rmat *Ci, const matrix *X, const int *cls, int *errs, ld *mag) {
  ld worst = INFINITY; *errs = 0;
  for (int i = 0; i < c->n; i++) {
    ld own = ref_score(c, r, Ci, X->data[i], cls[i], mag), other = -INFINITY;
    for (int k = 0; k < c->K; k++) if (k != cls[i]) { ld s = ref_score(c, r, Ci, X->data[i], k, mag); if (s > other) other = s; }
    if (own - other < worst) worst = own - other;
    if (own - other <= 0) (*errs)++;
  }
  return worst;
}

/* ------------------------------------------------------------------ prediction, sandboxed for 1-based labels */
/* ASan calls this weak hook before it prints (and symbolises, ~0.1 s) an error report: the sandbox child only needs
 * to die abnormally, so outside replay mode it leaves here.  Never active in the exploring process itself. */
static int IN_SANDBOX_CHILD = 0;
void __asan_on_error(void) { if (IN_SANDBOX_CHILD && !vx_replaying()) _exit(77); }
typedef struct { matrix *prob, *pred; int crashed; } pr_t;
static void predict_direct(LDAMODEL *m, matrix *xt, pr_t *o) {
  matrix *pf, *mn; initMatrix(&pf); initMatrix(&mn); initMatrix(&o->prob); initMatrix(&o->pred);
  LDAPrediction(xt, m, pf, o->prob, mn, o->pred);
  DelMatrix(&pf); DelMatrix(&mn); o->crashed = 0;
}
static int read_all(int fd, void *buf, size_t n) { size_t got = 0; while (got < n) { ssize_t r = read(fd, (char *)buf + got, n - got); if (r <= 0) return 0; got += (size_t)r; } return 1; }
static void predict(LDAMODEL *m, matrix *xt, int base, pr_t *o) {
  vx_transition(1);
  if (base == 0) { predict_direct(m, xt, o); return; }
  int fd[2]; if (pipe(fd) != 0) { fprintf(stderr, "C08: pipe failed\n"); _exit(2); }
  fflush(NULL);
  pid_t pid = fork();
  if (pid < 0) { fprintf(stderr, "C08: fork failed\n"); _exit(2); }
  if (pid == 0) {
    close(fd[0]); IN_SANDBOX_CHILD = 1;
    if (!vx_replaying()) { int dn = open("/dev/null", O_WRONLY); if (dn >= 0) { dup2(dn, 2); close(dn); } }
    pr_t q; predict_direct(m, xt, &q);
    size_t hdr[4] = {q.prob->row, q.prob->col, q.pred->row, q.pred->col};
    if (write(fd[1], hdr, sizeof hdr) != (ssize_t)sizeof hdr) _exit(3);
    for (size_t i = 0; i < q.prob->row; i++) if (write(fd[1], q.prob->data[i], sizeof(double) * q.prob->col) < 0) _exit(3);
    for (size_t i = 0; i < q.pred->row; i++) if (write(fd[1], q.pred->data[i], sizeof(double) * q.pred->col) < 0) _exit(3);
    _exit(0);
  }
  close(fd[1]);
  size_t hdr[4]; int ok = read_all(fd[0], hdr, sizeof hdr) && hdr[0] < 4096 && hdr[1] < 64 && hdr[2] < 4096 && hdr[3] < 64;
  o->prob = o->pred = NULL;
  if (ok) {
    o->prob = hm_new((int)hdr[0], (int)hdr[1], NULL); o->pred = hm_new((int)hdr[2], (int)hdr[3], NULL);
    for (size_t i = 0; ok && i < hdr[0]; i++) ok = read_all(fd[0], o->prob->data[i], sizeof(double) * hdr[1]);
    for (size_t i = 0; ok && i < hdr[2]; i++) ok = read_all(fd[0], o->pred->data[i], sizeof(double) * hdr[3]);
  }
  close(fd[0]);
  int st = 0; waitpid(pid, &st, 0);
  o->crashed = !(ok && (st & 0x7f) == 0 && ((st >> 8) & 0xff) == 0);
  if (o->crashed) { if (o->prob) DelMatrix(&o->prob); if (o->pred) DelMatrix(&o->pred); o->prob = o->pred = NULL; }
}
static void pr_free(pr_t *o) { if (o->prob) DelMatrix(&o->prob); if (o->pred) DelMatrix(&o->pred); }

/* optional measurement log (env C08_STATS=file): one line per judged quantity, used for the margins quoted in notes/C08.md */
static void stat_line(const char *what, double ratio, double extra) {
  static int fd = -2; if (fd == -2) { const char *f = getenv("C08_STATS"); fd = f ? open(f, O_WRONLY | O_CREAT | O_APPEND, 0644) : -1; }
  if (fd < 0) return;
  char b[200]; int n = snprintf(b, sizeof b, "%s %.6g %.6g\n", what, ratio, extra); if (write(fd, b, (size_t)n) < 0) fd = -1;
}
static const char *bname(int base) { return base ? "labels=1-based" : "labels=0-based"; }


/* ------------------------------------------------------------------ reused outputs
 * LDAPrediction must give the same result whatever its OUTPUT objects held before the call: empty (initMatrix), the result of
 * an earlier call of the same shape, or matrices of another shape.  probability, prediction and mnpdf are (re)sized by the
 * routine and every cell is assigned; the routine is single-threaded and never reads them before: compared bit for bit
 * (NaN == NaN, -0 == +0) with the result obtained with fresh outputs.  pfeatures is built with MatrixAppendCol (one column per
 * discriminant feature appended to whatever the caller passes, rows = the larger of the two counts): a used matrix is NOT
 * expected to be reset; only its trailing block (last nfeat columns, first nt rows) is compared, and both "appended" and
 * "reset and refilled" are accepted as its shape.
 * The calls run in the exploring process, also for labels numbered from 1 (they are made only after the sandboxed call on
 * the same model and objects returned normally). */
static int m_same(const matrix *a, const matrix *b) {
  if (a->row != b->row || a->col != b->col) return 0;
  for (size_t i = 0; i < a->row; i++) for (size_t j = 0; j < a->col; j++) { double x = a->data[i][j], y = b->data[i][j]; if (!(x == y || (x != x && y != y))) return 0; }
  return 1;
}
static matrix *m_dup(const matrix *a) { matrix *m; NewMatrix(&m, a->row, a->col); for (size_t i = 0; i < a->row; i++) memcpy(m->data[i], a->data[i], sizeof(double) * a->col); return m; }
static matrix *m_junk(int r, int c) { matrix *m; NewMatrix(&m, (size_t)r, (size_t)c); for (int i = 0; i < r; i++) for (int j = 0; j < c; j++) m->data[i][j] = 1e3 + 7.0 * i - 3.0 * j + 0.25; return m; }
static int pf_tail_same(const matrix *pf, size_t cols_before, const matrix *want) {
  if (!(pf->col == want->col || pf->col == cols_before + want->col) || pf->row < want->row) return 0;
  for (size_t i = 0; i < want->row; i++) for (size_t j = 0; j < want->col; j++) { double x = pf->data[i][pf->col - want->col + j], y = want->data[i][j]; if (!(x == y || (x != x && y != y))) return 0; }
  return 1;
}
typedef struct { matrix *pf, *pb, *mn, *pd; } out4;
static void out4_free(out4 *q) { DelMatrix(&q->pf); DelMatrix(&q->pb); DelMatrix(&q->mn); DelMatrix(&q->pd); }
static void reuse_call(const dcfg *c, const char *cls, const char *how, LDAMODEL *m, matrix *xt, out4 *q, const out4 *w) {
  size_t before = q->pf->col; char key[160];
  LDAPrediction(xt, m, q->pf, q->pb, q->mn, q->pd); vx_transition(1);
  int okb = m_same(q->pb, w->pb), okd = m_same(q->pd, w->pd), okm = m_same(q->mn, w->mn), okf = pf_tail_same(q->pf, before, w->pf);
  snprintf(key, sizeof key, "reuse|LDAPrediction|%s", cls);
  vx_check(okb && okd && okm && okf, key, "K=%d p=%d, %zu objects, labels from %d: LDAPrediction into outputs that %s: %s differs from the result with fresh outputs (probability %zux%zu, max difference %g; prediction %zux%zu; mnpdf %zux%zu, fresh %zux%zu; pfeatures %zux%zu, %zu columns before the call, fresh %zux%zu)",
           c->K, c->p, xt->row, c->base, how, !okb ? "probability" : !okd ? "prediction" : !okm ? "mnpdf" : "the trailing block of pfeatures", q->pb->row, q->pb->col, okb ? 0.0 : hm_maxdiff(q->pb, w->pb), q->pd->row, q->pd->col,
           q->mn->row, q->mn->col, w->mn->row, w->mn->col, q->pf->row, q->pf->col, before, w->pf->row, w->pf->col);
}
/* xt: the objects predicted (nt rows); xo: another matrix of the same features with another number of rows.
 * Every visit: the same four objects a second time.  LDAPrediction is the most expensive call of an execution under the
 * sanitizers (~1 ms for 64 objects x 5 classes), so ONE other previous shape is tried per visit, in rotation (rot): objects filled by
 * the prediction of xo (rows differ); hand-filled matrices with one more column each (no call with this model produces them);
 * hand-filled matrices with other numbers of rows and columns. */
static void judge_reuse(const dcfg *c, LDAMODEL *m, matrix *xt, matrix *xo, int rot) {
  out4 f, w; int nt = (int)xt->row;
  initMatrix(&f.pf); initMatrix(&f.pb); initMatrix(&f.mn); initMatrix(&f.pd);
  LDAPrediction(xt, m, f.pf, f.pb, f.mn, f.pd);
  w.pf = m_dup(f.pf); w.pb = m_dup(f.pb); w.mn = m_dup(f.mn); w.pd = m_dup(f.pd);
  int nf = (int)w.pf->col;
  reuse_call(c, "same-shape", "hold an earlier result of the same shape", m, xt, &f, &w);
  if (rot % 3 == 0) { out4 q; initMatrix(&q.pf); initMatrix(&q.pb); initMatrix(&q.mn); initMatrix(&q.pd);
    LDAPrediction(xo, m, q.pf, q.pb, q.mn, q.pd);
    reuse_call(c, "one-dim-differs", "held the result for another number of objects", m, xt, &q, &w); out4_free(&q); }
  else if (rot % 3 == 1) { out4 q = {m_junk(nt, nf + 1), m_junk(nt, c->K + 1), m_junk(nt, nf + 1), m_junk(nt, 2)};
    reuse_call(c, "one-dim-differs", "held matrices with the same number of objects and another number of columns", m, xt, &q, &w); out4_free(&q); }
  else { out4 q = {m_junk(nt + 2, nf + 3), m_junk(nt + 2, c->K + 3), m_junk(nt + 2, nf + 3), m_junk(nt + 2, 4)};
    reuse_call(c, "both-dims-differ", "held matrices with other numbers of rows and columns", m, xt, &q, &w); out4_free(&q); }
  out4_free(&f); out4_free(&w);
}

/* fit + predict; returns 0 if the outputs cannot be used */
static int fit_predict(const dcfg *c, matrix *X, matrix *Y, matrix *xt, LDAMODEL **mo, pr_t *o) {
  char key[160];
  LDAMODEL *m; NewLDAModel(&m); LDA(X, Y, m); vx_transition(1); *mo = m;
  predict(m, xt, c->base, o);
  if (o->crashed) {
    snprintf(key, sizeof key, "crash|LDAPrediction|%s", bname(c->base));
    vx_check(0, key, "LDAPrediction terminated abnormally (sanitizer report or signal) for %d classes, %d features, %d objects with labels starting at %d", c->K, c->p, c->n, c->base);
    return 0;
  }
  snprintf(key, sizeof key, "shape|LDAPrediction|%s", bname(c->base));
  int ok = o->prob->row == xt->row && (int)o->prob->col == c->K && o->pred->row == xt->row && o->pred->col == 1;
  vx_check(ok, key, "probability %zux%zu prediction %zux%zu for %zu objects and %d classes", o->prob->row, o->prob->col, o->pred->row, o->pred->col, xt->row, c->K);
  return ok;
}

/* allowance for comparing score differences of two fits: 1e3 * eps * (p+n) * kappa(S) * (sum of absolute terms) */
static double score_allowance(const dcfg *c, const ref_t *r, const matrix *xt) {
  ld mW = 0, mT = 0;
  for (size_t i = 0; i < xt->row; i++) for (int k = 0; k < c->K; k++) { ref_score(c, r, r->Wi, xt->data[i], k, &mW); ref_score(c, r, r->Ti, xt->data[i], k, &mT); }
  ld a = r->kW * mW, b = r->kT * mT;
  return (double)(1e3 * DEPS * (c->p + c->n) * (a > b ? a : b));
}

/* ------------------------------------------------------------------ mode 0 */
static void judge_model(const dcfg *c, matrix *X, const int *cls, const ref_t *r, LDAMODEL *m, matrix *xt, const pr_t *o, int have_pred) {
  char key[160]; int K = c->K, p = c->p;
  /* priors = class frequencies, summing to 1 */
  snprintf(key, sizeof key, "prior|LDA|%s", bname(c->base));
  int okp = (int)m->pprob->size == K; double sum = 0;
  for (int k = 0; okp && k < K; k++) { sum += m->pprob->data[k]; if (fabs(m->pprob->data[k] - (double)c->nk[k] / c->n) > 4 * DEPS) okp = 0; }
  vx_check(okp && fabs(sum - 1) <= 4 * K * DEPS, key, "K=%d sizes %d,%d..: %zu priors, sum %.17g", K, c->nk[0], c->nk[1], m->pprob->size, sum);
  /* class means */
  int flush = 0; double worst = 0;
  int okm = (int)m->mu->row == K && (int)m->mu->col == p;
  for (int k = 0; okm && k < K; k++) for (int j = 0; j < p; j++) {
    ld s = 0, mx = 0; for (int i = 0; i < c->n; i++) if (cls[i] == k) { s += X->data[i][j]; if (fabsl(X->data[i][j]) > mx) mx = fabsl(X->data[i][j]); }
    if (fabsl(s) < 1.001e-6L) flush = 1;
    double d = fabs(m->mu->data[k][j] - (double)RM(r->mu, k, j)), a = 64 * DEPS * (c->nk[k] + 2) * (double)mx;
    if (!(d <= a)) okm = 0; if (a > 0 && d / a > worst) worst = d / a;
  }
  snprintf(key, sizeof key, "mean|LDA|%s%s", bname(c->base), flush ? ",abs(colsum)<1e-6" : "");
  vx_check(okm, key, "K=%d p=%d: stored class means %zux%zu differ from the per-class averages (worst error/allowance %.3g)", K, p, m->mu->row, m->mu->col, worst);
  vx_log("means: worst error/allowance %.3g\n", worst); stat_line("mean", worst, 0);
  if (!have_pred) return;

  int nt = (int)xt->row, lab_ok = 1, arg_ok = 1, bad_i = -1;
  for (int i = 0; i < nt; i++) {
    double v = o->pred->data[i][0];
    if (!(v == floor(v) && v >= c->base && v < c->base + K)) { lab_ok = 0; if (bad_i < 0) bad_i = i; continue; }
    double mx = -INFINITY; for (int k = 0; k < K; k++) if (o->prob->data[i][k] > mx) mx = o->prob->data[i][k];
    if (!(o->prob->data[i][(int)v - c->base] >= mx - 1e-9 * fmax(1.0, fabs(mx)))) { arg_ok = 0; if (bad_i < 0) bad_i = i; }
  }
  snprintf(key, sizeof key, "label|LDAPrediction|%s", bname(c->base));
  vx_check(lab_ok, key, "object %d: predicted label %.17g does not occur among the training labels %d..%d", bad_i, bad_i >= 0 ? o->pred->data[bad_i][0] : 0.0, c->base, c->base + K - 1);
  snprintf(key, sizeof key, "argmax|LDAPrediction|%s", bname(c->base));
  vx_check(arg_ok, key, "object %d: the predicted label does not maximise the stored discriminant scores", bad_i);

  /* stored score differences are the linear discriminant of the stored priors, means and inverse covariance */
  if (okp && okm && (int)m->inv_cov->row == p && (int)m->inv_cov->col == p) {
    double wr = 0; int okd = 1;
    for (int i = 0; i < nt; i++) {
      ld f[KMAX], mg = 0;
      for (int k = 0; k < K; k++) { ld s = 0;
        for (int a = 0; a < p; a++) for (int b = 0; b < p; b++) { ld t1 = (ld)m->mu->data[k][a] * m->inv_cov->data[a][b] * xt->data[i][b], t2 = (ld)m->mu->data[k][a] * m->inv_cov->data[a][b] * m->mu->data[k][b] / 2; s += t1 - t2; mg += fabsl(t1) + fabsl(t2); }
        f[k] = s + logl((ld)m->pprob->data[k]); mg += fabsl(logl((ld)m->pprob->data[k])); }
      for (int k = 1; k < K; k++) { double d = fabs((o->prob->data[i][k] - o->prob->data[i][0]) - (double)(f[k] - f[0])), a = 64 * DEPS * (p + 2) * (p + 2) * (double)mg; if (!(d <= a)) okd = 0; if (a > 0 && d / a > wr) wr = d / a; }
    }
    snprintf(key, sizeof key, "score-def|LDAPrediction|%s", bname(c->base));
    vx_check(okd, key, "stored score differences are not mu_k' C x - mu_k' C mu_k/2 + ln prior_k of the stored model (worst error/allowance %.3g)", wr);
    vx_log("score-def: worst error/allowance %.3g\n", wr); stat_line("score-def", wr, 0);
  }
}

static void judge_separation(const dcfg *c, matrix *X, const int *cls, const ref_t *r, const pr_t *o) {
  int eW, eT; ld mag = 0;
  ld mW = ref_margin(c, r, r->Wi, X, cls, &eW, &mag), mT = ref_margin(c, r, r->Ti, X, cls, &eT, &mag);
  vx_log("separation: textbook margin %.3Lg (errors %d), total-covariance rule margin %.3Lg (errors %d)\n", mW, eW, mT, eT);
  int errs = 0, first = -1;
  for (int i = 0; i < c->n; i++) if (o->pred->data[i][0] != (double)(c->base + cls[i])) { errs++; if (first < 0) first = i; }
  stat_line(mW >= 20 ? (mT < 1e-6 ? "sep-judged-Trule-errs" : "sep-judged-Trule-ok") : "sep-not-judged", (double)mW, errs);
  if (!(mW >= 20)) return;                      /* not "well separated": nothing is demanded */
  char key[160], cl[80] = "";
  if (c->base) strcat(cl, "labels=1-based");
  if (mT < 1e-6) strcat(cl, cl[0] ? ",grand-mean-scatter" : "grand-mean-scatter");   /* the total-covariance rule itself errs (or ties) on this set */
  if (!cl[0]) strcpy(cl, "other");
  snprintf(key, sizeof key, "separation|LDAPrediction|%s", cl);
  vx_check(errs == 0, key, "K=%d p=%d sizes %d,%d.. layout %d: reference margin %.3Lg >= 20 but %d of %d training objects are misclassified (first: object %d, class %d, predicted %.17g); a rule using the total covariance would make %d errors",
           c->K, c->p, c->nk[0], c->nk[1], c->layout, mW, errs, c->n, first, first >= 0 ? c->base + cls[first] : 0, first >= 0 ? o->pred->data[first][0] : 0.0, eT);
}

/* compare score differences (class k minus class 0) and labels of two predictions of the same objects */
static void judge_same(const dcfg *c, const pr_t *a, const pr_t *b, double allow, const char *what, const char *fn) {
  char key[160]; int nt = (int)a->prob->row, okd = 1, okl = 1; double wr = 0; int bi = -1, bk = -1;
  for (int i = 0; i < nt; i++) {
    double g1 = INFINITY, g2 = INFINITY, m1 = -INFINITY, m2 = -INFINITY, s1 = -INFINITY, s2 = -INFINITY;
    for (int k = 0; k < c->K; k++) {
      double d = fabs((a->prob->data[i][k] - a->prob->data[i][0]) - (b->prob->data[i][k] - b->prob->data[i][0]));
      if (!(d <= allow)) { okd = 0; if (bi < 0) { bi = i; bk = k; } } if (allow > 0 && d / allow > wr) wr = d / allow;
      double v = a->prob->data[i][k]; if (v > m1) { s1 = m1; m1 = v; } else if (v > s1) s1 = v;
      v = b->prob->data[i][k]; if (v > m2) { s2 = m2; m2 = v; } else if (v > s2) s2 = v;
    }
    g1 = m1 - s1; g2 = m2 - s2;
    if (g1 > 4 * allow && g2 > 4 * allow && a->pred->data[i][0] != b->pred->data[i][0]) okl = 0;     /* ties are never judged */
  }
  snprintf(key, sizeof key, "%s|%s|%s", what, fn, bname(c->base));
  vx_check(okd, key, "K=%d p=%d n=%d: a discriminant-score difference changes (object %d class %d, worst change/allowance %.3g, allowance %.3g)", c->K, c->p, c->n, bi, bk, wr, allow);
  snprintf(key, sizeof key, "%s-label|%s|%s", what, fn, bname(c->base));
  vx_check(okl, key, "K=%d p=%d n=%d: a prediction with a clear score gap changes", c->K, c->p, c->n);
  double dmax = 0; for (int i = 0; i < nt; i++) for (int k = 1; k < c->K; k++) dmax = fmax(dmax, fabs(a->prob->data[i][k] - a->prob->data[i][0]));
  vx_log("%s: worst change/allowance %.3g (allowance %.3g, largest score difference %.3g)\n", what, wr, allow, dmax); stat_line(what, wr, allow / dmax);
}

static void choose_data(dcfg *c) {
  int T = vx_thorough();
  memset(c, 0, sizeof *c);
  c->K = 2 + vx_choose("classes-2", 4); c->p = 2 + vx_choose("features-2", T ? 5 : 3); c->sz = vx_choose("sizes", 4);
}
static void affine_map(int id, int p, double *A, double *cvec) {
  static const double KAP[7] = {1, 1, 10, 10, 100, 100, 1}, S1[7] = {1, 1, 3, 1, 2, 5, 1e-5};   /* the last: features in units 1e5 times smaller */
  double s[PMAX];
  for (int j = 0; j < p; j++) s[j] = S1[id] * pow(KAP[id], -(double)j / (p - 1));
  vg_spectral_s(40 + id, p, p, s, A);
  for (int j = 0; j < p; j++) cvec[j] = (id & 1) ? 20 * vg_val(77 + id, j, 0) : 0.0;
}
static matrix *apply(const matrix *X, int p, const double *A, const double *cvec) {
  matrix *o = hm_new((int)X->row, p, NULL);
  for (size_t i = 0; i < X->row; i++) for (int a = 0; a < p; a++) { ld s = cvec[a]; for (int b = 0; b < p; b++) s += (ld)A[a * p + b] * X->data[i][b]; o->data[i][a] = (double)s; }
  return o;
}
/* the library flushes a column average whose raw SUM is within 1e-6 of zero (C11 known finding): keep clear of it */
static int near_flush(const dcfg *c, const matrix *X, const int *cls) {
  for (int j = 0; j < c->p; j++) { ld tot = 0, s[KMAX] = {0}; for (int i = 0; i < c->n; i++) { tot += X->data[i][j]; s[cls[i]] += X->data[i][j]; }
    if (fabsl(tot) < 4e-6L) return 1; for (int k = 0; k < c->K; k++) if (fabsl(s[k]) < 4e-6L) return 1; }
  return 0;
}

static void mode_model(void) {
  dcfg c; choose_data(&c);
  c.base = vx_choose("labelbase", 2); c.layout = vx_choose("layout", 2); c.sep = vx_choose("separation", 2);
  c.fam = vx_choose("fam", vx_thorough() ? 3 : 1);
  int map = vx_choose("affine", 7);
  matrix *X, *Y; int *cls; gen(&c, &X, &Y, &cls);
  matrix *xt = testset(&c, X);
  ref_t r; ref_build(&c, X, cls, &r);
  vx_require(r.ok && r.kW <= 1e6L && r.kT <= 1e8L && !near_flush(&c, X, cls));    /* non-singular pooled covariance */
  /* affine re-coding of training and test features alike */
  double A[PMAX * PMAX], cv[PMAX]; affine_map(map, c.p, A, cv);
  matrix *X2 = apply(X, c.p, A, cv), *xt2 = apply(xt, c.p, A, cv);
  ref_t r2; ref_build(&c, X2, cls, &r2);
  vx_require(r2.ok && !near_flush(&c, X2, cls));
  LDAMODEL *m, *m2 = NULL; pr_t o, o2 = {NULL, NULL, 0};
  int have = fit_predict(&c, X, Y, xt, &m, &o);
  judge_model(&c, X, cls, &r, m, xt, &o, have);
  uint64_t h = hv_hash(m->pprob, 1); h = hm_hash(m->mu, h);
  int rot = c.K + c.p + c.sz + c.base + c.layout + c.sep + c.fam + map;
  if (have) {
    /* reused outputs, every execution of this mode: affine map 0 -> the model of the data as generated (the same model for all six
     * maps), maps 1..5 -> the model of the re-coded data */
    if (map == 0) judge_reuse(&c, m, xt, X, rot);
    judge_separation(&c, X, cls, &r, &o);
    if (fit_predict(&c, X2, Y, xt2, &m2, &o2)) {
      if (map != 0) judge_reuse(&c, m2, xt2, X2, rot);
      double allow = score_allowance(&c, &r, xt) + score_allowance(&c, &r2, xt2);
      judge_same(&c, &o, &o2, allow, "affine", "LDA+LDAPrediction");
      h = hm_hash(o2.pred, h);
    }
    h = hm_hash(o.pred, h);
  }
  vx_outcome(h);
  pr_free(&o); pr_free(&o2); DelLDAModel(&m); if (m2) DelLDAModel(&m2);
  ref_free(&r); ref_free(&r2); DelMatrix(&X); DelMatrix(&Y); DelMatrix(&xt); DelMatrix(&X2); DelMatrix(&xt2); free(cls);
}

/* ------------------------------------------------------------------ mode 1: row order */
static void mode_roworder(void) {
  dcfg c; choose_data(&c);
  c.base = vx_choose("labelbase", 2); c.layout = 0; c.sep = vx_choose("separation", 2); c.fam = 0;
  matrix *X, *Y; int *cls; gen(&c, &X, &Y, &cls);
  int n = c.n, perm[NOBJ];
  int full = (n == 8 && c.base == 0 && c.sep == 0 && (vx_thorough() || c.p == 2)), permid = 0;
  if (full) vg_perm(8, 1 + (permid = vx_choose("perm", 40319)), perm);
  else {
    int t = vx_choose("perm", 8);
    if (t == 0) for (int i = 0; i < n; i++) perm[i] = (i + 1) % n;
    else if (t == 1) for (int i = 0; i < n; i++) perm[i] = n - 1 - i;
    else { for (int i = 0; i < n; i++) perm[i] = i;
      for (int i = 1; i < n; i++) { int v = perm[i], j = i; while (j > 0 && vg_val(900 + t, perm[j - 1], 0) > vg_val(900 + t, v, 0)) { perm[j] = perm[j - 1]; j--; } perm[j] = v; } }
  }
  matrix *xt = testset(&c, X);
  ref_t r; ref_build(&c, X, cls, &r);
  vx_require(r.ok && r.kW <= 1e6L && r.kT <= 1e8L && !near_flush(&c, X, cls));
  matrix *X2 = hm_new(n, c.p, NULL), *Y2 = hm_new(n, 1, NULL);
  for (int i = 0; i < n; i++) { memcpy(X2->data[i], X->data[perm[i]], sizeof(double) * (size_t)c.p); Y2->data[i][0] = Y->data[perm[i]][0]; }
  LDAMODEL *m, *m2 = NULL; pr_t o, o2 = {NULL, NULL, 0};
  int h1 = fit_predict(&c, X, Y, xt, &m, &o), h2 = h1 ? fit_predict(&c, X2, Y2, xt, &m2, &o2) : 0;
  uint64_t h = hm_hash(m->mu, 2);
  /* reused outputs: the model of the re-ordered training set; of the 40319 orders of the 2x4 set every 64th (the shapes are
   * the same for all of them), every execution otherwise */
  if (h1 && h2 && permid % 64 == 0) judge_reuse(&c, m2, xt, X2, c.K + c.p + c.sz + c.base + c.sep + permid / 64 + perm[0]);
  if (h1 && h2) {
    judge_same(&c, &o, &o2, score_allowance(&c, &r, xt), "roworder", "LDA+LDAPrediction");
    /* the stored model itself: priors identical, means to rounding */
    char key[160]; snprintf(key, sizeof key, "roworder-model|LDA|%s", bname(c.base));
    int ok = m->pprob->size == m2->pprob->size && m->mu->row == m2->mu->row && m->mu->col == m2->mu->col;
    for (size_t k = 0; ok && k < m->pprob->size; k++) if (m->pprob->data[k] != m2->pprob->data[k]) ok = 0;
    if (ok) ok = hm_maxdiff(m->mu, m2->mu) <= 64 * DEPS * (n + 2) * hm_maxabs(X);
    vx_check(ok, key, "priors or class means depend on the order of the training objects");
    h = hm_hash(o2.pred, hm_hash(o.prob, h));
  }
  vx_outcome(h);
  pr_free(&o); pr_free(&o2); if (m2) DelLDAModel(&m2);
  DelLDAModel(&m); ref_free(&r); DelMatrix(&X); DelMatrix(&Y); DelMatrix(&X2); DelMatrix(&Y2); DelMatrix(&xt); free(cls);
}

/* ------------------------------------------------------------------ mode 2: multiclass ROC summaries */
static void mode_roc(void) {
  int K = 2 + vx_choose("classes-2", 4), sz = vx_choose("sizes", 4), arr = vx_choose("arrangement", 3);
  int n = SIZES[sz][0] + (K - 1) * SIZES[sz][1], lab[NOBJ], i = 0;
  for (int k = 0; k < K; k++) for (int t = 0; t < SIZES[sz][k ? 1 : 0]; t++) lab[i++] = k;
  matrix *yt = hm_new(n, 1, NULL), *yp = hm_new(n, 1, NULL);
  for (i = 0; i < n; i++) { int src = arr == 0 ? i : arr == 1 ? n - 1 - i : (i * 7 + 3) % n; if (arr == 2 && n % 7 == 0) src = (i * 5 + 3) % n; yt->data[i][0] = yp->data[i][0] = lab[src]; }
  tensor *roc, *pr; dvector *auc, *prauc; initTensor(&roc); initTensor(&pr); initDVector(&auc); initDVector(&prauc);
  LDAMulticlassStatistics(yt, yp, roc, auc, pr, prauc); vx_transition(1);
  int want = K == 2 ? 1 : K, ok = ((int)auc->size == want || (int)auc->size == K); double worst = 0;
  for (size_t k = 0; k < auc->size; k++) { double d = fabs(auc->data[k] - 1.0); if (!(d <= 1e-12)) ok = 0; if (d > worst || d != d) worst = d; }
  vx_check(ok, "auc|LDAMulticlassStatistics|perfect-predictions", "%d classes, %d objects, predictions identical to the true labels: %zu AUC values, worst |AUC-1| = %.3g (first %.6g)", K, n, auc->size, worst, auc->size ? auc->data[0] : 0.0);
  vx_outcome(hv_hash(auc, 3));
  DelTensor(&roc); DelTensor(&pr); DelDVector(&auc); DelDVector(&prauc); DelMatrix(&yt); DelMatrix(&yp);
}

static void body(void) {
  switch (vx_choose("mode", 3)) {
    case 0: mode_model(); break;
    case 1: mode_roworder(); break;
    case 2: mode_roc(); break;
  }
}

int main(int argc, char **argv) {
  vg_seed(getenv("VERIF_SEED") ? atol(getenv("VERIF_SEED")) : 0);
  vx_describe("alphabet", "classes 2..5 x features 2..4[..6] x sizes {(4,4..),(6,4..),(12,4..),(40,5..)} x label base {0,1} x centres {lattice, collinear 0/1/10/11/30} x separation {0.5, 8} x 7 affine maps (kappa 1,10,100, with/without translation; pure scaling by 1e-5); row orders: all 8! for the 2x4 set, 8 fixed permutations otherwise; ROC: classes x sizes x 3 arrangements");
  vx_describe("oracle", "priors=frequencies; means=class averages (64*eps*(n_k+2)*max|x|); label in training labels and arg-max of stored scores; stored score differences = linear discriminant of the stored model; textbook long-double LDA margin>=20 => zero errors; score differences invariant under affine maps / row order (1e3*eps*(p+n)*kappa(S)*sum|terms|); AUC=1 for perfect predictions; LDAPrediction into reused outputs (same shape, one or both dimensions different) = result with fresh outputs, bit for bit (pfeatures: trailing block, append convention)");
  vx_set_shard_depth(4);
  vx_expect_outcomes(100);
  return vx_main(argc, argv, "C08", body);
}
