/* C09 -- CPCA super scores are the PCA scores of the block-scaled concatenation.
 *
 * Enumerates block structures (2..4 blocks, widths from {1,2,3,5,8}, total <= 12), objects {5,8,30},
 * scaling 0..5, npc 1..min(block width, rank), two spectral ratios, processor counts {1,3}.
 * Reference: Z = [E_b / sqrt(w_b)] built from the public per-block MatrixPreprocess (the model's stored
 * centring/scaling must equal it), principal axes of Z by cyclic Jacobi in long double.
 * The library's own PCA(Z) is compared second, with both allowances (DESIGN 6.0). */
#include "C01_pcacommon.h"

#define NR 30
#define NC 12
#define MAXB 4
static const int WIDTHS[5] = {1, 2, 3, 5, 8};
static const double OFFS[4] = {1.0, -7.5, 2.5, 40.0};
static int TUP[3][700][MAXB], NTUP[3];

static void build_tuples(void) {
  for (int nb = 2; nb <= 4; nb++) {
    int cnt = 0, tot = 1; for (int i = 0; i < nb; i++) tot *= 5;
    for (int c = 0; c < tot; c++) { int w[MAXB], s = 0, x = c; for (int i = nb - 1; i >= 0; i--) { w[i] = WIDTHS[x % 5]; x /= 5; s += w[i]; } if (s <= NC) { memcpy(TUP[nb - 2][cnt], w, sizeof(int) * (size_t)nb); cnt++; } }
    NTUP[nb - 2] = cnt;
  }
}

/* same generator as C02: exactly centred, singular values s[0..m-1] */
static void gen_centered_spectral(int k, int n, int p, const double *s, double *out) {
  int m = (n - 1) < p ? (n - 1) : p;
  ld *U = calloc((size_t)n * (size_t)m + 1, sizeof(ld));
  for (int j = 0; j < m; j++) {
    ld mu = 0; for (int i = 0; i < n; i++) { U[i * m + j] = vg_val(1000 + k, i, j); mu += U[i * m + j]; } mu /= n;
    for (int i = 0; i < n; i++) U[i * m + j] -= mu;
    for (int pass = 0; pass < 2; pass++) for (int q = 0; q < j; q++) { ld d = 0; for (int i = 0; i < n; i++) d += U[i * m + j] * U[i * m + q]; for (int i = 0; i < n; i++) U[i * m + j] -= d * U[i * m + q]; }
    ld nr = 0; for (int i = 0; i < n; i++) nr += U[i * m + j] * U[i * m + j]; nr = sqrtl(nr);
    for (int i = 0; i < n; i++) U[i * m + j] /= nr;
  }
  double *V = malloc(sizeof(double) * (size_t)(p * p + 1)); vg_orth(k + 7, p, V);
  for (int i = 0; i < n; i++) for (int j = 0; j < p; j++) { ld a = 0; for (int t = 0; t < m; t++) a += U[i * m + t] * s[t] * V[j * p + t]; out[i * p + j] = (double)a; }
  free(U); free(V);
}


/* ---------------------------------------------------------------- reused outputs
 * CPCAScorePredictor must give the same result whatever its OUTPUT objects held before the call.  p_super_scores is resized by
 * the routine and every cell is assigned: compared bit for bit (NaN == NaN, -0 == +0) with the result obtained with fresh
 * outputs (the worker threads of the MT_ kernel write disjoint slices; inline here).  p_block_scores is built with
 * TensorAppendMatrix (one n x blocks matrix per component appended to whatever the caller passes; the library aborts by design
 * if the tensor's last block has another number of rows): a used tensor is NOT expected to be reset, only its trailing npc
 * blocks are compared, both "appended" and "reset and refilled" are accepted as its order, and a tensor holding block scores
 * of another number of objects is outside the routine's domain and never passed. */
static int m_same(const matrix *a, const matrix *b) {
  if (a->row != b->row || a->col != b->col) return 0;
  for (size_t i = 0; i < a->row; i++) for (size_t j = 0; j < a->col; j++) { double x = a->data[i][j], y = b->data[i][j]; if (!(x == y || (x != x && y != y))) return 0; }
  return 1;
}
static matrix *m_junk(int r, int c) { matrix *m; NewMatrix(&m, (size_t)r, (size_t)c); for (int i = 0; i < r; i++) for (int j = 0; j < c; j++) m->data[i][j] = 1e3 + 7.0 * i - 3.0 * j + 0.25; return m; }
static int t_tail_same(const tensor *t, size_t before, matrix **want, int a) {
  if (!(t->order == (size_t)a || t->order == before + (size_t)a)) return 0;
  for (int k = 0; k < a; k++) if (!m_same(t->m[t->order - (size_t)a + (size_t)k], want[k])) return 0;
  return 1;
}
static void reuse_call(const char *cls, const char *how, const char *ctx, tensor *x, CPCAMODEL *mod, int a, int nproc, matrix *ps, tensor *pb, const matrix *wps, matrix **wpb) {
  size_t before = pb->order; char key[96];
  fit_begin(nproc, 0, "nonterm|CPCAScorePredictor");
  CPCAScorePredictor(x, mod, (size_t)a, ps, pb); vx_transition(1);
  int oks = m_same(ps, wps), okb = t_tail_same(pb, before, wpb, a);
  snprintf(key, sizeof key, "reuse|CPCAScorePredictor|%s", cls);
  vx_check(oks && okb, key, "%s: CPCAScorePredictor into outputs that %s: %s differ from the result with fresh outputs (super scores %zux%zu, fresh %zux%zu, max difference %g; block score tensor order %zu, %zu before the call)",
           ctx, how, !oks ? "the super scores" : "the trailing blocks of the block scores", ps->row, ps->col, wps->row, wps->col, oks ? 0.0 : hm_maxdiff(ps, wps), pb->order, before);
}

static void body(void) {
  int nb = 2 + vx_choose("blocks-2", 3);
  const int *w = TUP[nb - 2][vx_choose("widths", NTUP[nb - 2])];
  static const int NS[5] = {5, 8, 30, 6, 13};
  int n = NS[vx_choose("objects", vx_thorough() ? 5 : 3)];
  int scaling = vx_choose("scaling", 6);
  double ratio = vx_choose("ratio", 2) ? 0.6 : 0.3;
  int fam = vx_choose("fam", vx_thorough() ? 4 : 1);
  int nproc = vx_choose("nproc", 2) ? 3 : 1;
  int ptot = 0, minw = NC, col0[MAXB]; for (int b = 0; b < nb; b++) { col0[b] = ptot; ptot += w[b]; if (w[b] < minw) minw = w[b]; }
  int m = (n - 1) < ptot ? (n - 1) : ptot;

  /* ---- input: spectral on the concatenation, then split */
  static double E0_[NR * NC], X_[NR * NC];
  double s[NC + 1]; for (int i = 0; i < m; i++) s[i] = i ? s[i - 1] * ratio : 1.0;
  gen_centered_spectral(fam * 11 + nb, n, ptot, s, E0_);
  { rmat *G = rm_new(n, ptot); for (int i = 0; i < n * ptot; i++) G->a[i] = E0_[i];
    ld minsd = INFINITY; for (int j = 0; j < ptot; j++) { ld sd; rm_col_stats(G, j, NULL, NULL, &sd, NULL, NULL, NULL); if (sd < minsd) minsd = sd; }
    rm_free(G); vx_require(minsd > 0);
    double f = (double)(0.5L / minsd); for (int i = 0; i < n * ptot; i++) E0_[i] *= f; }
  for (int i = 0; i < n; i++) for (int j = 0; j < ptot; j++) X_[i * ptot + j] = E0_[i * ptot + j] + OFFS[j % 4];
  /* one variable without spread inside a block of >= 2 variables (preprocessing switches it off; the block is still
   * divided by the square root of its NUMBER OF VARIABLES, as the statement says) */
  { int cc = vx_choose_dev("constcol", 3);   /* 1: the last variable of the first block with >= 2 variables; 2: the very first variable of the first block */
    if (cc == 1) { int b0 = -1; for (int b = 0; b < nb && b0 < 0; b++) if (w[b] >= 2) b0 = b; vx_require(b0 >= 0);
      for (int i = 0; i < n; i++) X_[i * ptot + col0[b0] + w[b0] - 1] = 2.5; }
    if (cc == 2) { vx_require(w[0] >= 2); for (int i = 0; i < n; i++) X_[i * ptot] = 2.5; } }
  /* data in small units (everything x 1e-6, centred only or Pareto): the decomposition is scale-equivariant, every allowance
   * below is relative, so only a stopping rule or guard that is absolute in the data units can tell the difference */
  { int un = vx_choose_dev("units", 2); if (un) { vx_require(scaling == 0 || scaling == 2); for (int i = 0; i < n * ptot; i++) X_[i] *= 1e-6; } }
  tensor *x; NewTensor(&x, (size_t)nb);
  for (int b = 0; b < nb; b++) { NewTensorMatrix(x, (size_t)b, (size_t)n, (size_t)w[b]); for (int i = 0; i < n; i++) for (int j = 0; j < w[b]; j++) x->m[b]->data[i][j] = X_[i * ptot + col0[b] + j]; }

  /* ---- reference: per-block public preprocessing, block scaling, principal axes */
  rmat *Z = rm_new(n, ptot); rmat *Eb[MAXB]; dvector *avg[MAXB], *scl[MAXB]; ld Fb[MAXB];
  for (int b = 0; b < nb; b++) {
    matrix *e; NewMatrix(&e, (size_t)n, (size_t)w[b]); initDVector(&avg[b]); initDVector(&scl[b]);
    MatrixPreprocess(x->m[b], scaling, avg[b], scl[b], e); vx_transition(1);
    Eb[b] = rm_from(e); Fb[b] = rm_fro(Eb[b]);
    ld sq = sqrtl((ld)w[b]);
    for (int i = 0; i < n; i++) for (int j = 0; j < w[b]; j++) RM(Z, i, col0[b] + j) = RM(Eb[b], i, j) / sq;
    DelMatrix(&e);
  }
  int mz = n < ptot ? n : ptot; ld lam[NC + 2]; rmat *V = rm_new(ptot, mz), *T = rm_new(n, mz);
  ref_axes(Z, lam, V, T); lam[mz] = 0;
  vx_require(lam[0] > 0);
  ld trace = 0; for (int i = 0; i < n * ptot; i++) trace += Z->a[i] * Z->a[i];
  int rank = 0; for (int i = 0; i < mz; i++) { ld q = lam[i] / lam[0]; if (q > 1e-12L) rank++; }   /* components are judged only where the spectrum is separated, see below */
  int amax = minw < rank ? minw : rank;
  vx_require(amax >= 1);
  int a = 1 + vx_choose("npc-1", amax);
  ld sig1 = sqrtl(lam[0]);
  double dc = nipals_delta(n, DOC_CPCACONVERGENCE), dp = nipals_delta(n, DOC_PCACONVERGENCE);
  int judged[NC]; double allow[NC], allow_pca[NC], vallow[NC]; int njudged = 0;
  { double r = 0; for (int k = 0; k < a; k++) judged[k] = 0;
    for (int k = 0; k < a; k++) {
      double rk = (double)(lam[k + 1] / lam[k]); if (rk > r) r = rk;
      if (r > 0.9) break;
      judged[k] = 1; njudged++;
      ld sk = sqrtl(lam[k]);
      double floor_ = 1e3 * DEPS * (n + ptot) * (double)(sig1 / sk) / (1 - r);
      allow[k] = nipals_allow(k + 1, dc, r) + floor_;
      allow_pca[k] = nipals_allow(k + 1, dp, r) + floor_;
      vallow[k] = 100 * (double)((4 * allow[k] * sig1 * sk + allow[k] * allow[k] * lam[0] + 2 * dc * lam[k]) / trace) + 100 * 64 * DEPS * (n * ptot + 2);
    } }
  vx_require(njudged > 0);

  /* ---- the fit under test */
  H_INPUT_HASH = vx_hash_doubles(X_, (size_t)(n * ptot), (uint64_t)(scaling + 8 * a + 64 * nb));
  CPCAMODEL *mod; NewCPCAModel(&mod);
  char key[160]; static char TK[160]; snprintf(TK, sizeof TK, "nonterm|CPCA|scaling=%d", scaling);
  fit_begin(nproc, 0, TK);
  CPCA(x, scaling, (size_t)a, mod); vx_transition(1);
  int shp = (int)mod->super_scores->row == n && (int)mod->super_scores->col == a && (int)mod->super_weights->row == nb && (int)mod->super_weights->col == a
            && (int)mod->block_scores->order == a && (int)mod->block_loadings->order == nb && (int)mod->total_expvar->size == a && (int)mod->block_expvar->size == a
            && (int)mod->scaling_factor->size == nb && (int)mod->colaverage->size == nb && (int)mod->colscaling->size == nb;
  for (int k = 0; shp && k < a; k++) shp = (int)mod->block_scores->m[k]->row == n && (int)mod->block_scores->m[k]->col == nb && (int)mod->block_expvar->d[k]->size == nb;
  for (int b = 0; shp && b < nb; b++) shp = (int)mod->block_loadings->m[b]->row == w[b] && (int)mod->block_loadings->m[b]->col == a;
  vx_check(shp, "shape|CPCA", "%d blocks n=%d npc %d: model has unexpected shapes", nb, n, a);
  if (!shp) { vx_outcome(vx_hash_doubles(X_, (size_t)(n * ptot), (uint64_t)(5 + 16 * scaling + 256 * nb))); return; }
  int fin = hm_allfinite(mod->super_scores) && hm_allfinite(mod->super_weights) && hv_allfinite(mod->total_expvar);
  for (int k = 0; k < a; k++) fin = fin && hm_allfinite(mod->block_scores->m[k]) && hv_allfinite(mod->block_expvar->d[k]);
  for (int b = 0; b < nb; b++) fin = fin && hm_allfinite(mod->block_loadings->m[b]);
  vx_check(fin, "finite|CPCA", "%d blocks n=%d scaling %d npc %d: non-finite model", nb, n, scaling, a);
  if (!fin) { vx_outcome(vx_hash_doubles(X_, (size_t)(n * ptot), (uint64_t)(6 + 16 * scaling + 256 * nb))); return; }

  /* blocks "preprocessed identically": stored centring/scaling = public preprocessing; factor = sqrt(width) */
  { int okp = 1; double worstf = 0;
    for (int b = 0; b < nb; b++) {
      if (hv_maxdiff(mod->colaverage->d[b], avg[b]) != 0 || hv_maxdiff(mod->colscaling->d[b], scl[b]) != 0) okp = 0;
      double d = fabs(mod->scaling_factor->data[b] - (double)sqrtl((ld)w[b])); if (d > worstf) worstf = d;
    }
    vx_check(okp, "stored-prep|CPCA", "stored per-block colaverage/colscaling differ from MatrixPreprocess");
    vx_check(worstf <= 4 * DEPS * sqrt((double)NC), "scaling-factor|CPCA", "block scaling factor differs from sqrt(width) by %g", worstf); }

  /* ---- super scores = reference principal scores of Z; total explained variance = lambda_k / trace */
  for (int k = 0; k < a; k++) if (judged[k]) {
    ld ab = 0; for (int i = 0; i < n; i++) ab += mod->super_scores->data[i][k] * RM(T, i, k);
    int sg = ab < 0 ? -1 : 1; ld d2 = 0; for (int i = 0; i < n; i++) { ld d = mod->super_scores->data[i][k] - sg * RM(T, i, k); d2 += d * d; }
    double ds = (double)sqrtl(d2), tol = allow[k] * (double)sig1;
    margin_note("super-score", ds, tol);
    vx_check(ds <= tol, "super-score|CPCA|vs-reference", "%d blocks (total width %d) n=%d scaling %d nproc %d: |super score %d -/+ reference PCA score| = %.3g (allowance %.3g)", nb, ptot, n, scaling, nproc, k + 1, ds, tol);
    double ve = 100 * (double)(lam[k] / trace), dv = fabs(mod->total_expvar->data[k] - ve);
    margin_note("total-expvar", dv, vallow[k]);
    vx_check(dv <= vallow[k], "total-expvar|CPCA", "%d blocks n=%d scaling %d: total_expvar[%d] = %.12g, reference %.12g (allowance %.3g)", nb, n, scaling, k + 1, mod->total_expvar->data[k], ve, vallow[k]);
    vx_log("k=%d super-score %.3g/%.3g total-expvar %.3g/%.3g (lambda %.4Lg ratio-next %.3Lg)\n", k + 1, ds, tol, dv, vallow[k], lam[k], lam[k + 1] / lam[k]);
  }

  /* ---- structural identities, with a reference deflation (long double) by the library's super scores and block loadings */
  rmat *Db[MAXB]; for (int b = 0; b < nb; b++) Db[b] = rm_copy(Eb[b]);
  for (int k = 0; k < a; k++) {
    matrix *Tk = mod->block_scores->m[k];
    ld tt = 0, ww = 0, tmax = 0; for (int i = 0; i < n; i++) tt += (ld)mod->super_scores->data[i][k] * mod->super_scores->data[i][k];
    for (int b = 0; b < nb; b++) ww += (ld)mod->super_weights->data[b][k] * mod->super_weights->data[b][k];
    for (int i = 0; i < n; i++) for (int b = 0; b < nb; b++) if (fabs(Tk->data[i][b]) > tmax) tmax = fabs(Tk->data[i][b]);
    vx_check(fabs((double)(sqrtl(ww) - 1)) <= 64 * DEPS * (nb + 2), "super-weights|CPCA|unit-norm", "component %d: |w| = %.17Lg", k + 1, sqrtl(ww));
    double worst = 0, tolr = 64 * DEPS * (nb + 2) * (double)tmax;
    for (int i = 0; i < n; i++) { ld sacc = 0; for (int b = 0; b < nb; b++) sacc += (ld)Tk->data[i][b] * mod->super_weights->data[b][k]; double d = fabs(mod->super_scores->data[i][k] - (double)sacc); if (d > worst) worst = d; }
    margin_note("reproduce", worst, tolr);
    vx_check(worst <= tolr, "reproduce|CPCA|super=blockscores*weights", "component %d: max |t_super - T_b w| = %g (allowance %g)", k + 1, worst, tolr);
    for (int b = 0; b < nb; b++) {
      /* block loading = E_b' t / t't on the deflated block (rounding) */
      double wl = 0, toll = 256 * DEPS * (n + k + 2) * (double)(Fb[b] / sqrtl(tt)); ld pn = 0, etn = 0;
      for (int j = 0; j < w[b]; j++) { ld sacc = 0; for (int i = 0; i < n; i++) sacc += RM(Db[b], i, j) * mod->super_scores->data[i][k]; etn += sacc * sacc; double d = fabs(mod->block_loadings->m[b]->data[j][k] - (double)(sacc / tt)); if (d > wl) wl = d; pn += (ld)mod->block_loadings->m[b]->data[j][k] * mod->block_loadings->m[b]->data[j][k]; }
      margin_note("block-loadings", wl, toll);
      vx_check(wl <= toll, "block-loadings|CPCA|=Eb't/t't", "component %d block %d: max |p_b - E_b' t / t't| = %g (allowance %g)", k + 1, b, wl, toll);
      /* block score = E_b p_b / (|p_b| sqrt(w_b)); the stored one was computed from the previous iterate: convergence allowance,
       * amplified where the block hardly takes part in the component (direction of E_b' t is then ill-determined) */
      if (judged[k] && pn > 0 && etn > 0) {
        pn = sqrtl(pn); ld d2 = 0;
        for (int i = 0; i < n; i++) { ld sacc = 0; for (int j = 0; j < w[b]; j++) sacc += RM(Db[b], i, j) * mod->block_loadings->m[b]->data[j][k]; ld d = Tk->data[i][b] - sacc / (pn * sqrtl((ld)w[b])); d2 += d * d; }
        double amp = (double)(Fb[b] * sqrtl(tt) / sqrtl(etn)), tolb = 2 * allow[k] * (double)(Fb[b] / sqrtl((ld)w[b])) * amp;
        margin_note("block-scores", (double)sqrtl(d2), tolb);
        vx_check((double)sqrtl(d2) <= tolb, "block-scores|CPCA|=Eb*pb/|pb|/sqrt(w)", "component %d block %d (width %d): |t_b - E_b p_b/(|p_b| sqrt w)| = %.3g (allowance %.3g)", k + 1, b, w[b], (double)sqrtl(d2), tolb);
      }
      /* deflate with the super score and the block loading, then the cumulative block explained variance */
      for (int i = 0; i < n; i++) for (int j = 0; j < w[b]; j++) RM(Db[b], i, j) -= (ld)mod->super_scores->data[i][k] * mod->block_loadings->m[b]->data[j][k];
      ld fr = rm_fro(Db[b]); double ref = (double)(1 - (fr * fr) / (Fb[b] * Fb[b])) * 100, got = mod->block_expvar->d[k]->data[b];
      double tolv = 100 * 256 * DEPS * (n * w[b] + k + 2);
      vx_check(got >= -tolv && got <= 100 + tolv, "block-expvar|CPCA|within[0,100]", "component %d block %d: %.15g", k + 1, b, got);
      if (k > 0) vx_check(got >= mod->block_expvar->d[k - 1]->data[b] - tolv, "block-expvar|CPCA|non-decreasing", "block %d: %.15g after %.15g", b, got, mod->block_expvar->d[k - 1]->data[b]);
      margin_note("block-expvar-value", fabs(got - ref), tolv);
      vx_check(fabs(got - ref) <= tolv, "block-expvar|CPCA|cumulative-value", "component %d block %d: %.15g, reference (1 - |E_b,k|^2/|E_b|^2)*100 = %.15g (allowance %g)", k + 1, b, got, ref, tolv);
    }
  }

  /* ---- projecting the training tensor reproduces the super scores (and block scores) */
  { matrix *ps; tensor *pb; initMatrix(&ps); initTensor(&pb);
    fit_begin(nproc, 0, "nonterm|CPCAScorePredictor");
    CPCAScorePredictor(x, mod, (size_t)a, ps, pb); vx_transition(1);
    int okshape = (int)ps->row == n && (int)ps->col == a && (int)pb->order == a;
    vx_check(okshape, "shape|CPCAScorePredictor", "predicted super scores %zux%zu, block score tensor order %zu", ps->row, ps->col, pb->order);
    for (int k = 0; okshape && k < a; k++) if (judged[k]) {
      ld d2 = 0; for (int i = 0; i < n; i++) { ld d = ps->data[i][k] - mod->super_scores->data[i][k]; d2 += d * d; }
      double tol = 2 * allow[k] * (double)sig1;
      margin_note("project", (double)sqrtl(d2), tol);
      vx_check((double)sqrtl(d2) <= tol, "project|CPCAScorePredictor|super-scores", "%d blocks n=%d scaling %d: |projected - fitted super score %d| = %.3g (allowance %.3g)", nb, n, scaling, k + 1, (double)sqrtl(d2), tol);
      vx_log("k=%d projection %.3g/%.3g\n", k + 1, (double)sqrtl(d2), tol);
    }
    /* reused outputs.  Every execution: both objects a second time.  The predictor is the second most expensive call of an
     * execution, so ONE other previous shape is visited per execution, in rotation over the sum of the choice indices (the two
     * processor counts of an input, and consecutive npc, take consecutive ones): objects filled by a call with npc-1 (hand-filled
     * n x 2 and one n x blocks matrix when npc = 1); a hand-filled super-score matrix with another number of rows; one with other
     * numbers of rows and columns -- the latter two together with an empty block-score tensor (a tensor of another object count
     * is outside the domain, see above) */
    if (okshape) {
      char ctx[96]; snprintf(ctx, sizeof ctx, "%d blocks n=%d scaling %d npc %d nproc %d", nb, n, scaling, a, nproc);
      matrix *wps = hm_copy(ps), *wpb[NC], *q; tensor *tq; for (int k = 0; k < a; k++) wpb[k] = hm_copy(pb->m[k]);
      reuse_call("same-shape", "hold an earlier result of the same shape", ctx, x, mod, a, nproc, ps, pb, wps, wpb);
      int rot = (nb + ptot + n + scaling + (ratio > 0.5) + fam + nproc + a) % 3;
      initTensor(&tq);
      if (rot == 0) {
        if (a > 1) { initMatrix(&q); fit_begin(nproc, 0, "nonterm|CPCAScorePredictor"); CPCAScorePredictor(x, mod, (size_t)(a - 1), q, tq); }
        else { q = m_junk(n, a + 1); matrix *j = m_junk(n, nb); TensorAppendMatrix(tq, j); DelMatrix(&j); }
        reuse_call("one-dim-differs", "held the result for another number of components", ctx, x, mod, a, nproc, q, tq, wps, wpb);
      } else if (rot == 1) {
        q = m_junk(n + 1, a);
        reuse_call("one-dim-differs", "held super scores of another number of objects (block scores: empty tensor)", ctx, x, mod, a, nproc, q, tq, wps, wpb);
      } else {
        q = m_junk(n + 2, a + 3);
        reuse_call("both-dims-differ", "held a matrix with other numbers of rows and columns (block scores: empty tensor)", ctx, x, mod, a, nproc, q, tq, wps, wpb);
      }
      DelMatrix(&q); DelTensor(&tq); DelMatrix(&wps); for (int k = 0; k < a; k++) DelMatrix(&wpb[k]);
    }
    DelMatrix(&ps); DelTensor(&pb); }

  /* ---- second: the library's own PCA on the block-scaled concatenation (as is: already centred and scaled) */
  { matrix *zd = hm_from_rm(Z); PCAMODEL *pm; NewPCAModel(&pm);
    fit_begin(nproc, 0, "nonterm|PCA|on-concatenation");
    PCA(zd, -1, (size_t)a, pm, NULL); vx_transition(1);
    if ((int)pm->scores->col == a && hm_allfinite(pm->scores)) for (int k = 0; k < a; k++) if (judged[k]) {
      ld ab = 0; for (int i = 0; i < n; i++) ab += mod->super_scores->data[i][k] * pm->scores->data[i][k];
      int sg = ab < 0 ? -1 : 1; ld d2 = 0; for (int i = 0; i < n; i++) { ld d = mod->super_scores->data[i][k] - sg * pm->scores->data[i][k]; d2 += d * d; }
      double tol = (allow[k] + allow_pca[k]) * (double)sig1;
      snprintf(key, sizeof key, "super-score|CPCA|vs-library-PCA,%s", lam[k] < 10 ? "lambda_k<10" : "lambda_k>=10");
      margin_note(lam[k] < 10 ? "vs-libPCA,lambda<10" : "vs-libPCA,lambda>=10", (double)sqrtl(d2), tol);
      vx_check((double)sqrtl(d2) <= tol, key, "%d blocks n=%d scaling %d: |super score %d -/+ PCA score of the concatenation| = %.3g (allowance %.3g)", nb, n, scaling, k + 1, (double)sqrtl(d2), tol);
      double dv = fabs(mod->total_expvar->data[k] - pm->varexp->data[k]);
      double va = vallow[k] + 100 * (double)((4 * allow_pca[k] * sig1 * sqrtl(lam[k]) + allow_pca[k] * allow_pca[k] * lam[0] + 2 * dp * lam[k]) / trace);
      snprintf(key, sizeof key, "total-expvar|CPCA|vs-library-PCA,%s", lam[k] < 10 ? "lambda_k<10" : "lambda_k>=10");
      vx_check(dv <= va, key, "total_expvar[%d] %.10g vs PCA varexp %.10g (allowance %.3g)", k + 1, mod->total_expvar->data[k], pm->varexp->data[k], va);
    }
    DelPCAModel(&pm); DelMatrix(&zd); }

  vx_outcome(hm_hash(mod->super_scores, hm_hash(mod->super_weights, hv_hash(mod->total_expvar, (uint64_t)nb))));
  for (int b = 0; b < nb; b++) { rm_free(Eb[b]); rm_free(Db[b]); DelDVector(&avg[b]); DelDVector(&scl[b]); }
  rm_free(Z); rm_free(V); rm_free(T); DelCPCAModel(&mod); DelTensor(&x);
}

int main(int argc, char **argv) {
  vg_seed(getenv("VERIF_SEED") ? atol(getenv("VERIF_SEED")) : 0);
  build_tuples();
  vx_describe("alphabet", "blocks 2..4, widths all tuples over {1,2,3,5,8} with total <= 12 (%d/%d/%d tuples), objects {5,8,30} [+6,13], scaling 0..5, X = U diag(ratio^i) V' (ratio .3|.6, U'1=0) scaled to min column SD 0.5 + offsets (1,-7.5,2.5,40), deviations {one constant column, all data x 1e-6 with scaling 0/2}, 1 [4] instances, npc 1..min(block width, rank), nproc {1,3}", NTUP[0], NTUP[1], NTUP[2]);
  vx_describe("oracle", "super score k = +/- reference principal score of Z=[E_b/sqrt(w_b)] within sigma_1*(5k*delta/(1-r)^2 + rounding floor), delta=sqrt(n*1e-18); total_expvar = 100 lambda_k/trace; |w|=1; super = block scores * weights; block loadings = E_b't/t't; block scores = E_b p_b/(|p_b| sqrt w_b) (convergence allowance); block_expvar in [0,100], non-decreasing, = cumulative fraction; CPCAScorePredictor(training) = super scores; CPCAScorePredictor into reused outputs (same shape, one or both dimensions different) = result with fresh outputs, bit for bit (block scores: trailing blocks, append convention); secondarily library PCA(Z) with both allowances, keyed by lambda_k<10");
  vx_set_shard_depth(2);
  vx_expect_outcomes(40);   /* low on purpose: a library that returns the same (e.g. all-zero) model for every input of a shape must surface as violations, not as a vacuity error */
  return vx_main(argc, argv, "C09", body);
}
