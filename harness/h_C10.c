/* C10 -- MatrixPreprocess / TensorPreprocess: every option (-1..5) does what it promises, zero-spread
 * columns become exactly zero, the stored averages/scalings are the statistics of the training
 * column, the apply path reproduces the fit on the same matrix and is the same affine map on new
 * rows, cells carrying the missing code influence nothing, tensors are preprocessed block by block.
 *
 * Three parts, all drawn through vx_choose:
 *   A  shapes {2,3,4,7,60}x{1,2,5,20} x options x 18 column families x 2 layouts x 3 missing patterns
 *   B  ALL subsets of missing cells of 3x2 and 4x2 matrices [thorough: + 5x2, 3x3] (>= 2 present values per column)
 *   C  tensors of 1..4 blocks against MatrixPreprocess of each block
 * Reference: long-double statistics that never look at a missing cell.  Tolerances are forward error
 * bounds of the textbook formulas (see notes/C10.md); nothing is tuned. */
#include "hcommon.h"
#include "preprocessing.h"
#include "list.h"

#define MAXR 60
#define MAXC 20
#define MISS 99999999.0

/* ------------------------------------------------------------------ column families */
enum { K_STD, K_CONST, K_ROW0MAX, K_ROW0MIN, K_LASTMAX };
typedef struct { const char *name; int kind; double mean, sd; } famdef;
static const famdef FAM[] = {
  {"generic", K_STD, 0.7, 0.6},            /* 0 */
  {"const2.5", K_CONST, 2.5, 0},           /* 1  dyadic: centring is exact                      */
  {"const0.1", K_CONST, 0.1, 0},           /* 2  mean of n copies is not exactly 0.1            */
  {"const0", K_CONST, 0.0, 0},             /* 3 */
  {"const5e-3", K_CONST, 5e-3, 0},         /* 4  rms/level scale inside [1e-3,1e-2)             */
  {"spread0.02", K_STD, -7.5, 0.02},       /* 5  smallest spread of the statement               */
  {"offset1e3", K_STD, 1e3, 0.3},          /* 6 */
  {"spread50", K_STD, -7.5, 50.0},         /* 7 */
  {"mean9e-4", K_STD, 9e-4, 0.3},          /* 8  level scale below the fit guard 1e-3           */
  {"mean5e-3", K_STD, 5e-3, 0.3},          /* 9  level scale between fit (1e-3) and apply (1e-2) guard */
  {"mean1.5e-2", K_STD, 1.5e-2, 0.3},      /* 10 level scale just above both guards             */
  {"row0max", K_ROW0MAX, 0.7, 0.6},        /* 11 */
  {"row0min", K_ROW0MIN, 0.7, 0.6},        /* 12 */
  {"lastmax", K_LASTMAX, 0.7, 0.6},        /* 13 */
  {"tinysum", K_STD, 0.0, 0.3},            /* 14 raw column sum 3e-7: MatrixColAverage flush class */
  {"centred", K_STD, 0.0, 0.3},            /* 15 */
  {"spread1e3", K_STD, 1.0, 1e3},          /* 16 */
  {"negmean", K_STD, -0.8, 0.3},           /* 17 negative level scale                           */
  {"sum2e-4", K_STD, 0.0, 0.3},            /* 18 raw column sum 2e-4: well above the 1e-6 flush of MatrixColAverage, below any coarser threshold */
};
#define NFAM ((int)(sizeof FAM / sizeof FAM[0]))
#define F_TINYSUM 14
#define F_SMALLSUM 18

static double X[MAXR][MAXC];
static unsigned char MASK[MAXR][MAXC];

static void gen_col(int fam, int k, int j, int rows) {
  const famdef *f = &FAM[fam];
  int np = 0; ld mg = 0, sg = 0;
  for (int i = 0; i < rows; i++) if (!MASK[i][j]) { mg += vg_val(k, i, j); np++; }
  if (np) mg /= np;
  for (int i = 0; i < rows; i++) if (!MASK[i][j]) { ld d = vg_val(k, i, j) - mg; sg += d * d; }
  sg = np > 1 ? sqrtl(sg / (np - 1)) : 1;
  if (sg == 0) sg = 1;
  ld mean = f->mean; if (fam == F_TINYSUM && np) mean = 3e-7L / np; if (fam == F_SMALLSUM && np) mean = 2e-4L / np;
  for (int i = 0; i < rows; i++) {
    if (MASK[i][j]) { X[i][j] = MISS; continue; }
    if (f->kind == K_CONST) { X[i][j] = f->mean; continue; }
    ld z = (vg_val(k, i, j) - mg) / sg;
    X[i][j] = (double)(mean + f->sd * z);
  }
  if (f->kind == K_ROW0MAX && !MASK[0][j]) X[0][j] = f->mean + 17 * f->sd;
  if (f->kind == K_ROW0MIN && !MASK[0][j]) X[0][j] = f->mean - 17 * f->sd;
  if (f->kind == K_LASTMAX && !MASK[rows - 1][j]) X[rows - 1][j] = f->mean + 17 * f->sd;
}

/* ------------------------------------------------------------------ reference statistics */
typedef struct { int np, row0miss, isconst; ld sum, mean, sd, rms, mn, mx, amax; } cstat;

static void col_ref(int rows, int j, cstat *c) {
  memset(c, 0, sizeof *c); c->mn = INFINITY; c->mx = -INFINITY; c->isconst = 1;
  ld s2 = 0, first = 0; int have = 0;
  for (int i = 0; i < rows; i++) {
    if (MASK[i][j]) continue;
    ld v = X[i][j]; c->np++; c->sum += v; s2 += v * v;
    if (v < c->mn) c->mn = v; if (v > c->mx) c->mx = v; if (fabsl(v) > c->amax) c->amax = fabsl(v);
    if (!have) { first = v; have = 1; } else if (v != first) c->isconst = 0;
  }
  c->row0miss = MASK[0][j];
  if (!c->np) return;
  c->mean = c->sum / c->np; c->rms = sqrtl(s2 / c->np);
  ld ss = 0; for (int i = 0; i < rows; i++) if (!MASK[i][j]) { ld d = X[i][j] - c->mean; ss += d * d; }
  c->sd = c->np > 1 ? sqrtl(ss / (c->np - 1)) : 0;
  if (c->isconst) c->sd = 0;
}
/* the documented statistic of the raw training column for each option */
static ld scale_ref(int opt, const cstat *c) {
  switch (opt) { case 1: return c->sd; case 2: return c->rms; case 3: return sqrtl(c->sd); case 4: return c->mx - c->mn; case 5: return c->mean; default: return 1; }
}
static double d_mean(const cstat *c) { return 8 * DEPS * (c->np + 2) * (double)c->amax; }
static double d_sd(const cstat *c) { return 4 * d_mean(c) + 8 * DEPS * (c->np + 2) * (double)c->sd; }
static double d_scale(int opt, const cstat *c) {
  switch (opt) {
    case 1: return d_sd(c);
    case 2: return 8 * DEPS * (c->np + 2) * (double)c->rms;
    case 3: return c->sd > 0 ? d_sd(c) / sqrt((double)c->sd) + 4 * DEPS * sqrt((double)c->sd) : sqrt(d_sd(c));
    case 4: return 4 * DEPS * (double)c->amax;
    case 5: return d_mean(c);
    default: return 0;
  }
}

/* ------------------------------------------------------------------ measured margins (notes only) */
static void margin(const char *oracle, double err, double tol) {
  static const char *fn; static int init = 0; static struct { char n[40]; double r; } T[32]; static int nT = 0;
  if (!init) { fn = getenv("C10_MARGINS"); init = 1; }
  if (!fn || !(tol > 0)) return;
  double r = err / tol; int k;
  for (k = 0; k < nT; k++) if (!strcmp(T[k].n, oracle)) break;
  if (k == nT) { if (nT >= 32) return; snprintf(T[nT].n, sizeof T[0].n, "%s", oracle); T[nT].r = -1; nT++; }
  if (r > T[k].r * 1.2 + 1e-300) { T[k].r = r; FILE *f = fopen(fn, "a"); if (f) { fprintf(f, "%s %.3e %.3e %.3e\n", oracle, r, err, tol); fclose(f); } }
}

/* ------------------------------------------------------------------ keys */
enum { CL_REG, CL_FLUSH, CL_MINMAX, CL_LEVELGUARD };
static const char *CLKEY[] = {
  NULL,
  "flush|MatrixPreprocess|abs(colsum)<1e-6",          /* stored average flushed to 0 by MatrixColAverage      */
  "minmax|MatrixPreprocess|opt=4,row0-missing",       /* MatrixColumnMinMax seeds min/max from a MISSING row 0 */
  "level-guard|MatrixPreprocess|opt=5,abs(mean)<1e-3" /* fit guard zeroes a column with spread                */
};
#define BANDKEY "apply|MatrixPreprocess|abs(scale)in[1e-3,1e-2)"
static char KB[8][120]; static int kbi = 0;
static const char *key(int cls, const char *oracle, int opt) {
  if (cls != CL_REG) return CLKEY[cls];
  char *b = KB[kbi++ & 7]; snprintf(b, sizeof KB[0], "%s|MatrixPreprocess|opt=%d", oracle, opt); return b;
}
static int col_class(int opt, const cstat *c) {
  if (fabsl(c->sum) < 1e-6L) return CL_FLUSH;
  if (opt == 4 && c->row0miss) return CL_MINMAX;
  if (opt == 5 && fabsl(c->mean) < 1e-3L) return CL_LEVELGUARD;
  return CL_REG;
}

static matrix *mk_matrix(int rows, int cols) {
  matrix *m; NewMatrix(&m, (size_t)rows, (size_t)cols);
  for (int i = 0; i < rows; i++) for (int j = 0; j < cols; j++) m->data[i][j] = X[i][j];
  return m;
}

/* direct checks of the column statistic routines on the training matrix */
static void check_stats(matrix *m, int rows, int cols, const cstat *cs) {
  dvector *a, *s, *r, *v; initDVector(&a); initDVector(&s); initDVector(&r); initDVector(&v);
  MatrixColAverage(m, a); MatrixColSDEV(m, s); MatrixColRMS(m, r); MatrixColVar(m, v); vx_transition(4);
  int ok = (int)a->size == cols && (int)s->size == cols && (int)r->size == cols && (int)v->size == cols;
  vx_check(ok, "shape|column statistics", "(%d,%d): sizes %zu %zu %zu %zu", rows, cols, a->size, s->size, r->size, v->size);
  for (int j = 0; ok && j < cols; j++) {
    const cstat *c = &cs[j]; int flush = fabsl(c->sum) < 1e-6L;
    double e = fabs(a->data[j] - (double)c->mean);
    vx_check(e <= d_mean(c), flush ? "value|MatrixColAverage|abs(colsum)<1e-6" : "value|MatrixColAverage", "(%d,%d) col %d np=%d: %.17g vs %.17Lg tol %g", rows, cols, j, c->np, a->data[j], c->mean, d_mean(c));
    if (!flush) margin("MatrixColAverage", e, d_mean(c));
    e = fabs(s->data[j] - (double)c->sd);
    vx_check(e <= d_sd(c), "value|MatrixColSDEV", "(%d,%d) col %d np=%d: %.17g vs %.17Lg tol %g", rows, cols, j, c->np, s->data[j], c->sd, d_sd(c));
    margin("MatrixColSDEV", e, d_sd(c));
    double tv = 2 * (double)c->sd * d_sd(c) + d_sd(c) * d_sd(c);
    e = fabs(v->data[j] - (double)(c->sd * c->sd));
    vx_check(e <= tv, "value|MatrixColVar", "(%d,%d) col %d: %.17g vs %.17Lg tol %g", rows, cols, j, v->data[j], c->sd * c->sd, tv);
    margin("MatrixColVar", e, tv);
    double tr = 8 * DEPS * (c->np + 2) * (double)c->rms;
    e = fabs(r->data[j] - (double)c->rms);
    vx_check(e <= tr, "value|MatrixColRMS", "(%d,%d) col %d: %.17g vs %.17Lg tol %g", rows, cols, j, r->data[j], c->rms, tr);
    margin("MatrixColRMS", e, tr);
    double mn, mx; MatrixColumnMinMax(m, (size_t)j, &mn, &mx); vx_transition(1);
    vx_check(mn == (double)c->mn && mx == (double)c->mx, c->row0miss ? "value|MatrixColumnMinMax|row0-missing" : "value|MatrixColumnMinMax",
             "(%d,%d) col %d: (%.17g,%.17g) vs (%.17Lg,%.17Lg)", rows, cols, j, mn, mx, c->mn, c->mx);
  }
  DelDVector(&a); DelDVector(&s); DelDVector(&r); DelDVector(&v);
}

/* one training matrix X (rows x cols, MASK applied) under one option; returns an outcome hash */
static uint64_t run_case(int rows, int cols, int opt, int zk, int do_compact, int do_stats) {
  static cstat cs[MAXC];
  for (int j = 0; j < cols; j++) {
    col_ref(rows, j, &cs[j]);
    vx_require(cs[j].np >= 2);                                               /* a column needs two values to have a spread */
    vx_require(cs[j].isconst || cs[j].sd >= 0.02L * (1 - 1e-9L));           /* statement: spread >= 0.02 or exactly 0     */
  }
  matrix *m = mk_matrix(rows, cols), *t; NewMatrix(&t, (size_t)rows, (size_t)cols);
  dvector *avg, *sc; initDVector(&avg); initDVector(&sc);
  MatrixPreprocess(m, opt, avg, sc, t); vx_transition(1);

  int shape_ok = opt >= 0 ? ((int)avg->size == cols && (int)sc->size == cols) : (avg->size == 0 && sc->size == 0);
  shape_ok = shape_ok && (int)t->row == rows && (int)t->col == cols;
  vx_check(shape_ok, key(CL_REG, "shape", opt), "(%d,%d): avg %zu scaling %zu trans (%zu,%zu)", rows, cols, avg->size, sc->size, t->row, t->col);
  int same = 1; for (int i = 0; i < rows; i++) for (int j = 0; j < cols; j++) if (m->data[i][j] != X[i][j]) same = 0;
  vx_check(same, "input-modified|MatrixPreprocess", "(%d,%d) opt %d: the training matrix was changed by the call", rows, cols, opt);
  vx_check(hm_allfinite(t) && hv_allfinite(avg) && hv_allfinite(sc), key(CL_REG, "finite", opt), "(%d,%d): NaN/Inf in the output", rows, cols);
  uint64_t h = hm_hash(t, (uint64_t)(opt + 2)); h = hv_hash(avg, h); h = hv_hash(sc, h);
  if (!shape_ok) { DelMatrix(&m); DelMatrix(&t); DelDVector(&avg); DelDVector(&sc); return h; }
  if (do_stats) check_stats(m, rows, cols, cs);

  if (opt < 0) { /* option -1 copies */
    int eq = 1; for (int i = 0; i < rows; i++) for (int j = 0; j < cols; j++) if (t->data[i][j] != X[i][j]) eq = 0;
    vx_check(eq, key(CL_REG, "copy", opt), "(%d,%d): option -1 is not a copy", rows, cols);
    DelMatrix(&m); DelMatrix(&t); DelDVector(&avg); DelDVector(&sc); return h;
  }

  static double tolc[MAXR][MAXC]; static int cls[MAXC], zs[MAXC], band[MAXC], skipt[MAXC];
  for (int j = 0; j < cols; j++) {
    const cstat *c = &cs[j]; int cl = cls[j] = col_class(opt, c);
    ld sref = scale_ref(opt, c); double dm = d_mean(c), ds = d_scale(opt, c), as = (double)fabsl(sref);
    zs[j] = as <= ds;                                  /* the promised statistic is zero: column must be exactly 0 */
    band[j] = !zs[j] && as >= 1e-3 && as < 1e-2;
    /* level scaling of a column whose mean is zero to rounding is not defined: only finiteness is judged */
    skipt[j] = opt == 5 && !zs[j] && as <= 1e-9 * (double)c->amax;
    /* stored average = mean of the present cells */
    double e = fabs(avg->data[j] - (double)c->mean);
    vx_check(e <= dm, cl == CL_REG ? "avg|MatrixPreprocess" : CLKEY[cl], "(%d,%d) opt %d col %d np=%d: stored average %.17g, mean %.17Lg, tol %g", rows, cols, opt, j, c->np, avg->data[j], c->mean, dm);
    if (cl == CL_REG) margin("avg", e, dm);
    /* stored scaling = documented statistic of the training column */
    e = fabs(sc->data[j] - (double)sref);
    vx_check(e <= ds, key(cl, "scale", opt), "(%d,%d) col %d np=%d: stored scaling %.17g, statistic %.17Lg, tol %g", rows, cols, j, c->np, sc->data[j], sref, ds);
    if (cl == CL_REG) margin("scale", e, ds);
    /* transformed cells */
    double maxtol = 0, maxt = 0, lo = INFINITY, hi = -INFINITY; ld st = 0;
    for (int i = 0; i < rows; i++) {
      tolc[i][j] = 0;
      if (MASK[i][j]) continue;
      double tv = t->data[i][j]; st += tv; if (tv < lo) lo = tv; if (tv > hi) hi = tv; if (fabs(tv) > maxt) maxt = fabs(tv);
      if (skipt[j]) continue;
      if (zs[j]) {
        vx_check(tv == 0.0, key(cl, "zero-spread", opt), "(%d,%d) col %d row %d: column without spread (scale statistic %.3Lg) gives %.17g, not exactly 0", rows, cols, j, i, sref, tv);
        continue;
      }
      ld ex = (X[i][j] - c->mean) / sref;
      double tol = 4 * (dm / as + (double)fabsl(ex) * ds / as + 4 * DEPS * (double)fabsl(ex)) + 1e-300;
      tolc[i][j] = tol; if (tol > maxtol) maxtol = tol;
      e = fabs(tv - (double)ex);
      vx_check(e <= tol, key(cl, c->isconst ? "zero-spread" : "transform", opt), "(%d,%d) col %d row %d: %.17g, expected (x-mean)/scale = %.17Lg, tol %g", rows, cols, j, i, tv, ex, tol);
      if (cl == CL_REG) margin(c->isconst ? "zero-spread" : "transform", e, tol);
    }
    if (skipt[j]) continue;
    /* zero column mean of the transformed training column */
    double tcm = maxtol + 8 * DEPS * (c->np + 2) * maxt, cm = (double)(st / c->np);
    vx_check(fabs(cm) <= tcm, key(cl, "colmean", opt), "(%d,%d) col %d: mean of the transformed column %.3g, tol %g", rows, cols, j, cm, tcm);
    if (cl == CL_REG) margin("colmean", fabs(cm), tcm);
    /* the promised statistic of the transformed column (options 1, 3, 4) */
    if (!zs[j] && !c->isconst && (opt == 1 || opt == 3 || opt == 4)) {
      ld ss = 0; for (int i = 0; i < rows; i++) if (!MASK[i][j]) { ld d = t->data[i][j] - st / c->np; ss += d * d; }
      double got = opt == 4 ? hi - lo : (double)sqrtl(ss / (c->np - 1)), want = opt == 1 ? 1.0 : opt == 3 ? (double)sqrtl(c->sd) : 1.0;
      double tp = 2 * maxtol + 8 * DEPS * (c->np + 2) * want;
      vx_check(fabs(got - want) <= tp, key(cl, "promise", opt), "(%d,%d) col %d: %s of the transformed column is %.17g, promised %.17g, tol %g", rows, cols, j, opt == 4 ? "range" : "sample sd", got, want, tp);
      if (cl == CL_REG) margin("promise", fabs(got - want), tp);
    }
  }

  /* missing cells influence nothing: the compacted column (present cells only) gives the same fit */
  if (do_compact) for (int j = 0; j < cols; j++) {
    const cstat *c = &cs[j]; if (c->np == rows) continue;
    matrix *cm, *ct; NewMatrix(&cm, (size_t)c->np, 1); NewMatrix(&ct, (size_t)c->np, 1);
    int r = 0; for (int i = 0; i < rows; i++) if (!MASK[i][j]) cm->data[r++][0] = X[i][j];
    dvector *a2, *s2; initDVector(&a2); initDVector(&s2);
    MatrixPreprocess(cm, opt, a2, s2, ct); vx_transition(1);
    int ok = a2->size == 1 && s2->size == 1 && fabs(a2->data[0] - avg->data[j]) <= 2 * d_mean(c) && fabs(s2->data[0] - sc->data[j]) <= 2 * d_scale(opt, c);
    r = 0; double worst = 0;
    for (int i = 0; ok && i < rows; i++) if (!MASK[i][j]) { double d = fabs(ct->data[r++][0] - t->data[i][j]); if (d > worst) worst = d; if (!(d <= 2 * tolc[i][j])) ok = 0; }
    vx_check(ok, key(cls[j], "missing-compact", opt), "(%d,%d) col %d: fit of the column with its %d missing cells removed differs (avg %.17g/%.17g scale %.17g/%.17g, cell diff %g)",
             rows, cols, j, rows - c->np, a2->size ? a2->data[0] : NAN, avg->data[j], s2->size ? s2->data[0] : NAN, sc->data[j], worst);
    DelMatrix(&cm); DelMatrix(&ct); DelDVector(&a2); DelDVector(&s2);
  }

  /* apply path on the same matrix reproduces the training transform */
  uint64_t hv0 = hv_hash(sc, hv_hash(avg, 5));
  matrix *t2; NewMatrix(&t2, (size_t)rows, (size_t)cols);
  MatrixPreprocess(m, opt, avg, sc, t2); vx_transition(1);
  vx_check(hv_hash(sc, hv_hash(avg, 5)) == hv0 && (int)avg->size == cols && (int)sc->size == cols, key(CL_REG, "apply-changes-stored", opt), "(%d,%d): the apply path modified the stored vectors", rows, cols);
  for (int j = 0; j < cols; j++) {
    if (skipt[j]) continue;
    for (int i = 0; i < rows; i++) {
      if (MASK[i][j]) continue;
      double d = fabs(t2->data[i][j] - t->data[i][j]);
      int ok = zs[j] ? t2->data[i][j] == 0.0 : d <= 2 * tolc[i][j];
      vx_check(ok, cls[j] != CL_REG ? CLKEY[cls[j]] : band[j] ? BANDKEY : key(CL_REG, "apply-same", opt),
               "(%d,%d) opt %d col %d row %d (stored scaling %.6g): apply path gives %.17g, fit gave %.17g", rows, cols, opt, j, i, sc->data[j], t2->data[i][j], t->data[i][j]);
    }
  }
  h = hm_hash(t2, h);

  /* apply path on new rows is the same affine map (empty output matrix: the routine sizes it) */
  int zr = 3; matrix *z, *t3; NewMatrix(&z, (size_t)zr, (size_t)cols); initMatrix(&t3);
  for (int i = 0; i < zr; i++) for (int j = 0; j < cols; j++) z->data[i][j] = (double)(cs[j].mean + (cs[j].sd > 0 ? cs[j].sd : 1) * 4 * vg_val(zk + 500, i, j));
  MatrixPreprocess(z, opt, avg, sc, t3); vx_transition(1);
  int sh3 = (int)t3->row == zr && (int)t3->col == cols;
  vx_check(sh3, key(CL_REG, "apply-new-shape", opt), "(%d,%d): output for %d new rows is (%zu,%zu)", rows, cols, zr, t3->row, t3->col);
  for (int j = 0; sh3 && j < cols; j++) {
    if (skipt[j]) continue;
    for (int i = 0; i < zr; i++) {
      double got = t3->data[i][j]; int ok; ld ex = 0; double tol = 0;
      if (zs[j] || cls[j] == CL_LEVELGUARD) ok = got == 0.0;   /* the training map of this column is x -> 0 */
      else {
        ex = ((ld)z->data[i][j] - avg->data[j]) / sc->data[j];
        tol = 8 * DEPS * ((fabs(z->data[i][j]) + fabs(avg->data[j])) / fabs(sc->data[j]) + (double)fabsl(ex)) + 1e-300;
        ok = fabs(got - (double)ex) <= tol;
        if (cls[j] == CL_REG && !band[j]) margin("apply-new", fabs(got - (double)ex), tol);
      }
      vx_check(ok && isfinite(got), cls[j] != CL_REG ? CLKEY[cls[j]] : band[j] ? BANDKEY : key(CL_REG, "apply-new", opt),
               "(%d,%d) opt %d col %d new row %d: x=%.17g stored (avg %.17g, scaling %.17g) gives %.17g, affine map gives %.17Lg (tol %g)", rows, cols, opt, j, i, z->data[i][j], avg->data[j], sc->data[j], got, ex, tol);
    }
  }
  if (sh3) h = hm_hash(t3, h);
  DelMatrix(&m); DelMatrix(&t); DelMatrix(&t2); DelMatrix(&z); DelMatrix(&t3); DelDVector(&avg); DelDVector(&sc);
  return h;
}

/* ------------------------------------------------------------------ missing patterns for part A */
static int miss_at(int pat, int i, int j) {
  if (pat == 1) return (3 * i + 5 * j + 1) % 11 == 0;   /* ~9 %, row 0 present in column 0          */
  if (pat == 2) return (i + 2 * j) % 5 == 0;            /* 20 %, includes row 0 of columns 0, 5, .. */
  return 0;
}

static void part_a(void) {
  static const int RQ[] = {2, 3, 4, 7, 60}, CQ[] = {1, 2, 5, 20}, RT[] = {2, 3, 4, 5, 7, 12, 33, 60}, CT[] = {1, 2, 3, 5, 8, 20};
  int th = vx_thorough();
  int rows = th ? RT[vx_choose("rows", 8)] : RQ[vx_choose("rows", 5)];
  int cols = th ? CT[vx_choose("cols", 6)] : CQ[vx_choose("cols", 4)];
  int opt = vx_choose("option+1", 7) - 1;
  int fam = vx_choose("family", NFAM), layout = vx_choose("layout", 2), pat = vx_choose("missing", 3), k = vx_choose("values", th ? 12 : 2);
  for (int j = 0; j < cols; j++) {
    int np = 0; for (int i = 0; i < rows; i++) { MASK[i][j] = (unsigned char)miss_at(pat, i, j); np += !MASK[i][j]; }
    if (np < 2) for (int i = 0; i < rows; i++) MASK[i][j] = 0;   /* tiny shapes: keep the column complete */
  }
  if (pat) { int any = 0; for (int i = 0; i < rows; i++) for (int j = 0; j < cols; j++) any |= MASK[i][j]; vx_require(any); }
  for (int j = 0; j < cols; j++) gen_col(layout ? (fam + j) % NFAM : fam, k * 31 + fam, j, rows);
  uint64_t h = run_case(rows, cols, opt, k, rows <= 7, opt == -1 || opt == 4);
  vx_outcome(h);
}

static void part_b(void) {
  /* ALL subsets of missing cells of a 3x2 and a 4x2 matrix [thorough: also 5x2 and 3x3] */
  static const int TRIP[6][3] = {{0, 0, 0}, {6, 7, 5}, {11, 12, 13}, {9, 1, 10}, {13, 5, 2}, {17, 8, 16}};
  static const int SH[4][2] = {{3, 2}, {4, 2}, {5, 2}, {3, 3}};
  int sh = vx_choose("shape", vx_thorough() ? 4 : 2), rows = SH[sh][0], cols = SH[sh][1];
  int opt = vx_choose("option+1", 7) - 1;
  int fs = vx_choose("families", 6), k = vx_choose("values", vx_thorough() ? 6 : 2);
  int mask = vx_choose("missing-subset", 1 << (rows * cols));
  for (int i = 0; i < rows; i++) for (int j = 0; j < cols; j++) MASK[i][j] = (unsigned char)((mask >> (i * cols + j)) & 1);
  for (int j = 0; j < cols; j++) { int np = 0; for (int i = 0; i < rows; i++) np += !MASK[i][j]; vx_require(np >= 2); }
  for (int j = 0; j < cols; j++) gen_col(TRIP[fs][j], 200 + k * 7 + fs, j, rows);
  uint64_t h = run_case(rows, cols, opt, k, 1, 1);
  vx_outcome(h);
}

static void part_c(void) {
  /* TensorPreprocess block k == MatrixPreprocess of block k (bit for bit: it is the same arithmetic) */
  int order = 1 + vx_choose("blocks-1", 4), rows = vx_choose("rows", 2) ? 7 : 3;
  int opt = vx_choose("option+1", 7) - 1;
  int fam = vx_choose("family", NFAM), pat = vx_choose("missing", 2) ? 2 : 0, k = vx_choose("values", vx_thorough() ? 4 : 2);
  int lay = vx_choose("widths", 3);   /* 0: all block widths different from the neighbour's, 1: all equal, 2: equal in pairs (a,a,b,b) */
  tensor *tt, *tr; NewTensor(&tt, (size_t)order); NewTensor(&tr, (size_t)order);
  matrix *mb[4], *mt[4]; dvector *ma[4], *ms[4]; int cc[4];
  for (int b = 0; b < order; b++) {
    int cols = cc[b] = lay == 0 ? 1 + (b * 2 + fam) % 5 : lay == 1 ? 1 + fam % 5 : 1 + ((b / 2) * 2 + fam) % 5;
    for (int j = 0; j < cols; j++) { int np = 0; for (int i = 0; i < rows; i++) { MASK[i][j] = (unsigned char)miss_at(pat, i + b, j); np += !MASK[i][j]; } if (np < 2) for (int i = 0; i < rows; i++) MASK[i][j] = 0; }
    for (int j = 0; j < cols; j++) gen_col((fam + j + 3 * b) % NFAM, 900 + k * 13 + b, j, rows);
    mb[b] = mk_matrix(rows, cols);
    NewTensorMatrix(tt, (size_t)b, (size_t)rows, (size_t)cols); NewTensorMatrix(tr, (size_t)b, (size_t)rows, (size_t)cols);
    for (int i = 0; i < rows; i++) for (int j = 0; j < cols; j++) tt->m[b]->data[i][j] = X[i][j];
    NewMatrix(&mt[b], (size_t)rows, (size_t)cols); initDVector(&ma[b]); initDVector(&ms[b]);
    MatrixPreprocess(mb[b], opt, ma[b], ms[b], mt[b]);
  }
  dvectorlist *la, *ls; initDVectorList(&la); initDVectorList(&ls);
  TensorPreprocess(tt, opt, la, ls, tr); vx_transition(1 + order);
  char kb[100]; snprintf(kb, sizeof kb, "blockwise|TensorPreprocess|opt=%d", opt);
  int ok = (int)la->size == order && (int)ls->size == order && (int)tr->order == order;
  vx_check(ok, kb, "%d blocks: lists of %zu/%zu vectors, output order %zu", order, la->size, ls->size, tr->order);
  uint64_t h = (uint64_t)(opt + 77);
  for (int b = 0; ok && b < order; b++) {
    int same = la->d[b]->size == ma[b]->size && ls->d[b]->size == ms[b]->size;
    for (size_t j = 0; same && j < ma[b]->size; j++) if (la->d[b]->data[j] != ma[b]->data[j] || ls->d[b]->data[j] != ms[b]->data[j]) same = 0;
    int fin = hm_allfinite(tr->m[b]);
    double d = hm_maxdiff(tr->m[b], mt[b]);
    vx_check(same && d == 0.0 && fin, kb, "block %d of %d (%dx%d): stored vectors %s, max cell difference to MatrixPreprocess of the block %g%s", b, order, rows, cc[b], same ? "equal" : "DIFFER", d, fin ? "" : ", NaN/Inf");
    h = hm_hash(tr->m[b], h); h = hv_hash(la->d[b], h); h = hv_hash(ls->d[b], h);
  }
  vx_outcome(h);
  for (int b = 0; b < order; b++) { DelMatrix(&mb[b]); DelMatrix(&mt[b]); DelDVector(&ma[b]); DelDVector(&ms[b]); }
  DelDVectorList(&la); DelDVectorList(&ls); DelTensor(&tt); DelTensor(&tr);
}

static void body(void) {
  switch (vx_choose("part", 3)) { case 0: part_a(); break; case 1: part_b(); break; default: part_c(); }
}

int main(int argc, char **argv) {
  vg_seed(getenv("VERIF_SEED") ? atol(getenv("VERIF_SEED")) : 0);
  vx_describe("alphabet", "A: rows {2,3,4,7,60} [thorough +5,12,33] x cols {1,2,5,20} [+3,8] x option -1..5 x %d column families (generic, 4 constants incl. 0 and 5e-3, spread 0.02, offsets 1e3/-7.5, spread 50/1e3, means 9e-4/5e-3/1.5e-2/-0.8, first-row max/min, last-row max, column sum 3e-7, centred) x {all columns one family, rotating families} x missing pattern {none, 9%%, 20%% incl. row 0} x 2 [12] value sets; B: ALL subsets of missing cells of 3x2 and 4x2 [+5x2, 3x3] (>=2 present per column) x option x 6 family tuples x 2 [6] value sets; C: tensors of 1..4 blocks x block-width layout {neighbours differ, all equal, equal in pairs} x rows {3,7} x option x family x missing x value set", NFAM);
  vx_describe("oracle", "long-double statistics over present cells: stored average = mean, stored scaling = documented statistic (1, sd, rms of raw column, sqrt(sd), max-min, mean), cells = (x-mean)/scale, column mean 0, promised sd/range of the transformed column, zero-spread columns exactly 0 and finite, compacted column gives the same fit, apply path on the same matrix = fit, on new rows = affine map from the stored vectors, TensorPreprocess block = MatrixPreprocess of the block (bit-identical)");
  vx_describe("tolerances", "avg 8 eps (n+2) max|x|; sd 4 d_avg + 8 eps (n+2) sd; cell 4 (d_avg/s + |t| d_s/s + 4 eps |t|); apply-new 8 eps ((|z|+|avg|)/|s| + |t|)");
  vx_describe("classes", "abs(colsum)<1e-6 (MatrixColAverage flush); opt=4,row0-missing (MatrixColumnMinMax seed); opt=5,abs(mean)<1e-3 (fit guard zeroes a column with spread); abs(scale) in [1e-3,1e-2) (fit guard 1e-3 vs apply guard 1e-2)");
  vx_set_shard_depth(4);
  vx_expect_outcomes(5000);
  return vx_main(argc, argv, "C10", body);
}
