/* C11 -- dense matrix/vector/tensor kernels compute their textbook definitions for ALL shapes
 * 0..17 (every residue of the inner dimension modulo the unrolling factor), three value scales.
 * Outputs are allocated exactly, so any index slip traps under ASan. */
#include "hcommon.h"

#define NMAX 18
static double A_[NMAX * NMAX], B_[NMAX * NMAX], C_[NMAX * NMAX];
static const double SCALES[3] = {1e-6, 1.0, 1e6};

static void fill(double *d, int k, int r, int c, double sc) { vg_fill(k, r, c, d); for (int i = 0; i < r * c; i++) d[i] *= sc; }

/* reference product and absolute-sum bound */
static rmat *ref_mul(const rmat *a, const rmat *b, ld *bound) {
  rmat *x = rm_mul(a, b); ld mx = 0;
  for (int i = 0; i < a->r; i++) for (int j = 0; j < b->c; j++) { ld s = 0; for (int k = 0; k < a->c; k++) s += fabsl(RM(a, i, k) * RM(b, k, j)); if (s > mx) mx = s; }
  *bound = mx; return x;
}
static double tolk(int k, ld bound) { return 64.0 * DEPS * (k + 2) * (double)bound + 1e-300; }

static void op_matmul(int which) {
  int m = vx_choose("m", NMAX), k = vx_choose("k", NMAX), n = vx_choose("n", NMAX), f = vx_choose("fam", vx_thorough() ? 12 : 3);
  double sc = SCALES[f % 3];
  fill(A_, f, m, k, sc); fill(B_, f + 100, k, n, sc);
  matrix *a = hm_new(m, k, A_), *b = hm_new(k, n, B_), *r; NewMatrix(&r, (size_t)m, (size_t)n);
  rmat *ra = rm_from(a), *rb = rm_from(b); ld bound; rmat *ref = ref_mul(ra, rb, &bound);
  const char *nm = which == 0 ? "MatrixDotProduct" : which == 1 ? "MatrixDotProduct_" : "MatrixDotProduct_LOOP_UNROLLING";
  if (which == 0) MatrixDotProduct(a, b, r); else if (which == 1) MatrixDotProduct_(a, b, r); else MatrixDotProduct_LOOP_UNROLLING(a, b, r);
  vx_transition(1);
  double d = hm_maxdiff_rm(r, ref);
  char key[96]; snprintf(key, sizeof key, "value|%s|k%%4=%d", nm, k % 4);
  vx_check(d <= tolk(k, bound), key, "%s (%dx%d)*(%dx%d): max|lib-ref|=%g tol=%g", nm, m, k, k, n, d, tolk(k, bound));
  vx_outcome(hm_hash(r, (uint64_t)which));
  if (which == 0) {
    /* (AB)^T = B^T A^T through the library's own transpose and product */
    matrix *at = hm_new(k, m, NULL), *bt = hm_new(n, k, NULL), *rt = hm_new(n, m, NULL), *r2 = hm_new(n, m, NULL);
    MatrixTranspose(a, at); MatrixTranspose(b, bt); MatrixTranspose(r, rt); MatrixDotProduct(bt, at, r2);
    vx_transition(4);
    double d2 = hm_maxdiff(rt, r2);
    vx_check(d2 <= 2 * tolk(k, bound), "law|(AB)^T=B^T*A^T", "(%d,%d,%d): %g", m, k, n, d2);
    /* A(B+C) = AB + AC */
    fill(C_, f + 200, k, n, sc);
    matrix *c = hm_new(k, n, C_), *bc = hm_new(k, n, NULL), *r3 = hm_new(m, n, NULL), *r4 = hm_new(m, n, NULL);
    for (int i = 0; i < k; i++) for (int j = 0; j < n; j++) bc->data[i][j] = b->data[i][j] + c->data[i][j];
    MatrixDotProduct(a, bc, r3); MatrixDotProduct(a, b, r4); MatrixDotProduct(a, c, r4); /* r4 accumulates: AB + AC */
    vx_transition(3);
    double d3 = hm_maxdiff(r3, r4);
    vx_check(d3 <= 8 * tolk(k, bound), "law|A(B+C)=AB+AC", "(%d,%d,%d): %g", m, k, n, d3);
    DelMatrix(&at); DelMatrix(&bt); DelMatrix(&rt); DelMatrix(&r2); DelMatrix(&c); DelMatrix(&bc); DelMatrix(&r3); DelMatrix(&r4);
  }
  rm_free(ra); rm_free(rb); rm_free(ref); DelMatrix(&a); DelMatrix(&b); DelMatrix(&r);
}

static void op_matvec(void) {
  int which = vx_choose("kernel", 2), m = vx_choose("m", NMAX), n = vx_choose("n", NMAX), f = vx_choose("fam", vx_thorough() ? 12 : 3);
  double sc = SCALES[f % 3];
  fill(A_, f, m, n, sc);
  matrix *a = hm_new(m, n, A_); rmat *ra = rm_from(a);
  if (which == 0) { /* p = M v */
    fill(B_, f + 100, n, 1, sc); dvector *v = hv_new(n, B_), *p = hv_new(m, NULL);
    rmat *rv = rm_from_dv(v); ld bound; rmat *ref = ref_mul(ra, rv, &bound);
    MatrixDVectorDotProduct(a, v, p); vx_transition(1);
    double d = 0; for (int i = 0; i < m; i++) d = fmax(d, fabs(p->data[i] - (double)RM(ref, i, 0)));
    vx_check(d <= tolk(n, bound) && hv_allfinite(p), "value|MatrixDVectorDotProduct", "(%dx%d): %g tol %g", m, n, d, tolk(n, bound));
    vx_outcome(hv_hash(p, 11)); rm_free(rv); rm_free(ref); DelDVector(&v); DelDVector(&p);
  } else {          /* p = v' M */
    fill(B_, f + 100, 1, m, sc); dvector *v = hv_new(m, B_), *p = hv_new(n, NULL);
    rmat *rv = rm_new(1, m); for (int i = 0; i < m; i++) RM(rv, 0, i) = v->data[i];
    ld bound; rmat *ref = ref_mul(rv, ra, &bound);
    DVectorMatrixDotProduct(a, v, p); vx_transition(1);
    double d = 0; for (int j = 0; j < n; j++) d = fmax(d, fabs(p->data[j] - (double)RM(ref, 0, j)));
    vx_check(d <= tolk(m, bound) && hv_allfinite(p), "value|DVectorMatrixDotProduct", "(%dx%d): %g tol %g", m, n, d, tolk(m, bound));
    vx_outcome(hv_hash(p, 12)); rm_free(rv); rm_free(ref); DelDVector(&v); DelDVector(&p);
  }
  rm_free(ra); DelMatrix(&a);
}

static void op_outer(void) {
  int which = vx_choose("kernel", 3), m = vx_choose("m", NMAX), n = vx_choose("n", NMAX), f = vx_choose("fam", 3);
  double sc = SCALES[f % 3];
  fill(A_, f, m, 1, sc); fill(B_, f + 100, n, 1, sc);
  dvector *a = hv_new(m, A_), *b = hv_new(n, B_); matrix *r;
  const char *nm;
  if (which == 0) { nm = "RowColOuterProduct"; r = hm_new(m, n, NULL); RowColOuterProduct(a, b, r); }
  else if (which == 1) { nm = "DVectorTrasposedDVectorDotProduct"; r = hm_new(m, n, NULL); DVectorTrasposedDVectorDotProduct(a, b, r); }
  else { nm = "DVectorTrasposedDVectorDotProduct(empty out)"; initMatrix(&r); DVectorTrasposedDVectorDotProduct(a, b, r); }
  vx_transition(1);
  char key[96]; snprintf(key, sizeof key, "value|%s", nm);
  int shape_ok = (m == 0 || n == 0) ? 1 : ((int)r->row == m && (int)r->col == n);
  vx_check(shape_ok, key, "shape (%zu,%zu) expected (%d,%d)", r->row, r->col, m, n);
  if (shape_ok && m > 0 && n > 0) {
    double d = 0; for (int i = 0; i < m; i++) for (int j = 0; j < n; j++) d = fmax(d, fabs(r->data[i][j] - a->data[i] * b->data[j]));
    vx_check(d == 0, key, "(%d,%d): outer product differs by %g", m, n, d);
    vx_outcome(hm_hash(r, 21));
    { matrix *r2; initMatrix(&r2); MatrixCopy(r, &r2);          /* assigned outputs: calling again into the filled output changes nothing */
      if (which == 0) RowColOuterProduct(a, b, r); else DVectorTrasposedDVectorDotProduct(a, b, r);
      vx_transition(1); vx_check(hm_maxdiff(r, r2) == 0, "reuse|outer-product|same-shape", "%s (%d,%d): second call into the same output differs", nm, m, n); DelMatrix(&r2); }
  } else vx_outcome((uint64_t)(1000 + which));
  DelDVector(&a); DelDVector(&b); DelMatrix(&r);
}

static void op_unary(void) {
  int m = vx_choose("m", NMAX), n = vx_choose("n", NMAX), f = vx_choose("fam", 3);
  double sc = SCALES[f % 3];
  fill(A_, f, m, n, sc);
  matrix *a = hm_new(m, n, A_), *t = hm_new(n, m, NULL), *tt = hm_new(m, n, NULL);
  MatrixTranspose(a, t); MatrixTranspose(t, tt); vx_transition(2);
  int ok = 1; for (int i = 0; i < m; i++) for (int j = 0; j < n; j++) if (t->data[j][i] != a->data[i][j]) ok = 0;
  vx_check(ok, "value|MatrixTranspose", "(%d,%d)", m, n);
  vx_check(hm_maxdiff(a, tt) == 0, "law|transpose-involution", "(%d,%d)", m, n);
  ld ss = 0; for (int i = 0; i < m; i++) for (int j = 0; j < n; j++) ss += (ld)a->data[i][j] * a->data[i][j];
  double nr = Matrixnorm(a); vx_transition(1);
  vx_check(fabs(nr - (double)sqrtl(ss)) <= 64 * DEPS * (m * n + 2) * (double)sqrtl(ss), "value|Matrixnorm", "(%d,%d): %g vs %Lg", m, n, nr, sqrtl(ss));
  if (m == n) {
    ld tr = 0, tra = 0; for (int i = 0; i < m; i++) { tr += a->data[i][i]; tra += fabsl(a->data[i][i]); }
    double t2 = MatrixTrace(a); vx_transition(1);
    vx_check(fabs(t2 - (double)tr) <= 64 * DEPS * (m + 2) * (double)tra, "value|MatrixTrace", "(%d): %g vs %Lg", m, t2, tr);
  }
  if (m > 0 && n > 0) {
    matrix *nm = hm_new(m, n, NULL); MatrixNorm(a, nm); vx_transition(1);
    double d = 0; for (int i = 0; i < m; i++) for (int j = 0; j < n; j++) d = fmax(d, fabs(nm->data[i][j] - (double)((ld)a->data[i][j] / sqrtl(ss))));
    vx_check(d <= 64 * DEPS * (m * n + 2), "value|MatrixNorm", "(%d,%d): %g", m, n, d);
    vx_outcome(hm_hash(nm, 31)); DelMatrix(&nm);
  } else vx_outcome(hm_hash(t, 32));
  DelMatrix(&a); DelMatrix(&t); DelMatrix(&tt);
}

static void op_stats(void) {
  int m = 1 + vx_choose("m-1", NMAX - 1), n = vx_choose("n", NMAX), f = vx_choose("fam", 3), off = vx_choose("offset", 4);
  double sc = SCALES[f % 3], offs = off == 0 ? 0 : off == 1 ? 7.5 * sc : off == 2 ? -1e3 * sc : 1e6;
  vx_require(off < 3 || sc <= 1.0);          /* values stay within the 1e-6..1e6 span of the statement */
  fill(A_, f, m, n, sc); for (int i = 0; i < m * n; i++) A_[i] += offs;
  matrix *a = hm_new(m, n, A_); rmat *ra = rm_from(a);
  dvector *avg, *sd, *rms, *var, *rav; initDVector(&avg); initDVector(&sd); initDVector(&rms); initDVector(&var); initDVector(&rav);
  MatrixColAverage(a, avg); MatrixColRMS(a, rms); MatrixRowAverage(a, rav); vx_transition(3);
  if (m >= 2) { MatrixColSDEV(a, sd); MatrixColVar(a, var); vx_transition(2); }
  vx_check((int)avg->size == n && (int)rms->size == n && (int)rav->size == (n > 0 ? m : m), "shape|column-statistics", "(%d,%d): sizes %zu %zu %zu", m, n, avg->size, rms->size, rav->size);
  double mag = fabs(offs) + sc; int anyflush = 0;
  for (int j = 0; j < n && (int)avg->size == n; j++) {
    ld mean, s, r; int cnt; rm_col_stats(ra, j, &cnt, &mean, &s, &r, NULL, NULL);
    /* class: the library flushes a column whose raw SUM is within 1e-6 of zero to an average of exactly 0 */
    int flush = fabsl(mean * cnt) < 1.001e-6L; if (flush) anyflush = 1;
    vx_check(fabs(avg->data[j] - (double)mean) <= 64 * DEPS * (m + 2) * mag, flush ? "value|MatrixColAverage|abs(colsum)<1e-6" : "value|MatrixColAverage", "(%d,%d) col %d: %g vs %Lg", m, n, j, avg->data[j], mean);
    vx_check(fabs(rms->data[j] - (double)r) <= 64 * DEPS * (m + 2) * mag, "value|MatrixColRMS", "(%d,%d) col %d: %g vs %Lg", m, n, j, rms->data[j], r);
    if (m >= 2 && (int)sd->size == n && (int)var->size == n) {
      /* two-pass centred sum of squares: each centred value carries eps*mag, each product eps*spread^2; the error of the
       * rounded mean cancels to first order.  A one-pass (sum x^2 - n mean^2) formula would err by eps*m*mag^2. */
      double tolvar = 64 * DEPS * (m + 2) * (sc * sc + mag * sc);
      double tol = (double)s > 0 ? tolvar / (2 * (double)s) + 8 * DEPS * (double)s : sqrt(tolvar);
      vx_check(fabs(sd->data[j] - (double)s) <= tol, "value|MatrixColSDEV", "(%d,%d) col %d: %g vs %Lg tol %g", m, n, j, sd->data[j], s, tol);
      vx_check(fabs(var->data[j] - (double)(s * s)) <= tolvar, "value|MatrixColVar", "(%d,%d) col %d: %g vs %Lg tol %g", m, n, j, var->data[j], s * s, tolvar);
    }
  }
  if (n > 0) for (int i = 0; i < m && (int)rav->size == m; i++) {
    ld s = 0; for (int j = 0; j < n; j++) s += a->data[i][j];
    vx_check(fabs(rav->data[i] - (double)(s / n)) <= 64 * DEPS * (n + 2) * mag, "value|MatrixRowAverage", "(%d,%d) row %d", m, n, i);
  }
  if (m >= 2) {
    matrix *cm; initMatrix(&cm); MatrixCovariance(a, cm); vx_transition(1);
    int shp = (int)cm->row == n && (int)cm->col == n;
    vx_check(shp || n == 0, "shape|MatrixCovariance", "(%d,%d) -> (%zu,%zu)", m, n, cm->row, cm->col);
    if (shp && n > 0) {
      rmat *rc = rm_new(n, n); ld *mu = calloc((size_t)n, sizeof(ld));
      for (int j = 0; j < n; j++) rm_col_stats(ra, j, NULL, &mu[j], NULL, NULL, NULL, NULL);
      for (int i = 0; i < n; i++) for (int j = 0; j < n; j++) { ld s = 0; for (int k = 0; k < m; k++) s += (RM(ra, k, i) - mu[i]) * (RM(ra, k, j) - mu[j]); RM(rc, i, j) = s / (m - 1); }
      double tol = 64 * DEPS * (m + 2) * (sc * sc + mag * sc);   /* centred products, see the variance bound above */
      vx_check(hm_maxdiff_rm(cm, rc) <= tol, anyflush ? "value|MatrixCovariance|abs(colsum)<1e-6" : "value|MatrixCovariance", "(%d,%d): %g tol %g", m, n, hm_maxdiff_rm(cm, rc), tol);
      double asym = 0; for (int i = 0; i < n; i++) for (int j = 0; j < n; j++) asym = fmax(asym, fabs(cm->data[i][j] - cm->data[j][i]));
      vx_check(asym <= tol, "law|covariance-symmetric", "(%d,%d): %g", m, n, asym);
      rmat *lc = rm_from(cm); for (int i = 0; i < n; i++) for (int j = 0; j < i; j++) RM(lc, i, j) = RM(lc, j, i) = (RM(lc, i, j) + RM(lc, j, i)) / 2;
      ld *ev = calloc((size_t)n, sizeof(ld)); rm_jacobi_eig(lc, ev, NULL);
      vx_check((double)ev[n - 1] >= -tol * n, anyflush ? "law|covariance-PSD|abs(colsum)<1e-6" : "law|covariance-PSD", "(%d,%d): min eigenvalue %Lg", m, n, ev[n - 1]);
      vx_outcome(hm_hash(cm, 41));
      /* the covariance is assigned, not accumulated: a second call into the same (already filled) output, and a call into
       * an output that held the covariance of another matrix, must give the same matrix */
      { matrix *c2; initMatrix(&c2); MatrixCopy(cm, &c2); MatrixCovariance(a, cm); vx_transition(1);
        vx_check(hm_maxdiff(cm, c2) == 0, "reuse|MatrixCovariance|same-shape", "(%d,%d): second call into the same output differs by %g", m, n, hm_maxdiff(cm, c2));
        matrix *c3 = hm_new(n + 1, n + 1, NULL); MatrixSet(c3, 3.0); MatrixCovariance(a, c3); vx_transition(1);
        vx_check(hm_maxdiff(c3, c2) == 0, "reuse|MatrixCovariance|other-shape", "(%d,%d): call into an output of another shape differs by %g", m, n, hm_maxdiff(c3, c2));
        DelMatrix(&c2); DelMatrix(&c3); }
      free(ev); free(mu); rm_free(rc); rm_free(lc);
    }
    DelMatrix(&cm);
  } else vx_outcome(hv_hash(avg, 42));
  DelDVector(&avg); DelDVector(&sd); DelDVector(&rms); DelDVector(&var); DelDVector(&rav); rm_free(ra); DelMatrix(&a);
}

static void op_sort(void) {
  int rev = vx_choose("reverse", 2), m = vx_choose("m", NMAX), n = 1 + vx_choose("n-1", 4), key = vx_choose("keycol", n), f = vx_choose("fam", vx_thorough() ? 12 : 4);
  fill(A_, f, m, n, SCALES[f % 3]);
  for (int i = 0; i < m; i++) if (n > 1 && key != n - 1) A_[i * n + n - 1] = i; /* tag column = original row */
  matrix *a = hm_new(m, n, A_), *s = hm_new(m, n, A_);
  if (rev) MatrixReverseSort(s, (size_t)key); else MatrixSort(s, (size_t)key);
  vx_transition(1);
  int ordered = 1; for (int i = 0; i + 1 < m; i++) if (rev ? s->data[i][key] < s->data[i + 1][key] : s->data[i][key] > s->data[i + 1][key]) ordered = 0;
  vx_check(ordered, rev ? "order|MatrixReverseSort" : "order|MatrixSort", "(%d,%d) key %d not ordered", m, n, key);
  /* permutation of rows: every source row appears exactly once (keys are distinct) */
  int perm_ok = 1; char used[NMAX] = {0};
  for (int i = 0; i < m; i++) { int found = -1; for (int r = 0; r < m; r++) if (!used[r] && memcmp(a->data[r], s->data[i], sizeof(double) * (size_t)n) == 0) { found = r; break; } if (found < 0) perm_ok = 0; else used[found] = 1; }
  vx_check(perm_ok, rev ? "perm|MatrixReverseSort" : "perm|MatrixSort", "(%d,%d) key %d rows are not a permutation of the input rows", m, n, key);
  vx_outcome(hm_hash(s, 51));
  DelMatrix(&a); DelMatrix(&s);
}

static void op_tensor(void) {
  int which = vx_choose("kernel", 3), o = 1 + vx_choose("order-1", 4), r = vx_choose("rows", 6), c = vx_choose("cols", 6), f = vx_choose("fam", 3);
  double sc = SCALES[f % 3];
  tensor *t; NewTensor(&t, (size_t)o);
  for (int k = 0; k < o; k++) { NewTensorMatrix(t, (size_t)k, (size_t)r, (size_t)c); for (int i = 0; i < r; i++) for (int j = 0; j < c; j++) t->m[k]->data[i][j] = vg_val(f * 10 + k, i, j) * sc; }
  double tol = 64 * DEPS * (r * c * o + 2) * sc * sc;
  if (which == 0) {        /* p[k][i] = sum_j t[k][i][j] v[j] */
    fill(B_, f + 100, c, 1, sc); dvector *v = hv_new(c, B_); matrix *p = hm_new(o, r, NULL);
    TransposedTensorDVectorProduct(t, v, p); vx_transition(1);
    double d = 0; for (int k = 0; k < o; k++) for (int i = 0; i < r; i++) { ld s = 0; for (int j = 0; j < c; j++) s += (ld)t->m[k]->data[i][j] * v->data[j]; d = fmax(d, fabs(p->data[k][i] - (double)s)); }
    vx_check(d <= tol, "value|TransposedTensorDVectorProduct", "order %d (%d,%d): %g", o, r, c, d);
    vx_outcome(hm_hash(p, 61)); DelDVector(&v); DelMatrix(&p);
  } else if (which == 1) { /* m[j][k] = sum_i v[i] t[k][i][j] */
    fill(B_, f + 100, r, 1, sc); dvector *v = hv_new(r, B_); matrix *p = hm_new(c, o, NULL);
    DvectorTensorDotProduct(t, v, p); vx_transition(1);
    double d = 0; for (int k = 0; k < o; k++) for (int j = 0; j < c; j++) { ld s = 0; for (int i = 0; i < r; i++) s += (ld)t->m[k]->data[i][j] * v->data[i]; d = fmax(d, fabs(p->data[j][k] - (double)s)); }
    vx_check(d <= tol, "value|DvectorTensorDotProduct", "order %d (%d,%d): %g", o, r, c, d);
    vx_outcome(hm_hash(p, 62)); DelDVector(&v); DelMatrix(&p);
  } else {                 /* v[i] = sum_k sum_j t[k][i][j] m[j][k] */
    fill(B_, f + 100, c, o, sc); matrix *mm = hm_new(c, o, B_); dvector *v = hv_new(r, NULL);
    TensorMatrixDotProduct(t, mm, v); vx_transition(1);
    double d = 0; for (int i = 0; i < r; i++) { ld s = 0; for (int k = 0; k < o; k++) for (int j = 0; j < c; j++) s += (ld)t->m[k]->data[i][j] * mm->data[j][k]; d = fmax(d, fabs(v->data[i] - (double)s)); }
    vx_check(d <= tol, "value|TensorMatrixDotProduct", "order %d (%d,%d): %g", o, r, c, d);
    vx_outcome(hv_hash(v, 63)); DelDVector(&v); DelMatrix(&mm);
  }
  DelTensor(&t);
}

static void op_vector(void) {
  int n = vx_choose("n", NMAX), f = vx_choose("fam", 3); double sc = SCALES[f % 3];
  fill(A_, f, n, 1, sc); fill(B_, f + 100, n, 1, sc);
  dvector *a = hv_new(n, A_), *b = hv_new(n, B_), *d, *s; initDVector(&d); initDVector(&s); /* Diff/Sum append to their output */
  ld dot = 0, aa = 0; for (int i = 0; i < n; i++) { dot += (ld)A_[i] * B_[i]; aa += (ld)A_[i] * A_[i]; }
  double tol = 64 * DEPS * (n + 2) * sc * sc;
  vx_check(fabs(DVectorDVectorDotProd(a, b) - (double)dot) <= tol, "value|DVectorDVectorDotProd", "n=%d", n);
  vx_check(fabs(DvectorModule(a) - (double)sqrtl(aa)) <= 64 * DEPS * (n + 2) * sc, "value|DvectorModule", "n=%d", n);
  DVectorDVectorDiff(a, b, d); DVectorDVectorSum(a, b, s); vx_transition(4);
  int ok = (int)d->size == n && (int)s->size == n;
  for (int i = 0; ok && i < n; i++) if (d->data[i] != A_[i] - B_[i] || s->data[i] != A_[i] + B_[i]) ok = 0;
  vx_check(ok, "value|DVectorDVectorDiff/Sum", "n=%d", n);
  if (n > 0) {
    dvector *nv = hv_new(n, NULL); DVectNorm(a, nv); vx_transition(1);
    double e = 0; for (int i = 0; i < n; i++) e = fmax(e, fabs(nv->data[i] - (double)((ld)A_[i] / sqrtl(aa))));
    vx_check(e <= 64 * DEPS * (n + 2), "value|DVectNorm", "n=%d: %g", n, e);
    double mean, sdv, mn, mx; DVectorMean(a, &mean); DVectorMinMax(a, &mn, &mx); vx_transition(2);
    ld mu = 0, lo = A_[0], hi = A_[0]; for (int i = 0; i < n; i++) { mu += A_[i]; if (A_[i] < lo) lo = A_[i]; if (A_[i] > hi) hi = A_[i]; } mu /= n;
    vx_check(fabs(mean - (double)mu) <= 64 * DEPS * (n + 2) * sc, "value|DVectorMean", "n=%d", n);
    vx_check(mn == (double)lo && mx == (double)hi, "value|DVectorMinMax", "n=%d: (%g,%g) vs (%Lg,%Lg)", n, mn, mx, lo, hi);
    if (n >= 2) { DVectorSDEV(a, &sdv); ld ss = 0; for (int i = 0; i < n; i++) ss += (A_[i] - mu) * (A_[i] - mu); vx_transition(1);
      /* the header does not say which definition; population and sample deviation are both accepted */
      vx_check(fabs(sdv - (double)sqrtl(ss / (n - 1))) <= 64 * DEPS * (n + 2) * sc * 4 || fabs(sdv - (double)sqrtl(ss / n)) <= 64 * DEPS * (n + 2) * sc * 4, "value|DVectorSDEV", "n=%d: %g vs %Lg / %Lg", n, sdv, sqrtl(ss / (n - 1)), sqrtl(ss / n)); }
    dvector *so = hv_new(n, A_); DVectorSort(so); vx_transition(1);
    int ord = 1; for (int i = 0; i + 1 < n; i++) if (so->data[i] > so->data[i + 1]) ord = 0;
    ld s1 = 0, s2 = 0; for (int i = 0; i < n; i++) { s1 += A_[i]; s2 += so->data[i]; }
    vx_check(ord && fabsl(s1 - s2) <= 64 * DEPS * (n + 2) * sc, "order|DVectorSort", "n=%d", n);
    DelDVector(&nv); DelDVector(&so);
  }
  vx_outcome(hv_hash(d, hv_hash(s, 71)));
  DelDVector(&a); DelDVector(&b); DelDVector(&d); DelDVector(&s);
}

static void body(void) {
  int op = vx_choose("op", 10);
  switch (op) {
    case 0: op_matmul(0); break;
    case 1: op_matmul(1); break;
    case 2: op_matmul(2); break;
    case 3: op_matvec(); break;
    case 4: op_outer(); break;
    case 5: op_unary(); break;
    case 6: op_stats(); break;
    case 7: op_sort(); break;
    case 8: op_tensor(); break;
    case 9: op_vector(); break;
  }
}

int main(int argc, char **argv) {
  vg_seed(getenv("VERIF_SEED") ? atol(getenv("VERIF_SEED")) : 0);
  vx_describe("alphabet", "op in {MatrixDotProduct, MatrixDotProduct_, _LOOP_UNROLLING (all (m,k,n) in 0..17^3), M*v and v'*M (0..17^2), outer products (3 variants), transpose/norm/trace/MatrixNorm, column/row statistics + covariance (rows 1..17, cols 0..17, 3 offsets), MatrixSort/ReverseSort (rows 0..17, cols 1..4, every key column), 3 tensor contractions (order 1..4, 0..5 x 0..5), vector kernels (0..17)} x value families at scales 1e-6, 1, 1e6");
  vx_describe("oracle", "long-double textbook definition with forward error bound 64*eps*(k+2)*sum|a||b|; algebraic laws; ASan/UBSan on exactly allocated operands");
  vx_set_shard_depth(3);
  vx_expect_outcomes(1000);
  return vx_main(argc, argv, "C11", body);
}
