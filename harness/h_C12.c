/* C12 -- linear solvers, inverses, determinant, least squares, pseudo-inverse, eigen-decomposition and SVD
 * satisfy their defining equations.
 *
 * Complete small scopes (every {-1,0,1} matrix of order 2 and 3, every permutation matrix of order <= 6 (7 in
 * the thorough tier)) plus indexed structured families of order 1..12 (triangular, SPD, diagonal,
 * cyclic-shift + 1e-9 perturbation, anti-diagonal dominant, U diag(s) V^T with kappa 1 .. 1e6) and all
 * rectangular shapes 1..12 x 1..12.  Every oracle is a residual of the defining equation evaluated in long
 * double against the library's (double) result; references come from engine/vnum.c only.
 *
 * Violation keys are  <oracle>|<library function>|<input class>; the class is computed from the input alone:
 *   needs-pivot        plain elimination without row exchanges meets an exactly zero pivot, or is not backward
 *                      stable on this input (|L||U| growth > 16)
 *   abs<1e-4 ...       see lse_class()
 *   m<n / m>n / m=n    shape class for SVDlapack
 *   ...                (each op documents its classes next to the code)
 */
#include "hcommon.h"
#include "algebra.h"
#include <stdarg.h>
#include <unistd.h>

#define NMAX 12
#define CSAFE 1e3 /* the fixed safety factor C of DESIGN.md section 3 */

/* ------------------------------------------------------------------------------------------------------
 * Local work-around (see notes/C12.md): the engine names a sanitizer crash  crash|<kind>|<function>  from the
 * first stack frame it finds in the worker's stderr.  To let the key also carry the INPUT CLASS (so that the
 * known SVDlapack m!=n overflow and a hypothetical overflow on square input get different keys), the harness
 * defines ASan's weak report hook and prints one frame-shaped line naming "<function>|<class>" before the
 * report.  Nothing is printed unless ASan is already reporting an error. */
static char CRASHCLS[120];
void __asan_on_error(void) {
  if (!CRASHCLS[0]) return;
  char b[220]; int n = snprintf(b, sizeof b, "    #0 0x0 in %s /src/(input-class-tag-written-by-h_C12)\n", CRASHCLS);
  if (n > 0) { ssize_t w = write(2, b, (size_t)n); (void)w; }
}
/* allocation stacks are not needed to attribute a report (the error stack is kept) and cost an unwind per malloc plus
 * a second symbolisation per report; a replay can turn them back on with ASAN_OPTIONS=malloc_context_size=30 */
const char *__asan_default_options(void) { return "malloc_context_size=0"; }
static void arm(const char *fn, const char *cls) { snprintf(CRASHCLS, sizeof CRASHCLS, "%s|%s", fn, cls); }
static void disarm(void) { CRASHCLS[0] = 0; }

/* ------------------------------------------------------------------------------------------------------
 * margins: with VERIF_MARGINS=<file> every new extreme of measured/allowed per key is appended to <file>
 * (largest ratio among passing checks, smallest among failing ones); used for the tables in the notes. */
#define MAXMK 160
static struct { char key[140]; double maxpass, minfail; } MK[MAXMK];
static int nMK; static const char *MFILE; static int mfile_init;
static void margin_note(const char *key, double ratio) {
  static int all; if (!mfile_init) { MFILE = getenv("VERIF_MARGINS"); all = getenv("VERIF_MARGINS_ALL") != NULL; mfile_init = 1; }
  if (!MFILE) return;
  if (all) { FILE *o = fopen(MFILE, "a"); if (o) { fprintf(o, "%s\t%.3e\n", key, ratio); fclose(o); } return; }
  int k; for (k = 0; k < nMK; k++) if (!strcmp(MK[k].key, key)) break;
  if (k == nMK) { if (nMK >= MAXMK) return; snprintf(MK[k].key, sizeof MK[k].key, "%s", key); MK[k].maxpass = -1; MK[k].minfail = INFINITY; nMK++; }
  int upd = 0;
  if (ratio <= 1) { if (ratio > MK[k].maxpass) { MK[k].maxpass = ratio; upd = 1; } }
  else { double r = ratio == ratio ? ratio : 1e308; if (r < MK[k].minfail) { MK[k].minfail = r; upd = 1; } }
  if (upd) { FILE *o = fopen(MFILE, "a"); if (o) { fprintf(o, "%s\t%.3e\n", key, ratio); fclose(o); } }
}
/* judge one numerical oracle: measured error against derived allowance */
static int judge(double err, double tol, const char *key, const char *fmt, ...) __attribute__((format(printf, 4, 5)));
static int judge(double err, double tol, const char *key, const char *fmt, ...) {
  int ok = err <= tol; /* NaN fails */
  margin_note(key, ok ? (tol > 0 ? err / tol : 0) : (tol > 0 ? err / tol : INFINITY));
  if (ok) { vx_check(1, key, " "); return 1; }
  char msg[700]; va_list ap; va_start(ap, fmt); vsnprintf(msg, sizeof msg, fmt, ap); va_end(ap);
  vx_check(0, key, "%s :: measured %.3g allowed %.3g", msg, err, tol);
  return 0;
}

/* ------------------------------------------------------------------------------------------------------ */
static ld permabs_rec(const ld *a, int n, int stride, const int *cols, int row) {
  if (n == 1) return fabsl(a[row * stride + cols[0]]);
  ld s = 0; int sub[NMAX];
  for (int j = 0; j < n; j++) {
    ld v = fabsl(a[row * stride + cols[j]]); if (v == 0) continue;
    int m = 0; for (int t = 0; t < n; t++) if (t != j) sub[m++] = cols[t];
    s += v * permabs_rec(a, n - 1, stride, sub, row + 1);
  }
  return s;
}
/* permanent of |A|: the sum of the absolute values of all n! terms of the Leibniz/Laplace expansion */
static ld permabs(const rmat *a) { int cols[NMAX]; if (a->r == 0) return 1; for (int i = 0; i < a->r; i++) cols[i] = i; return permabs_rec(a->a, a->r, a->c, cols, 0); }

/* 1 if elimination WITHOUT row exchanges meets an exactly zero pivot or is unstable (growth of |L||U| > 16) */
static int needs_pivot(const rmat *A, ld *gamma) {
  int n = A->r; rmat *U = rm_copy(A), *L = rm_eye(n); ld g = INFINITY; int need = 0;
  for (int k = 0; k < n && !need; k++) {
    if (RM(U, k, k) == 0) { need = 1; break; }
    for (int i = k + 1; i < n; i++) { ld f = RM(U, i, k) / RM(U, k, k); RM(L, i, k) = f; for (int j = k; j < n; j++) RM(U, i, j) -= f * RM(U, k, j); RM(U, i, k) = 0; }
  }
  if (!need) {
    ld mx = 0, ma = rm_maxabs(A);
    for (int i = 0; i < n; i++) for (int j = 0; j < n; j++) { ld s = 0; for (int k = 0; k < n; k++) s += fabsl(RM(L, i, k)) * fabsl(RM(U, k, j)); if (s > mx) mx = s; }
    g = ma > 0 ? mx / ma : INFINITY; if (g > 16) need = 1;
  }
  if (gamma) *gamma = g;
  rm_free(U); rm_free(L); return need;
}

/* ---- square inputs ---------------------------------------------------------------------------------- */
typedef struct { int n, src, kind; double a[NMAX * NMAX]; double sc; char tag[80]; } sqm;
static const int ORD_Q[] = {1, 2, 3, 4, 5, 8, 12};
static const int ORD_T[] = {1, 2, 3, 4, 5, 6, 7, 8, 9, 10, 11, 12};
static const double KAPPAS[4] = {1, 1e2, 1e4, 1e6};

static void build_indexed(int n, int kind, int fam, double *a) {
  int k0 = fam * 32 + kind; double V[NMAX * NMAX];
  memset(a, 0, sizeof(double) * (size_t)(n * n)); vg_fill(k0, n, n, V);
  switch (kind) {
    case 0: for (int i = 0; i < n; i++) for (int j = i; j < n; j++) a[i * n + j] = j == i ? (V[i * n + i] < 0 ? -1 : 1) * (1 + fabs(V[i * n + i])) : V[i * n + j]; break;         /* upper triangular */
    case 1: for (int i = 0; i < n; i++) for (int j = 0; j <= i; j++) a[i * n + j] = j == i ? (V[i * n + i] < 0 ? -1 : 1) * (1 + fabs(V[i * n + i])) : V[i * n + j]; break;        /* lower triangular */
    case 2: for (int i = 0; i < n; i++) for (int j = 0; j < n; j++) { ld s = 0; for (int k = 0; k < n; k++) s += (ld)V[k * n + i] * V[k * n + j]; a[i * n + j] = (double)(s + (i == j ? 0.25L : 0)); }
            for (int i = 0; i < n; i++) for (int j = 0; j < i; j++) a[i * n + j] = a[j * n + i]; break;                                                                             /* SPD */
    case 3: for (int i = 0; i < n; i++) a[i * n + i] = (V[i * n + i] < 0 ? -1 : 1) * (0.25 + fabs(V[i * n + i])) * ldexp(1.0, (i % 5) - 2); break;                                   /* diagonal */
    case 4: for (int i = 0; i < n; i++) for (int j = 0; j < n; j++) a[i * n + j] = (j == (i + 1) % n ? 1.0 : 0.0) + 1e-9 * V[i * n + j]; break;                                   /* cyclic shift + tiny perturbation: tiny leading minors */
    case 5: for (int i = 0; i < n; i++) for (int j = 0; j < n; j++) a[i * n + j] = (j == n - 1 - i ? 1.0 : 0.0) + 0.05 * V[i * n + j]; break;                                     /* anti-diagonal dominant */
    default: { double kap = KAPPAS[kind - 6]; vg_spectral(k0, n, n, 1.0, n > 1 ? pow(kap, -1.0 / (n - 1)) : 1.0, a); }                                                              /* known singular values */
  }
}

/* draws the choices that select one square matrix of order <= maxn */
static void gen_square(sqm *q, int maxn, int with_scale) {
  int src = vx_choose("src", 4); q->src = src; q->kind = -1; memset(q->a, 0, sizeof q->a);
  if (src == 0) { q->n = 2; int e = vx_choose("cells", 81); for (int i = 0; i < 4; i++) { q->a[i] = e % 3 - 1; e /= 3; } snprintf(q->tag, sizeof q->tag, "tern2"); }
  else if (src == 1) { q->n = 3; static const char *lab[3] = {"row0", "row1", "row2"}; for (int r = 0; r < 3; r++) { int e = vx_choose(lab[r], 27); for (int c = 0; c < 3; c++) { q->a[r * 3 + c] = e % 3 - 1; e /= 3; } } snprintf(q->tag, sizeof q->tag, "tern3"); }
  else if (src == 2) {
    int top = vx_thorough() ? 7 : 6; if (top > maxn) top = maxn;
    q->n = 1 + vx_choose("n-1", top); long k = vx_choose("perm", (int)vg_fact(q->n)); int p[NMAX]; vg_perm(q->n, k, p);
    for (int i = 0; i < q->n; i++) q->a[i * q->n + p[i]] = 1; snprintf(q->tag, sizeof q->tag, "perm%d#%ld", q->n, k);
  } else {
    const int *ord = vx_thorough() ? ORD_T : ORD_Q; int no = vx_thorough() ? 12 : 7; while (no > 0 && ord[no - 1] > maxn) no--;
    q->n = ord[vx_choose("order", no)]; q->kind = vx_choose("kind", 10); int fam = vx_choose("fam", vx_thorough() ? 6 : 2);
    build_indexed(q->n, q->kind, fam, q->a); snprintf(q->tag, sizeof q->tag, "idx(n=%d,kind=%d,fam=%d)", q->n, q->kind, fam);
  }
  q->sc = 1;
  if (with_scale && (src != 1 || vx_thorough()) && !(with_scale == 2 && q->n > 6)) { if (vx_choose("scale", 2)) q->sc = ldexp(1.0, -17); }   /* exact power of two: 7.6e-6 */
  for (int i = 0; i < q->n * q->n; i++) q->a[i] *= q->sc;
}
static rmat *rm_of(const double *a, int r, int c) { rmat *m = rm_new(r, c); for (int i = 0; i < r * c; i++) m->a[i] = a[i]; return m; }
/* replay mode only: print operands and results */
static void log_arr(const char *name, const double *a, int r, int c) {
  if (!vx_replaying()) return;
  vx_log("%s (%dx%d):\n", name, r, c); for (int i = 0; i < r; i++) { for (int j = 0; j < c; j++) vx_log(" % .10g", a[i * c + j]); vx_log("\n"); }
}
static void log_mat(const char *name, const matrix *m) {
  if (!vx_replaying()) return;
  vx_log("%s (%zux%zu):\n", name, m->row, m->col); for (size_t i = 0; i < m->row; i++) { for (size_t j = 0; j < m->col; j++) vx_log(" % .10g", m->data[i][j]); vx_log("\n"); }
}
static void log_vec(const char *name, const dvector *v) { if (!vx_replaying()) return; vx_log("%s (%zu):", name, v->size); for (size_t i = 0; i < v->size; i++) vx_log(" % .10g", v->data[i]); vx_log("\n"); }
/* precondition of the statement: non-singular, kappa <= 1e6 (kappa measured by the long-double reference SVD) */
static ld require_regular(const rmat *R) {
  rmat *lu = rm_copy(R); int piv[NMAX + 1]; ld det; int ok = rm_lu(lu, piv, &det); rm_free(lu);
  vx_require(ok && det != 0);
  ld kap = rm_cond2(R); vx_require(kap <= 1.0001e6L);
  return kap;
}

/* ---- op: MatrixInversion / MatrixLUInversion -------------------------------------------------------- */
/* the inverse routines size and assign their output: inverting again into the matrix that already holds the inverse must
 * return the same inverse (an accumulating kernel with a skipped re-initialisation would double it) */
static void reuse_same(const char *fn, const char *cls, matrix *first, matrix *again) {
  char key[160]; snprintf(key, sizeof key, "reuse|%s|%s", fn, cls);
  vx_check(hm_maxdiff(first, again) == 0, key, "second call into the filled output differs by %g (max |value| %g)", hm_maxdiff(first, again), hm_maxabs(first));
}
static void op_inv(int lu) {
  sqm q; gen_square(&q, NMAX, 1); int n = q.n;
  rmat *R = rm_of(q.a, n, n); ld kap = require_regular(R); ld gam; int np = needs_pivot(R, &gam);
  const char *fn = lu ? "MatrixLUInversion" : "MatrixInversion", *cls = np ? "needs-pivot" : "no-pivot-needed";
  matrix *m = hm_new(n, n, q.a), *inv; initMatrix(&inv);
  log_mat("M", m);
  arm(fn, cls); if (lu) MatrixLUInversion(m, inv); else MatrixInversion(m, inv); disarm(); vx_transition(1);
  log_mat(fn, inv);
  { matrix *keep; initMatrix(&keep); MatrixCopy(inv, &keep); arm(fn, cls); if (lu) MatrixLUInversion(m, inv); else MatrixInversion(m, inv); disarm(); vx_transition(1);
    reuse_same(fn, cls, keep, inv); DelMatrix(&keep); }
  char key[160]; snprintf(key, sizeof key, "shape|%s|%s", fn, cls);
  int shp = (int)inv->row == n && (int)inv->col == n; vx_check(shp, key, "%s: result is %zux%zu for order %d", q.tag, inv->row, inv->col, n);
  if (shp) {
    /* statement: "the inverse routines return M^-1 (M*M^-1 = I)".  Gauss-Jordan (with or without pivoting) and LAPACK's
     * getri are FORWARD stable, not backward stable: the derived guarantee is |X - M^-1| <= C eps n kappa |M^-1| (q = 1), and
     * for the product only what follows from it, |M X - I| = |M (X - M^-1)| <= n |M| * C eps n kappa |M^-1|.  (A right
     * residual of eps*kappa would over-demand: a correct pivoted Gauss-Jordan reaches 0.24 of that allowance on this
     * alphabet at kappa = 1e6 because cond(U) enters its residual, Higham ASNA 14.4.) */
    rmat *I = rm_from(inv), *Xr = rm_new(n, n), *P = rm_mul(R, I); for (int i = 0; i < n; i++) RM(P, i, i) -= 1;
    rm_inv(R, Xr);
    double xmax = (double)rm_maxabs(Xr), mmax = (double)rm_maxabs(R), tolf = CSAFE * DEPS * n * (double)kap * xmax;
    snprintf(key, sizeof key, "value|%s|%s", fn, cls);
    judge((double)rm_maxabs_diff(I, Xr), tolf, key, "%s scale %g kappa %.3Lg growth %.3Lg: max|Minv - reference inverse|", q.tag, q.sc, kap, gam);
    snprintf(key, sizeof key, "product|%s|%s", fn, cls);
    judge((double)rm_maxabs(P), tolf * n * mmax, key, "%s scale %g kappa %.3Lg growth %.3Lg: max|M*Minv - I|", q.tag, q.sc, kap, gam);
    rm_free(Xr);
    int same = 1; for (int i = 0; i < n; i++) for (int j = 0; j < n; j++) if (m->data[i][j] != q.a[i * n + j]) same = 0;
    snprintf(key, sizeof key, "input-clobbered|%s", fn); vx_check(same, key, "%s: the input matrix was modified", q.tag);
    vx_outcome(hm_hash(inv, (uint64_t)(10 + lu))); rm_free(I); rm_free(P);
  } else vx_outcome(77);
  rm_free(R); DelMatrix(&m); DelMatrix(&inv);
}

/* ---- op: MatrixDeterminant -------------------------------------------------------------------------- */
static void fixedB(int k, int n, double *b) {
  memset(b, 0, sizeof(double) * (size_t)(n * n));
  switch (k) {
    case 0: for (int i = 0; i < n; i++) b[i * n + (i + 1) % n] = 1; break;
    case 1: for (int i = 0; i < n; i++) b[i * n + i] = i == 0 ? 2 : i == n - 1 ? -1 : 1; break;
    case 2: for (int i = 0; i < n; i++) for (int j = i; j < n; j++) b[i * n + j] = 1; break;
    case 3: for (int i = 0; i < n; i++) b[i * n + i] = 1; b[(n - 1) * n] += 2; break;
    default: for (int i = 0; i < n; i++) for (int j = 0; j < n; j++) b[i * n + j] = floor(vg_val(900 + k, i, j) * 5 + 2.5) - 2; /* integers in -2..2 */
  }
}
static void op_det(void) {
  sqm q; gen_square(&q, 8, 2); int n = q.n;          /* the library's Laplace expansion costs n! (0.1 s at order 8 under ASan): order <= 8 as in the statement; orders 7, 8: one scale, 2 of the 8 B */
  rmat *R = rm_of(q.a, n, n); ld kap = require_regular(R);
  rmat *lu = rm_copy(R); int piv[NMAX + 1]; ld detlu; rm_lu(lu, piv, &detlu); rm_free(lu);      /* product of pivots of an independent LU */
  ld detcof = rm_det_cofactor(R), pA = permabs(R);
  matrix *m = hm_new(n, n, q.a);
  log_mat("M", m);
  arm("MatrixDeterminant", "nonsingular"); double d = MatrixDeterminant(m); disarm(); vx_transition(1);
  vx_log("MatrixDeterminant = %.17g, reference LU %.17Lg, cofactor %.17Lg, perm|A| %.6Lg\n", d, detlu, detcof, pA);
  double tolA = 64 * DEPS * (n + 1) * (double)pA;   /* each of the n! terms carries <= 2n roundings: forward bound ~ 2n*eps*perm|A| */
  judge(fabs(d - (double)detlu), tolA, "value|MatrixDeterminant", "%s scale %g kappa %.3Lg: library %.17g, product of LU pivots %.17Lg, cofactor %.17Lg", q.tag, q.sc, kap, d, detlu, detcof);
  if (q.src < 3) vx_check((ld)d == detcof, "exact|MatrixDeterminant|small-integers", "%s scale %g: library %.17g, exact %.17Lg", q.tag, q.sc, d, detcof);
  /* multiplicative: det(AB) = det(A) det(B) for 8 fixed B, all three determinants taken from the library */
  double worst = 0, B[NMAX * NMAX];
  for (int k = 0; k < (n > 6 ? 2 : 8); k++) {
    fixedB(n > 6 ? 4 * k + 2 : k, n, B); rmat *RB = rm_of(B, n, n), *AB = rm_mul(R, RB);
    matrix *mb = hm_new(n, n, B), *mab = hm_from_rm(AB);
    rmat *absA = rm_copy(R), *absB = rm_copy(RB); for (int i = 0; i < n * n; i++) { absA->a[i] = fabsl(absA->a[i]); absB->a[i] = fabsl(absB->a[i]); }
    rmat *absAB = rm_mul(absA, absB); ld pB = permabs(RB), pAB = permabs(absAB);
    double db = MatrixDeterminant(mb), dab = MatrixDeterminant(mab); vx_transition(2);
    double tol = 64 * DEPS * (n + 2) * (double)(pAB + 2 * pA * pB);
    double err = fabs(dab - d * db); if (!(err <= worst)) worst = err;
    judge(err, tol, "law|det(AB)=det(A)det(B)|MatrixDeterminant", "%s scale %g, B#%d: det(AB) %.17g, det(A) %.17g, det(B) %.17g", q.tag, q.sc, k, dab, d, db);
    rm_free(RB); rm_free(AB); rm_free(absA); rm_free(absB); rm_free(absAB); DelMatrix(&mb); DelMatrix(&mab);
  }
  vx_outcome(vx_hash_doubles(&d, 1, 20));
  rm_free(R); DelMatrix(&m);
}

/* ---- op: SolveLSE ------------------------------------------------------------------------------------
 * classes (first that applies):
 *   abs<1e-4          the system contains, or plain elimination produces, a non-zero quantity of magnitude below
 *                     the ABSOLUTE threshold 1e-4 against which the routine decides "is zero"
 *   needs-pivot       plain elimination without exchanges meets a zero pivot / is unstable
 *   zero-on-diagonal  some diagonal entry of the given matrix is 0 (the routine's row re-ordering pass acts)
 *   general           none of the above: the routine performs plain, threshold-free elimination */
static const char *lse_class(const rmat *A) {
  int n = A->r; ld ma = rm_maxabs(A), zero = 1e-12L * ma; int tiny = 0, zd = 0;
  rmat *U = rm_copy(A);
  for (int i = 0; i < n * n; i++) { ld v = fabsl(U->a[i]); if (v > zero && v < 1.001e-4L) tiny = 1; }
  for (int i = 0; i < n; i++) if (fabsl(RM(A, i, i)) <= zero) zd = 1;
  for (int k = 0; k < n && !tiny; k++) {
    if (fabsl(RM(U, k, k)) <= zero) break;
    for (int i = k + 1; i < n; i++) { ld f = RM(U, i, k) / RM(U, k, k); for (int j = k; j < n; j++) { RM(U, i, j) -= f * RM(U, k, j); ld v = fabsl(RM(U, i, j)); if (j > k && v > zero && v < 1.001e-4L) tiny = 1; } }
  }
  rm_free(U);
  if (tiny) return "abs<1e-4";
  if (needs_pivot(A, NULL)) return "needs-pivot";
  if (zd) return "zero-on-diagonal";
  return "general";
}
static void op_lse(void) {
  sqm q; gen_square(&q, NMAX, 1); int n = q.n;
  rmat *R = rm_of(q.a, n, n); ld kap = require_regular(R); const char *cls = lse_class(R);
  uint64_t h = 30;
  for (int bk = 0; bk < 3; bk++) {
    rmat *b = rm_new(n, 1), *xr = rm_new(n, 1);
    if (bk == 0) { for (int i = 0; i < n; i++) { ld s = 0; for (int j = 0; j < n; j++) s += RM(R, i, j) * (ld)((j % 2 ? -1 : 1) * (j + 1)); RM(b, i, 0) = (double)s; } }   /* x = (1,-2,3,...) */
    else if (bk == 1) { for (int i = 0; i < n; i++) RM(b, i, 0) = q.sc; }
    else { for (int i = 0; i < n; i++) RM(b, i, 0) = vg_val(950, i, 0) * q.sc; }
    rm_solve(R, b, xr);
    matrix *eq = hm_new(n, n + 1, NULL); for (int i = 0; i < n; i++) { for (int j = 0; j < n; j++) eq->data[i][j] = q.a[i * n + j]; eq->data[i][n] = (double)RM(b, i, 0); }
    dvector *x; initDVector(&x);                                  /* calling convention of tests/testalgebra.c */
    log_mat("[M|b]", eq);
    arm("SolveLSE", cls); SolveLSE(eq, x); disarm(); vx_transition(1);
    log_vec("SolveLSE", x); if (vx_replaying()) { vx_log("reference solution:"); for (int i = 0; i < n; i++) vx_log(" % .10Lg", RM(xr, i, 0)); vx_log("\n"); }
    char key[160]; snprintf(key, sizeof key, "shape|SolveLSE|%s", cls);
    int shp = (int)x->size == n; vx_check(shp, key, "%s: solution has %zu entries for %d unknowns", q.tag, x->size, n);
    if (shp) {
      /* statement: "return the solution of the stated system": backward-error form |Mx-b|_i <= C eps n (|M||x|+|b|)_i */
      double err = 0, bound = 0;
      for (int i = 0; i < n; i++) { ld r = -RM(b, i, 0), s = fabsl(RM(b, i, 0)); for (int j = 0; j < n; j++) { r += RM(R, i, j) * (ld)x->data[j]; s += fabsl(RM(R, i, j) * RM(xr, j, 0)); } double e = (double)fabsl(r); if (!(e <= err)) err = e; if ((double)s > bound) bound = (double)s; }
      snprintf(key, sizeof key, "residual|SolveLSE|%s", cls);
      judge(err, CSAFE * DEPS * n * bound, key, "%s scale %g rhs#%d kappa %.3Lg: max|Mx-b|; x[0]=%.6g reference x[0]=%.6Lg", q.tag, q.sc, bk, kap, x->data[0], RM(xr, 0, 0));
      h = hv_hash(x, h);
    }
    rm_free(b); rm_free(xr); DelMatrix(&eq); DelDVector(&x);
  }
  vx_outcome(h); rm_free(R);
}

/* ---- rectangular full-column-rank inputs ------------------------------------------------------------ */
static const double KAP_LS[4] = {1, 1e1, 1e2, 1e3};   /* beyond 1e3 the kappa^2 allowance of the normal equations is no longer comfortably above a correct
                                                          * Gauss-Jordan inverse of X'X (measured 0.2 of the allowance at 1e4), so the alphabet stops here */
static const double S1S[3] = {1, 1e2, 1e-2};

/* ---- op: OrdinaryLeastSquares ------------------------------------------------------------------------ */
static void op_ols(void) {
  int n = 1 + vx_choose("n-1", 6), m = n + vx_choose("m-n", NMAX - n + 1), ki = vx_choose("kappa", 4), si = vx_choose("s1", 3), fam = vx_choose("fam", vx_thorough() ? 4 : 2), yk = vx_choose("ykind", 2);
  vx_require(n > 1 || ki == 0);
  double kap = KAP_LS[ki], s1 = S1S[si], X[NMAX * NMAX], y[NMAX];
  vg_spectral(fam * 8 + ki + 300, m, n, s1, n > 1 ? pow(kap, -1.0 / (n - 1)) : 1.0, X);
  if (yk == 0) for (int i = 0; i < m; i++) { ld s = 0; for (int j = 0; j < n; j++) s += (ld)X[i * n + j] * (j + 1); y[i] = (double)s; }  /* consistent system */
  else for (int i = 0; i < m; i++) y[i] = vg_val(fam + 400, i, 1) * s1;                                                                  /* general response */
  matrix *x = hm_new(m, n, X); dvector *yv = hv_new(m, y), *b; initDVector(&b);
  char cls[40]; snprintf(cls, sizeof cls, "kappa=%g", kap);
  log_mat("X", x); log_vec("y", yv);
  arm("OrdinaryLeastSquares", cls); OrdinaryLeastSquares(x, yv, b); disarm(); vx_transition(1);
  log_vec("OrdinaryLeastSquares", b);
  char key[160]; snprintf(key, sizeof key, "shape|OrdinaryLeastSquares|%s", cls);
  int shp = (int)b->size == n; vx_check(shp, key, "(%dx%d): %zu coefficients", m, n, b->size);
  if (shp) {
    /* statement: "least-squares solvers return the solution of the stated system" <=> X^T (y - X b) = 0.
     * normal equations through an explicit inverse: |X^T(y-Xb)| <= C eps max(m,n) kappa^2 ||X||_F ||y||   (q = 2) */
    ld fx = 0, fy = 0; for (int i = 0; i < m * n; i++) fx += (ld)X[i] * X[i]; for (int i = 0; i < m; i++) fy += (ld)y[i] * y[i];
    double err = 0;
    for (int j = 0; j < n; j++) { ld g = 0; for (int i = 0; i < m; i++) { ld r = y[i]; for (int k = 0; k < n; k++) r -= (ld)X[i * n + k] * b->data[k]; g += (ld)X[i * n + j] * r; } double e = (double)fabsl(g); if (!(e <= err)) err = e; }
    snprintf(key, sizeof key, "normal-eq|OrdinaryLeastSquares|%s", cls);
    judge(err, CSAFE * DEPS * m * kap * kap * (double)(sqrtl(fx) * sqrtl(fy)), key, "(%dx%d) s1 %g fam %d ykind %d: max|X'(y-Xb)|", m, n, s1, fam, yk);
    vx_outcome(hv_hash(b, 40));
    /* the coefficient vector is (re)sized and assigned by the routine: solving again into the vector that already holds
     * the solution, or into one that holds the solution of another system of the same size, returns the same solution */
    { dvector *b2; initDVector(&b2); DVectorCopy(b, b2); arm("OrdinaryLeastSquares", cls); OrdinaryLeastSquares(x, yv, b); disarm(); vx_transition(1);
      snprintf(key, sizeof key, "reuse|OrdinaryLeastSquares|%s", cls);
      vx_check(b->size == b2->size && hv_maxdiff(b, b2) == 0, key, "(%dx%d): second call into the filled coefficient vector differs by %g", m, n, hv_maxdiff(b, b2));
      DelDVector(&b2); }
  } else vx_outcome(78);
  DelMatrix(&x); DelDVector(&yv); DelDVector(&b);
}

/* ---- op: MatrixMoorePenrosePseudoinverse --------------------------------------------------------------
 * classes: smin^4<1e-6  the smallest singular value s of the input satisfies s^4 < 1e-6 (the routine inverts A'A
 *                       through an eigen-decomposition of (A'A)^2 and flushes eigenvalues below the ABSOLUTE
 *                       threshold 1e-6 to zero before dividing by them)
 *          equal-singular-values  otherwise, kappa = 1 with more than one column: A'A is a multiple of the identity up to
 *                       rounding (the routine takes eigenvectors from the NON-symmetric solver dgeev and uses them as if
 *                       they were orthonormal, which a multiple eigenvalue does not guarantee)
 *          kappa<=10 / kappa>=100   otherwise, by the condition number fixed by construction.  Measured on the pinned tree the
 *                       routine's error grows like eps kappa^4 (eigen-decomposition of (A'A)^2), so it crosses the kappa^2
 *                       allowance between kappa = 1e2 (worst case 0.97 of the allowance) and 1e3 (median 2.4x, worst 60x above);
 *                       the two are one class so that the set of keys does not depend on a borderline case */
static void op_pinv(void) {
  int n = 1 + vx_choose("n-1", NMAX), m = n + vx_choose("m-n", NMAX - n + 1), ki = vx_choose("kappa", 4), si = vx_choose("s1", 3), fam = vx_choose("fam", vx_thorough() ? 3 : 1);
  vx_require(n > 1 || ki == 0);
  double kap = KAP_LS[ki], s1 = S1S[si], A[NMAX * NMAX];
  vg_spectral(fam * 8 + ki + 500, m, n, s1, n > 1 ? pow(kap, -1.0 / (n - 1)) : 1.0, A);
  double smin = s1 / kap; char cls[40];
  if (smin * smin * smin * smin < 2e-6) snprintf(cls, sizeof cls, "smin^4<1e-6"); else if (n > 1 && ki == 0) snprintf(cls, sizeof cls, "equal-singular-values"); else snprintf(cls, sizeof cls, kap <= 10 ? "kappa<=10" : "kappa>=100");
  matrix *a = hm_new(m, n, A), *inv; initMatrix(&inv);
  log_mat("A", a);
  arm("MatrixMoorePenrosePseudoinverse", cls); MatrixMoorePenrosePseudoinverse(a, inv); disarm(); vx_transition(1);
  log_mat("MatrixMoorePenrosePseudoinverse", inv);
  { matrix *keep; initMatrix(&keep); MatrixCopy(inv, &keep); arm("MatrixMoorePenrosePseudoinverse", cls); MatrixMoorePenrosePseudoinverse(a, inv); disarm(); vx_transition(1);
    reuse_same("MatrixMoorePenrosePseudoinverse", cls, keep, inv); DelMatrix(&keep); }
  char key[160]; snprintf(key, sizeof key, "shape|MatrixMoorePenrosePseudoinverse|%s", cls);
  int shp = (int)inv->row == n && (int)inv->col == m; vx_check(shp, key, "(%dx%d): result %zux%zu", m, n, inv->row, inv->col);
  if (shp) {
    rmat *RA = rm_of(A, m, n), *P = rm_from(inv), *AP = rm_mul(RA, P), *PA = rm_mul(P, RA), *APA = rm_mul(AP, RA), *PAP = rm_mul(PA, P), *APt = rm_T(AP), *PAt = rm_T(PA);
    double base = CSAFE * DEPS * m * kap * kap;   /* q = 2: normal equations */
    double e1 = (double)rm_maxabs_diff(APA, RA), e2 = (double)rm_maxabs_diff(PAP, P), e3 = (double)rm_maxabs_diff(AP, APt), e4 = (double)rm_maxabs_diff(PA, PAt);
    /* one key per input class for the four conditions together (they are jointly the definition of A+); the message names
     * the conditions that fail, the margin file keeps them apart */
    double e[4] = {e1, e2, e3, e4}, t[4] = {base * s1, base / smin, base, base}, worst = 0; char which[40] = ""; int wl = 0;
    for (int c = 0; c < 4; c++) { char mk[160]; snprintf(mk, sizeof mk, "penrose%d|MatrixMoorePenrosePseudoinverse|%s", c + 1, cls); double r = t[c] > 0 ? e[c] / t[c] : INFINITY; margin_note(mk, r); if (!(r <= worst)) worst = r; if (!(r <= 1)) wl += snprintf(which + wl, sizeof which - (size_t)wl, " (%d)", c + 1); }
    snprintf(key, sizeof key, "penrose|MatrixMoorePenrosePseudoinverse|%s", cls);
    vx_check(worst <= 1, key, "(%dx%d) s1 %g kappa %g fam %d: conditions%s fail; |A A+ A - A| %.3g (allowed %.3g), |A+ A A+ - A+| %.3g (%.3g), |(A A+)' - A A+| %.3g (%.3g), |(A+ A)' - A+ A| %.3g (%.3g)",
             m, n, s1, kap, fam, which, e1, t[0], e2, t[1], e3, t[2], e4, t[3]);
    vx_outcome(hm_hash(inv, 50));
    rm_free(RA); rm_free(P); rm_free(AP); rm_free(PA); rm_free(APA); rm_free(PAP); rm_free(APt); rm_free(PAt);
  } else vx_outcome(79);
  DelMatrix(&a); DelMatrix(&inv);
}

/* ---- op: EVectEval on symmetric matrices -------------------------------------------------------------
 * classes: repeated  the reference spectrum has two eigenvalues closer than 1e-8 ||A||;  distinct otherwise */
static void sym_from_spectrum(int k, int n, const double *lam, double *a) {
  double Q[NMAX * NMAX]; vg_orth(k, n, Q);
  for (int i = 0; i < n; i++) for (int j = i; j < n; j++) { ld s = 0; for (int t = 0; t < n; t++) s += (ld)Q[i * n + t] * lam[t] * Q[j * n + t]; a[i * n + j] = a[j * n + i] = (double)s; }
}
static void gen_sym(double *a, int *np, char *tag, size_t tl) {
  int src = vx_choose("src", 3), n;
  if (src == 0) { n = 2; int e = vx_choose("cells", 27); double c[3]; for (int i = 0; i < 3; i++) { c[i] = e % 3 - 1; e /= 3; } a[0] = c[0]; a[1] = a[2] = c[1]; a[3] = c[2]; snprintf(tag, tl, "symtern2"); }
  else if (src == 1) { n = 3; int e = vx_choose("upper", 27), f = vx_choose("lower", 27); double c[6]; for (int i = 0; i < 3; i++) { c[i] = e % 3 - 1; e /= 3; c[3 + i] = f % 3 - 1; f /= 3; }
    a[0] = c[0]; a[4] = c[1]; a[8] = c[2]; a[1] = a[3] = c[3]; a[2] = a[6] = c[4]; a[5] = a[7] = c[5]; snprintf(tag, tl, "symtern3"); }
  else {
    const int *ord = vx_thorough() ? ORD_T : ORD_Q; n = ord[vx_choose("order", vx_thorough() ? 12 : 7)];
    int kind = vx_choose("kind", 8), fam = vx_choose("fam", vx_thorough() ? 4 : 2); double lam[NMAX], V[NMAX * NMAX];
    for (int i = 0; i < n; i++) switch (kind) {
      case 0: lam[i] = pow(0.7, i); break;                                 /* distinct positive */
      case 1: lam[i] = (i % 2 ? -1 : 1) * pow(0.8, i); break;              /* mixed signs */
      case 2: lam[i] = pow(0.6, i / 2); break;                             /* pairs of equal eigenvalues */
      case 3: lam[i] = i < (n + 1) / 2 ? 1.0 + i : 0.0; break;             /* singular */
      case 4: lam[i] = 1e-6 * (i + 1); break;                              /* small scale */
      case 5: lam[i] = 1e6 * (i % 2 ? -1.0 : 1.0) * (i + 1); break;        /* large scale */
      default: lam[i] = 0; }
    if (kind <= 5) sym_from_spectrum(fam * 8 + kind + 600, n, lam, a);
    else if (kind == 6) { vg_fill(fam + 620, n, n, V); memset(a, 0, sizeof(double) * (size_t)(n * n)); for (int i = 0; i < n; i++) a[i * n + i] = V[i * n + i]; }                       /* diagonal */
    else { vg_fill(fam + 640, n, n, V); for (int i = 0; i < n; i++) for (int j = i; j < n; j++) a[i * n + j] = a[j * n + i] = V[i * n + j]; }                                      /* general symmetric */
    snprintf(tag, tl, "idx(n=%d,kind=%d,fam=%d)", n, kind, fam);
  }
  *np = n;
}
static void op_eig(void) {
  double a[NMAX * NMAX]; int n; char tag[80]; gen_sym(a, &n, tag, sizeof tag);
  rmat *R = rm_of(a, n, n); ld ref[NMAX]; rm_jacobi_eig(R, ref, NULL); ld fro = rm_fro(R);
  int rep = 0; for (int i = 0; i + 1 < n; i++) if (ref[i] - ref[i + 1] <= 1e-8L * fro) rep = 1;
  const char *cls = rep ? "repeated" : "distinct";
  matrix *m = hm_new(n, n, a), *ev; dvector *el; initDVector(&el); initMatrix(&ev);   /* convention of tests/testmatrix.c Test24 */
  log_mat("A", m);
  arm("EVectEval", cls); EVectEval(m, el, ev); disarm(); vx_transition(1);
  log_vec("eval", el); log_mat("evect", ev); if (vx_replaying()) { vx_log("reference spectrum:"); for (int i = 0; i < n; i++) vx_log(" % .10Lg", ref[i]); vx_log("\n"); }
  char key[160]; snprintf(key, sizeof key, "shape|EVectEval|%s", cls);
  int shp = (int)el->size == n && (int)ev->row == n && (int)ev->col == n; vx_check(shp, key, "%s: %zu values, vectors %zux%zu", tag, el->size, ev->row, ev->col);
  if (shp) {
    double tol = CSAFE * DEPS * n * (double)fro, worst = 0, vmin = INFINITY;
    for (int j = 0; j < n; j++) {   /* column j is the vector paired with eval[j]: A v = lambda v, v != 0 */
      ld vn = 0; for (int i = 0; i < n; i++) vn += (ld)ev->data[i][j] * ev->data[i][j]; vn = sqrtl(vn);
      if (!((double)vn >= vmin)) vmin = (double)vn;
      for (int i = 0; i < n; i++) { ld r = -(ld)el->data[j] * ev->data[i][j]; for (int k = 0; k < n; k++) r += RM(R, i, k) * ev->data[k][j]; double e = (double)(fabsl(r) / (vn > 0 ? vn : 1)); if (!(e <= worst)) worst = e; }
    }
    snprintf(key, sizeof key, "pair|EVectEval|%s", cls); judge(worst, tol, key, "%s: max|A v - lambda v|/|v|", tag);
    snprintf(key, sizeof key, "nonzero-vector|EVectEval|%s", cls); vx_check(vmin > 0 && vmin < INFINITY, key, "%s: smallest eigenvector norm %g: a zero or non-finite vector is not an eigenvector", tag, vmin);
    double s[NMAX]; for (int i = 0; i < n; i++) s[i] = el->data[i];
    for (int i = 0; i < n; i++) for (int j = i + 1; j < n; j++) if (s[j] > s[i]) { double t = s[i]; s[i] = s[j]; s[j] = t; }
    double se = 0; for (int i = 0; i < n; i++) { double e = fabs(s[i] - (double)ref[i]); if (!(e <= se)) se = e; }
    snprintf(key, sizeof key, "spectrum|EVectEval|%s", cls); judge(se, tol, key, "%s: sorted eigenvalues against Jacobi reference", tag);
    vx_outcome(hv_hash(el, 60));
  } else vx_outcome(80);
  rm_free(R); DelMatrix(&m); DelMatrix(&ev); DelDVector(&el);
}

/* ---- op: SVDlapack for every shape -------------------------------------------------------------------- */
static const int RSH[6][2] = {{1, 2}, {2, 1}, {1, 3}, {3, 1}, {2, 3}, {3, 2}};
static void gen_any(double *a, int *mp, int *np, char *tag, size_t tl) {
  int src = vx_choose("src", 4), m, n;
  if (src == 0) { m = n = 2; int e = vx_choose("cells", 81); for (int i = 0; i < 4; i++) { a[i] = e % 3 - 1; e /= 3; } snprintf(tag, tl, "tern2"); }
  else if (src == 1) { m = n = 3; static const char *lab[3] = {"row0", "row1", "row2"}; for (int r = 0; r < 3; r++) { int e = vx_choose(lab[r], 27); for (int c = 0; c < 3; c++) { a[r * 3 + c] = e % 3 - 1; e /= 3; } } snprintf(tag, tl, "tern3"); }
  else if (src == 2) { int sh = vx_choose("shape", vx_thorough() ? 6 : 2); m = RSH[sh][0]; n = RSH[sh][1]; int cells = m * n, tot = 1; for (int i = 0; i < cells; i++) tot *= 3; int e = vx_choose("cells", tot); for (int i = 0; i < cells; i++) { a[i] = e % 3 - 1; e /= 3; } snprintf(tag, tl, "tern%dx%d", m, n); }
  else {
    /* every shape in both tiers; the quick tier gives non-square shapes one spectrum only (each of them currently ends in
     * a sanitizer report, which costs ~0.7 s of symbolisation) */
    m = 1 + vx_choose("m-1", NMAX); n = 1 + vx_choose("n-1", NMAX); int kind = vx_choose("kind", vx_thorough() ? 5 : (m == n ? 3 : 1)), fam = vx_choose("fam", vx_thorough() ? 2 : 1);
    static const double kq[3] = {1e4, 1, 0}, kt[5] = {1, 1e2, 1e4, 1e6, 0}; double kap = vx_thorough() ? kt[kind] : kq[kind]; int r = m < n ? m : n; double s[NMAX];
    for (int i = 0; i < r; i++) s[i] = kap > 0 ? (r > 1 ? pow(kap, -(double)i / (r - 1)) : 1.0) : (i < (r + 1) / 2 ? 1.0 / (i + 1) : 0.0);   /* kap == 0: rank deficient */
    vg_spectral_s(fam * 8 + kind + 700, m, n, s, a); snprintf(tag, tl, "idx(%dx%d,kappa=%g,fam=%d)", m, n, kap, fam);
  }
  *mp = m; *np = n;
}
static void op_svdlapack(void) {
  double a[NMAX * NMAX]; int m, n; char tag[80]; gen_any(a, &m, &n, tag, sizeof tag);
  const char *cls = m < n ? "m<n" : m > n ? "m>n" : "m=n"; int r = m < n ? m : n;
  rmat *R = rm_of(a, m, n); ld sref[NMAX]; rm_singular_values(R, sref); double scale = (double)rm_fro(R);
  matrix *A = hm_new(m, n, a), *u, *s, *vt; initMatrix(&u); initMatrix(&s); initMatrix(&vt);     /* convention of tests/testmatrix.c Test26 */
  log_mat("A", A);
  arm("SVDlapack", cls); SVDlapack(A, u, s, vt); disarm(); vx_transition(1);
  log_mat("u", u); log_mat("s", s); log_mat("vt", vt);
  char key[160]; snprintf(key, sizeof key, "shape|SVDlapack|%s", cls);
  int shp = (int)u->row == m && u->col == s->row && s->col == vt->row && (int)vt->col == n && (int)s->row >= r && (int)s->col >= r;
  vx_check(shp, key, "%s: factors %zux%zu, %zux%zu, %zux%zu do not chain to %dx%d", tag, u->row, u->col, s->row, s->col, vt->row, vt->col, m, n);
  if (shp) {
    double tol = CSAFE * DEPS * (m > n ? m : n) * scale;    /* LAPACK backward stability, independent of kappa */
    rmat *U = rm_from(u), *S = rm_from(s), *V = rm_from(vt), *US = rm_mul(U, S), *P = rm_mul(US, V);
    snprintf(key, sizeof key, "reconstruct|SVDlapack|%s", cls); judge((double)rm_maxabs_diff(P, R), tol, key, "%s: max|U S VT - A|", tag);
    double neg = 0, off = 0, se = 0;
    for (int i = 0; i < (int)s->row; i++) for (int j = 0; j < (int)s->col; j++) { double v = s->data[i][j]; if (i == j) { if (!(v >= 0)) neg = 1; } else if (!(fabs(v) <= off)) off = fabs(v); }
    snprintf(key, sizeof key, "nonnegative|SVDlapack|%s", cls); vx_check(neg == 0 && off == 0, key, "%s: a singular value is negative/NaN or S is not diagonal (largest off-diagonal %g)", tag, off);
    for (int i = 0; i < r; i++) { double e = fabs(s->data[i][i] - (double)sref[i]); if (!(e <= se)) se = e; }
    snprintf(key, sizeof key, "values|SVDlapack|%s", cls); judge(se, tol, key, "%s: singular values against one-sided Jacobi reference", tag);
    vx_outcome(hm_hash(s, hm_hash(u, 70))); rm_free(U); rm_free(S); rm_free(V); rm_free(US); rm_free(P);
  } else vx_outcome(81);
  rm_free(R); DelMatrix(&A); DelMatrix(&u); DelMatrix(&s); DelMatrix(&vt);
}

/* ---- op: SVD (eigen-based "local implementation") and MatrixPseudoinversion built on it ----------------
 * classes (first that applies): 0<smin^2<1e-6 (a non-zero squared singular value lies below the routine's absolute
 * flush threshold), rectangular, sym-psd, sym-indefinite, nonsymmetric */
static void op_svd_eig(void) {
  int src = vx_choose("src", 4), m, n; double a[NMAX * NMAX]; char tag[80];
  if (src == 0) { m = n = 2; int e = vx_choose("cells", 81); for (int i = 0; i < 4; i++) { a[i] = e % 3 - 1; e /= 3; } snprintf(tag, sizeof tag, "tern2"); }
  else if (src == 1) { m = n = 1 + vx_choose("n-1", 8); int fam = vx_choose("fam", vx_thorough() ? 4 : 2), sc = vx_choose("scale", 3); double V[NMAX * NMAX]; vg_fill(fam + 800, n, n, V);
    for (int i = 0; i < n; i++) for (int j = 0; j < n; j++) { ld s = 0; for (int k = 0; k < n; k++) s += (ld)V[k * n + i] * V[k * n + j]; a[i * n + j] = (double)((s + (i == j ? 0.25L : 0)) * (ld)S1S[sc]); }
    for (int i = 0; i < n; i++) for (int j = 0; j < i; j++) a[i * n + j] = a[j * n + i]; snprintf(tag, sizeof tag, "spd(n=%d,fam=%d,scale=%g)", n, fam, S1S[sc]); }
  else if (src == 2) { m = n = 1 + vx_choose("n-1", 8); int ki = vx_choose("kappa", 3), fam = vx_choose("fam", vx_thorough() ? 4 : 2); vg_spectral(fam * 8 + ki + 820, n, n, 1.0, n > 1 ? pow(KAPPAS[ki], -1.0 / (n - 1)) : 1.0, a); snprintf(tag, sizeof tag, "general(n=%d,kappa=%g,fam=%d)", n, KAPPAS[ki], fam); }
  else { int sh = vx_choose("shape", 4); static const int shp[4][2] = {{3, 2}, {2, 3}, {6, 4}, {4, 6}}; m = shp[sh][0]; n = shp[sh][1]; int fam = vx_choose("fam", 2); vg_spectral(fam + 840, m, n, 1.0, 0.7, a); snprintf(tag, sizeof tag, "rect(%dx%d,fam=%d)", m, n, fam); }
  rmat *R = rm_of(a, m, n); int r = m < n ? m : n; ld sref[NMAX]; rm_singular_values(R, sref); double scale = (double)rm_fro(R);
  int sym = m == n; for (int i = 0; i < n && sym; i++) for (int j = 0; j < i; j++) if (a[i * n + j] != a[j * n + i]) sym = 0;
  int flush = 0; for (int i = 0; i < r; i++) if (sref[i] > 1e-9L * scale && sref[i] * sref[i] < 2e-6L) flush = 1;
  const char *cls;
  if (flush) cls = "0<smin^2<1e-6"; else if (m != n) cls = "rectangular"; else if (sym) { ld ev[NMAX]; rm_jacobi_eig(R, ev, NULL); cls = ev[n - 1] >= -1e-12L * scale ? "sym-psd" : "sym-indefinite"; } else cls = "nonsymmetric";
  matrix *A = hm_new(m, n, a), *U, *S, *VT; initMatrix(&U); initMatrix(&S); initMatrix(&VT);   /* convention of MatrixPseudoinversion */
  log_mat("A", A);
  arm("SVD", cls); SVD(A, U, S, VT); disarm(); vx_transition(1);
  log_mat("U", U); log_mat("S", S); log_mat("VT", VT);
  char key[160]; double tol = CSAFE * DEPS * (m > n ? m : n) * scale * 1e2;   /* eigenvalues of A A' : sigma^2 is formed, allow kappa <= 1e2 of this family once more */
  rmat *rU = rm_from(U), *rS = rm_from(S), *rV = rm_from(VT); double best = INFINITY;
  /* the routine's documentation does not say which factor is which; both dimensionally consistent readings are accepted */
  if (rU->r == m && rU->c == rS->r && rS->c == rV->r && rV->c == n) { rmat *t = rm_mul(rU, rS), *p = rm_mul(t, rV); double e = (double)rm_maxabs_diff(p, R); if (e < best) best = e; rm_free(t); rm_free(p); }
  if (rV->c == m && rV->r == rS->r && rS->c == rU->c && rU->r == n) { rmat *vt2 = rm_T(rV), *ut = rm_T(rU), *t = rm_mul(vt2, rS), *p = rm_mul(t, ut); double e = (double)rm_maxabs_diff(p, R); if (e < best) best = e; rm_free(vt2); rm_free(ut); rm_free(t); rm_free(p); }
  snprintf(key, sizeof key, "reconstruct|SVD|%s", cls); judge(best, tol, key, "%s: factors %zux%zu, %zux%zu, %zux%zu; best of U S VT and VT' S U' against A", tag, U->row, U->col, S->row, S->col, VT->row, VT->col);
  int neg = 0; for (int i = 0; i < (int)S->row && i < (int)S->col; i++) if (!(S->data[i][i] >= 0)) neg = 1;
  snprintf(key, sizeof key, "nonnegative|SVD|%s", cls); vx_check(!neg, key, "%s: negative or NaN singular value", tag);
  uint64_t h = hm_hash(S, 90);
  if (m == n && sref[n - 1] > 1e-9L * scale && (double)(sref[0] / sref[n - 1]) <= 1e6) {   /* non-singular square: pseudo-inverse = inverse */
    matrix *pi; initMatrix(&pi);
    arm("MatrixPseudoinversion", cls); MatrixPseudoinversion(A, pi); disarm(); vx_transition(1);
    log_mat("MatrixPseudoinversion", pi);
    { matrix *keep; initMatrix(&keep); MatrixCopy(pi, &keep); arm("MatrixPseudoinversion", cls); MatrixPseudoinversion(A, pi); disarm(); vx_transition(1);
      reuse_same("MatrixPseudoinversion", cls, keep, pi); DelMatrix(&keep); }
    if ((int)pi->row == n && (int)pi->col == n) {
      rmat *I = rm_from(pi), *P = rm_mul(R, I); for (int i = 0; i < n; i++) RM(P, i, i) -= 1;
      ld kap = sref[0] / sref[n - 1];
      snprintf(key, sizeof key, "value|MatrixPseudoinversion|%s", cls); judge((double)rm_maxabs(P), CSAFE * DEPS * n * (double)(kap * kap), key, "%s kappa %.3Lg: max|M*M+ - I|", tag, kap);
      h = hm_hash(pi, h); rm_free(I); rm_free(P);
    } else { snprintf(key, sizeof key, "shape|MatrixPseudoinversion|%s", cls); vx_check(0, key, "%s: result %zux%zu", tag, pi->row, pi->col); }
    DelMatrix(&pi);
  }
  vx_outcome(h);
  rm_free(rU); rm_free(rS); rm_free(rV); rm_free(R); DelMatrix(&A); DelMatrix(&U); DelMatrix(&S); DelMatrix(&VT);
}

static void body(void) {
  int op = vx_choose("op", 9);
  static int only = -2; if (only == -2) only = getenv("C12_ONLY_OP") ? atoi(getenv("C12_ONLY_OP")) : -1;   /* debugging knob: restrict a manual run to one op */
  if (only >= 0) vx_require(op == only);
  switch (op) {
    case 0: op_inv(0); break;
    case 1: op_inv(1); break;
    case 2: op_det(); break;
    case 3: op_lse(); break;
    case 4: op_ols(); break;
    case 5: op_pinv(); break;
    case 6: op_eig(); break;
    case 7: op_svdlapack(); break;
    case 8: op_svd_eig(); break;
  }
}

int main(int argc, char **argv) {
  vg_seed(getenv("VERIF_SEED") ? atol(getenv("VERIF_SEED")) : 0);
  vx_describe("alphabet", "square: EVERY {-1,0,1} matrix of order 2 (81) and 3 (19683) with det != 0, EVERY permutation matrix of order <= 6 (thorough: 7), indexed order 1..12 x {upper/lower triangular, SPD, diagonal, cyclic shift + 1e-9 perturbation, anti-diagonal dominant, U diag(s) V' with kappa 1,1e2,1e4,1e6}, each at scale 1 and 2^-17; "
              "rectangular: all (m,n) in 1..12^2 (m>=n, kappa 1..1e3, s1 in {1,1e2,1e-2} for least squares and pseudo-inverse; every shape, kappa 1..1e6 and rank-deficient for SVD; every {-1,0,1} matrix 2x2, 3x3, 1x2..3x2); symmetric: every {-1,0,1} symmetric matrix of order 2,3 and 8 spectrum kinds of order 1..12");
  vx_describe("oracle", "|Minv - M^-1| <= 1e3 eps n kappa |M^-1| against the reference inverse, and M*Minv=I to what follows from it; det = product of pivots of the reference LU (tol 64 eps (n+1) perm|A|), exact on integer scopes, det(AB)=det(A)det(B) for 8 fixed B; |Mx-b| <= 1e3 eps n (|M||x|+|b|); X'(y-Xb)=0 and the four Penrose conditions (tol ~ kappa^2); A v = lambda v with |v|=1 and the full spectrum (Jacobi); SVDlapack: factors chain, U S VT = A, S diagonal >= 0 equal to the reference singular values");
  vx_set_shard_depth(4);
  vx_expect_outcomes(20000);
  return vx_main(argc, argv, "C12", body);
}
