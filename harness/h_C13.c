/* C13 -- multithreaded kernels equal their sequential definition for ANY thread count.
 *
 * Every kernel that cuts rows (or columns) into per-thread slices is executed, with real pthreads, on
 * ALL (rows, threads) in {0..40} x {1..24}; the thread count reaches the MT_ products through the
 * link-time seam __wrap_GetNProcessor and the other kernels through their nthreads argument.
 * Oracles (the ASan build judges all but `race`; the TSan build judges only `race`, see JUDGE below):
 *   value      result == long-double textbook definition (derived forward error bound)
 *   coverage   no output element is left at its initial value (sentinel where the caller owns the
 *              initial value, the kernel's own zero where the kernel zeroes) -> every row processed
 *   mt-vs-st   equal to the library's own sequential variant / to the 1-thread run (to rounding)
 *   repeat     two runs bit-identical
 *   axiom      symmetry, zero diagonal, >= 0, triangle (Euclidean, Manhattan) on the self-distance matrix
 *   condensed  condensed[idx(i,j)] == square[i][j]; idx is a bijection onto 0..n(n-1)/2-1 (n = 2..60)
 *   order      results do not depend on the order in which the workers run (all permutations, workers
 *              run one at a time; seam: --wrap=pthread_create/join)
 *   race       (ThreadSanitizer build only) no TSan report while the kernel runs: a row handed to two
 *              workers of an ASSIGN-style kernel changes no value but is a write/write race
 * The same file is built twice: gcc ASan+UBSan (all pairs) and clang TSan (free-running subset). */
#include "hcommon.h"
#include "metricspace.h"
#include "clustering.h"
#include <pthread.h>
#include <unistd.h>

#if defined(__SANITIZE_THREAD__)
#define H_TSAN 1
#elif defined(__has_feature)
#if __has_feature(thread_sanitizer)
#define H_TSAN 1
#endif
#endif
#ifndef H_TSAN
#define H_TSAN 0
#endif

/* not in clustering.h, but external linkage: the k-means labelling kernel itself */
void getLabels_(matrix *m, matrix *centroids, uivector *labels, int nthreads);
void getLabels(matrix *m, matrix *centroids, uivector *labels);

/* ------------------------------------------------------------------ seams */
static size_t g_nproc = 1; static long g_nproc_calls = 0;
void __real_GetNProcessor(size_t *online, size_t *max);
static int g_detect = 0;    /* 1: hand out what the library itself detects */
void __wrap_GetNProcessor(size_t *online, size_t *max) {
  g_nproc_calls++;
  if (g_detect) { __real_GetNProcessor(online, max); return; }
  if (online) *online = g_nproc; if (max) *max = g_nproc;
}

int __real_pthread_create(pthread_t *, const pthread_attr_t *, void *(*)(void *), void *);
int __real_pthread_join(pthread_t, void **);
static int g_created = 0;   /* library threads requested since the last reset */
static int g_serial = 0;    /* 1: defer the workers and run them one at a time in an enumerated order */
#define MAXPEND 64
static struct { void *(*fn)(void *); void *arg; } g_pend[MAXPEND];
static int g_npend = 0, g_ran = 0;

int __wrap_pthread_create(pthread_t *t, const pthread_attr_t *a, void *(*fn)(void *), void *arg) {
  g_created++;
  if (!g_serial) return __real_pthread_create(t, a, fn, arg);
  if (g_ran) { g_npend = 0; g_ran = 0; }
  if (g_npend >= MAXPEND) { fprintf(stderr, "h_C13: too many deferred workers\n"); _exit(2); }
  g_pend[g_npend].fn = fn; g_pend[g_npend].arg = arg; *t = (pthread_t)(g_npend + 1); g_npend++;
  return 0;
}
static int g_perm[MAXPEND], g_perm_n = -1;   /* the run order drawn for the first batch of this execution */
int __wrap_pthread_join(pthread_t t, void **ret) {
  if (!g_serial) return __real_pthread_join(t, ret);
  if (!g_ran) {
    if (g_perm_n < 0) {       /* every permutation of the run order is a path of the choice tree */
      int left[MAXPEND], nleft = g_npend; g_perm_n = 0;
      for (int i = 0; i < nleft; i++) left[i] = i;
      while (nleft > 0) {
        int c = vx_choose("next-worker", nleft); g_perm[g_perm_n++] = left[c];
        for (int i = c; i + 1 < nleft; i++) left[i] = left[i + 1];
        nleft--;
      }
    }
    /* later batches of the same execution (repeat run, sentinel run) reuse that order; other sizes run in creation order */
    for (int q = 0; q < g_npend; q++) {
      int w = g_perm_n == g_npend ? g_perm[q] : q;
      pthread_t real; __real_pthread_create(&real, NULL, g_pend[w].fn, g_pend[w].arg); __real_pthread_join(real, NULL);
    }
    g_ran = 1;
  }
  if (ret) *ret = NULL;
  return 0;
}

/* iteration tick: KMeansppCenters repeats its sampling sweep until it has found the requested centres; a sweep
 * whose distance vector was left at zero by a slicing defect never finds one.  Its draws are made by the calling thread. */
static char g_tick[160] = "nonterm|?";
int __real_randInt(int low, int high);
double __real_randDouble(double low, double high);
int __wrap_randInt(int low, int high) { vx_tick(g_tick); return __real_randInt(low, high); }
/* KMeansppCenters hands the cumulative squared distances (B, A] of its internal distance vector to randDouble: the only
 * place where the result of its sliced distance worker can be observed (the stream is observed, never altered) */
static uint64_t g_draw_hash = 0;
double __wrap_randDouble(double low, double high) { vx_tick(g_tick); double a[2] = {low, high}; g_draw_hash = vx_hash_doubles(a, 2, g_draw_hash); return __real_randDouble(low, high); }

/* ------------------------------------------------------------------ ThreadSanitizer report hook */
#define MAXRA 64
static volatile int g_race = 0; static char g_race_desc[48]; static void *g_race_addrs[MAXRA];
#if H_TSAN
int __tsan_get_report_data(void *report, const char **description, int *count, int *stack_count, int *mop_count, int *loc_count,
                           int *mutex_count, int *thread_count, int *unique_tid_count, void **sleep_trace, unsigned long trace_size);
int __tsan_get_report_mop(void *report, unsigned long idx, int *tid, void **addr, int *size, int *write, int *atomic, void **trace, unsigned long trace_size);
/* called by the TSan runtime, in the thread that performed the second access, for every report.  Only data races are
 * handed to the oracle: the other report kinds of this build (heap-use-after-free behind an out-of-range slice, ...) depend
 * on the allocator history of the worker process and do not replay; the ASan build reports those deterministically. */
static volatile int g_other = 0;
__attribute__((no_sanitize("thread"))) void __tsan_on_report(void *rep) {
  const char *d = 0; int c, sc, mc = 0, lc, mu, tc, ut; void *sl[1];
  __tsan_get_report_data(rep, &d, &c, &sc, &mc, &lc, &mu, &tc, &ut, sl, 1);
  if (!d || d[0] != 'd' || d[1] != 'a' || d[2] != 't' || d[3] != 'a' || d[4] != '-' || d[5] != 'r') { g_other++; return; }
  if (!g_race) {
    int i = 0; for (; d[i] && i < (int)sizeof g_race_desc - 1; i++) g_race_desc[i] = d[i] == ' ' ? '-' : d[i];
    g_race_desc[i] = 0;
  }
  if (g_race < MAXRA) { int tid, sz, wr, at; void *ad = 0, *tr[1]; if (mc > 0) __tsan_get_report_mop(rep, 0, &tid, &ad, &sz, &wr, &at, tr, 1); g_race_addrs[g_race] = ad; }
  g_race++;
}
/* The driver exports TSAN_OPTIONS=halt_on_error=1:exitcode=66 (a report kills the worker and the engine files it as
 * crash|tsan:<kind>|<innermost library frame>, without the input class).  This harness wants the class in the key and the
 * other oracles evaluated on the same execution, so the TSan build re-executes itself once with options appended (later
 * values win): keep running after a report (the hook above hands it to the oracle), do not fold the exit status, and do not
 * suppress a race whose stacks/addresses equal an earlier one (that suppression is per PROCESS and would hide the race in
 * every execution of a worker after the first).  If the exec fails the engine's crash attribution still applies. */
static void tsan_reexec(char **argv) {
  if (getenv("H_TSAN_REEXEC")) return;
  const char *o = getenv("TSAN_OPTIONS"); char buf[1200];
  snprintf(buf, sizeof buf, "%s%shalt_on_error=0:exitcode=0:suppress_equal_stacks=0:suppress_equal_addresses=0:report_thread_leaks=0:history_size=4", o ? o : "", o && *o ? ":" : "");
  setenv("TSAN_OPTIONS", buf, 1); setenv("H_TSAN_REEXEC", "1", 1);
  execv("/proc/self/exe", argv);
}
#endif
/* The ThreadSanitizer build judges ONLY the race oracle.  Its inputs are a subset of what the ASan build judges with every
 * other oracle, and behaviour after an out-of-range slice is not reproducible without ASan's redzones (heap reuse differs
 * between a long-lived worker and a fresh replay process), which would turn a genuine finding into a replay divergence. */
static int g_failed; static const char *g_vacuous;   /* per execution: an oracle failed / the vacuity guard wants to fire */
#define JUDGE(ok, ...) do { int ok_ = H_TSAN ? 1 : (ok); if (!ok_) g_failed = 1; vx_check(ok_, __VA_ARGS__); } while (0)
static void race_reset(void) { g_race = 0; g_race_desc[0] = 0; }
/* A race report is handed to the oracle if its address lies in the kernel's OUTPUT object (the thing the slices partition).
 * Reports elsewhere are the by-product of an out-of-range slice or index (a write past the end of the output lands in a
 * neighbouring heap block, e.g. the pthread_t array the caller is filling): those depend on timing and heap layout, do not
 * replay, and are ASan's to report.  For the selection algorithms the sliced buffers are internal, so every report counts. */
static int in_vec(const void *a, const void *base, size_t bytes) { return (const char *)a >= (const char *)base && (const char *)a < (const char *)base + bytes; }
static void race_judge(const char *fn, const char *cl, int inside, int outside, void *first) {
  char key[160]; snprintf(key, sizeof key, "race|tsan:%s|%s|%s", inside ? g_race_desc : "none", fn, cl);
  vx_check(inside == 0, key, "ThreadSanitizer reported %d data race(s) on the output of %s (first at %p; %d more report(s) outside the output); two workers were handed the same element -- stacks: worker stderr / replay", inside, fn, first, outside);
  race_reset();
}
static void race_check_dv(const char *fn, const char *cl, const dvector *a, const dvector *b) {
  if (!H_TSAN) return;
  int in = 0, n = g_race < MAXRA ? g_race : MAXRA; void *first = 0;
  for (int i = 0; i < n; i++) if ((a && in_vec(g_race_addrs[i], a->data, a->size * sizeof(double))) || (b && in_vec(g_race_addrs[i], b->data, b->size * sizeof(double)))) { if (!in++) first = g_race_addrs[i]; }
  race_judge(fn, cl, in, g_race - in, first);
}
static void race_check_uv(const char *fn, const char *cl, const uivector *a, const uivector *b) {
  if (!H_TSAN) return;
  int in = 0, n = g_race < MAXRA ? g_race : MAXRA; void *first = 0;
  for (int i = 0; i < n; i++) if ((a && in_vec(g_race_addrs[i], a->data, a->size * sizeof(size_t))) || (b && in_vec(g_race_addrs[i], b->data, b->size * sizeof(size_t)))) { if (!in++) first = g_race_addrs[i]; }
  race_judge(fn, cl, in, g_race - in, first);
}
static void race_check_mx(const char *fn, const char *cl, const matrix *a, const matrix *b) {
  if (!H_TSAN) return;
  int in = 0, n = g_race < MAXRA ? g_race : MAXRA; void *first = 0;
  for (int i = 0; i < n; i++) {
    int hit = 0;
    for (int w = 0; w < 2 && !hit; w++) { const matrix *m = w ? b : a; if (!m) continue; for (size_t r = 0; r < m->row && !hit; r++) hit = in_vec(g_race_addrs[i], m->data[r], m->col * sizeof(double)); }
    if (hit && !in++) first = g_race_addrs[i];
  }
  race_judge(fn, cl, in, g_race - in, first);
}
static void race_check(const char *fn, const char *cl) {   /* internal buffers: every data race counts */
  if (!H_TSAN) return;
  race_judge(fn, cl, g_race, 0, g_race ? g_race_addrs[0] : 0);
}

/* vacuity guard: a kernel that never starts a second worker makes the thread-count dimension meaningless.  Falling back to the
 * sequential path for small inputs is a legitimate implementation choice, so the guard only fires where the rows are plentiful,
 * and only at the end of an execution in which every oracle passed (a kernel that starts too few workers AND leaves cells
 * uncomputed is a violation to report, not a broken harness). */
#define VACUOUS(th, n) ((th) > 1 && (n) >= 16 && (n) >= 4 * (th) && g_created < 2)
static void harness_error(const char *what) { fprintf(stderr, "VX-HARNESS-ERROR: h_C13: %s\n", what); _exit(2); }

/* ------------------------------------------------------------------ input classes and the (rows, threads) alphabet */
static const char *cls(int rows, int th) {
  if (rows == 0) return "rows=0";
  if (th == 1) return "threads=1";
  if (rows < th) return "rows<threads";
  if (rows % th == 0) return "rows%threads=0";
  int step = (rows + th - 1) / th;
  return step * (th - 1) >= rows ? "rows%threads!=0,empty-tail-slice" : "rows%threads!=0";
}
static const int T_ROWS_Q[] = {0, 1, 2, 3, 5, 8, 13, 24, 40}, T_TH_Q[] = {1, 2, 3, 4, 7, 8, 24};
static void pick(int minrows, int *rows, int *th) {
  if (H_TSAN && !vx_thorough()) {
    int nr = (int)(sizeof T_ROWS_Q / sizeof *T_ROWS_Q), nt = (int)(sizeof T_TH_Q / sizeof *T_TH_Q);
    int skip = 0; while (T_ROWS_Q[skip] < minrows) skip++;
    *rows = T_ROWS_Q[skip + vx_choose("rows", nr - skip)]; *th = T_TH_Q[vx_choose("threads", nt)];
  } else { *rows = minrows + vx_choose("rows", 41 - minrows); *th = 1 + vx_choose("threads-1", 24); }
}
/* columns {1,3}; the quick tier keeps both only for the cheap kernels (products, labelling) and uses 3 for the rest:
 * the slicing never looks at the column count, and thread creation under ASan dominates the cost */
static int pick_cols(int cheap) { return cheap || vx_thorough() ? (vx_choose("cols", 2) ? 3 : 1) : 3; }
static int pick_fam(void) { return vx_choose("fam", vx_thorough() && !H_TSAN ? 3 : 1); }
static matrix *gen(int fam, int r, int c) { double *b = malloc(sizeof(double) * (size_t)(r * c + 1)); vg_fill(fam, r, c, b); matrix *m = hm_new(r, c, b); free(b); return m; }

/* ------------------------------------------------------------------ references */
static const char *MNAME[4] = {"EUCLIDEAN", "SQUARE_EUCLIDEAN", "MANHATTAN", "COSINE"};
static ld ref_dist(int metric, const double *a, const double *b, int c) {
  ld s = 0, da = 0, db = 0;
  if (metric == EUCLIDEAN || metric == SQUARE_EUCLIDEAN) { for (int j = 0; j < c; j++) s += ((ld)a[j] - b[j]) * ((ld)a[j] - b[j]); return metric == EUCLIDEAN ? sqrtl(s) : s; }
  if (metric == MANHATTAN) { for (int j = 0; j < c; j++) s += fabsl((ld)a[j] - b[j]); return s; }
  for (int j = 0; j < c; j++) { s += (ld)a[j] * b[j]; da += (ld)a[j] * a[j]; db += (ld)b[j] * b[j]; }
  return s / (sqrtl(da) * sqrtl(db));
}
/* forward error of the library's double loop: every term is >= 0 (or, cosine: |value| <= 1), so the relative
 * error of the sum is <= (c+3) eps; sqrt halves it.  Safety factor 64 as in C11. */
static double dist_tol(int metric, int c, ld v) { return 64.0 * DEPS * (c + 4) * fmax((double)fabsl(v), metric == COSINE ? 1.0 : 0.0) + 1e-300; }

static int rows_bitequal(const matrix *a, const matrix *b) {
  if (a->row != b->row || a->col != b->col) return 0;
  for (size_t i = 0; i < a->row; i++) if (a->col && memcmp(a->data[i], b->data[i], sizeof(double) * a->col)) return 0;
  return 1;
}
static int vec_bitequal(const dvector *a, const dvector *b) { return a->size == b->size && (a->size == 0 || !memcmp(a->data, b->data, sizeof(double) * a->size)); }
static int uiv_equal(const uivector *a, const uivector *b) { if (a->size != b->size) return 0; for (size_t i = 0; i < a->size; i++) if (a->data[i] != b->data[i]) return 0; return 1; }
static uint64_t uiv_hash(const uivector *a, uint64_t h) { return vx_hash(a->data, sizeof(size_t) * a->size, vx_hash(&a->size, sizeof a->size, h)); }
#define KEY(buf, oracle, fn, cl) snprintf(buf, sizeof buf, "%s|%s|%s", oracle, fn, cl)

/* ------------------------------------------------------------------ MT_ matrix-vector products */
#define SENT 1048576.0 /* 2^20: a finite sentinel; data and products are < 1 in magnitude */
typedef void (*mv_fn)(matrix *, dvector *, dvector *);
/* which = 0: p = M v (rows of M are sliced); which = 1: p = v' M (columns of M are sliced) */
static void run_mtmv(int which, int n, int th, int c, int fam, dvector **out_free) {
  const char *fn = which == 0 ? "MT_MatrixDVectorDotProduct" : "MT_DVectorMatrixDotProduct";
  mv_fn mt = which == 0 ? MT_MatrixDVectorDotProduct : MT_DVectorMatrixDotProduct, st = which == 0 ? MatrixDVectorDotProduct : DVectorMatrixDotProduct;
  const char *cl = cls(n, th); char key[160];
  matrix *m = which == 0 ? gen(fam, n, c) : gen(fam, c, n);
  matrix *vm = gen(fam + 100, c, 1); dvector *v = hv_new(c, NULL); for (int j = 0; j < c; j++) v->data[j] = vm->data[j][0];
  ld *ref = calloc((size_t)n + 1, sizeof(ld)), *bnd = calloc((size_t)n + 1, sizeof(ld));
  for (int i = 0; i < n; i++) for (int j = 0; j < c; j++) { ld t = which == 0 ? (ld)m->data[i][j] * v->data[j] : (ld)v->data[j] * m->data[j][i]; ref[i] += t; bnd[i] += fabsl(t); }
  /* run A: zero-initialised output, as the statement says */
  dvector *p = hv_new(n, NULL), *p2 = hv_new(n, NULL), *ps = hv_new(n, NULL), *pp = hv_new(n, NULL);
  g_nproc = (size_t)th; long calls0 = g_nproc_calls; g_created = 0; race_reset();
  mt(m, v, p); vx_transition(1);
  race_check_dv(fn, cl, p, NULL);
  if (g_nproc_calls == calls0) harness_error("GetNProcessor seam not reached by the MT_ product");
  if (VACUOUS(th, n)) g_vacuous = "the MT_ product ignored the processor count handed out by the GetNProcessor seam";
  int skipped = 0, twice = 0, bad = 0; double worst = 0, wtol = 0;
  for (int i = 0; i < n; i++) {
    double tol = 64.0 * DEPS * (c + 2) * (double)bnd[i] + 1e-300, d = fabs(p->data[i] - (double)ref[i]);
    if (d <= tol) { if (d / tol > worst) { worst = d / tol; wtol = tol; } continue; }
    if (p->data[i] == 0.0) skipped++; else if (fabs(p->data[i] - 2 * (double)ref[i]) <= 2 * tol) twice++; else bad++;
    vx_log("  %s: element %d = %.17g, definition %.17Lg (tol %.3g)\n", fn, i, p->data[i], ref[i], tol);
  }
  KEY(key, "coverage", fn, cl); JUDGE(skipped == 0, key, "%s(%d x %d) with %d threads into a zeroed output: %d element(s) never computed (left 0)", fn, n, c, th, skipped);
  KEY(key, "processed-twice", fn, cl); JUDGE(twice == 0, key, "%s(%d x %d) with %d threads into a zeroed output: %d element(s) hold twice their definition (two workers accumulated the same element)", fn, n, c, th, twice);
  KEY(key, "value", fn, cl); JUDGE(bad == 0, key, "%s(%d x %d) with %d threads: %d element(s) differ from the definition", fn, n, c, th, bad);
  vx_log("%s n=%d c=%d th=%d: worst err/tol %.3g (tol %.3g)\n", fn, n, c, th, worst, wtol);
  /* sequential variant, and a repeat */
  st(m, v, ps); mt(m, v, p2); vx_transition(2); race_check_dv(fn, cl, p2, NULL);
  double dst = 0; for (int i = 0; i < n; i++) dst = fmax(dst, fabs(p->data[i] - ps->data[i]) / (64.0 * DEPS * (c + 2) * (double)bnd[i] + 1e-300));
  KEY(key, "mt-vs-st", fn, cl); JUDGE(dst <= 2.0 && hv_allfinite(p), key, "%s vs sequential (%d x %d, %d threads): %g x tolerance", fn, n, c, th, dst);
  KEY(key, "repeat", fn, cl); JUDGE(vec_bitequal(p, p2), key, "%s (%d x %d, %d threads): two runs are not bit-identical", fn, n, c, th);
  /* run B: sentinel-filled output.  The statement promises the result only for a zeroed output, so an element
   * may come back as definition (assigned) or sentinel+definition (accumulated); an element that still holds
   * exactly the sentinel was visited by no worker, sentinel+2*definition by two. */
  for (int i = 0; i < n; i++) pp->data[i] = SENT;
  mt(m, v, pp); vx_transition(1); race_check_dv(fn, cl, pp, NULL);
  int untouched = 0, odd = 0;
  for (int i = 0; i < n; i++) {
    double tol = 64.0 * DEPS * (c + 2) * (double)bnd[i] + 8 * DEPS * SENT;
    if (pp->data[i] == SENT) untouched++;
    else if (fabs(pp->data[i] - (double)ref[i]) > tol && fabs(pp->data[i] - SENT - (double)ref[i]) > tol) odd++;
  }
  KEY(key, "coverage-sentinel", fn, cl); JUDGE(untouched == 0, key, "%s(%d x %d) with %d threads into a sentinel-filled output: %d element(s) untouched", fn, n, c, th, untouched);
  KEY(key, "value-sentinel", fn, cl); JUDGE(odd == 0, key, "%s(%d x %d) with %d threads into a sentinel-filled output: %d element(s) are neither assigned nor accumulated once", fn, n, c, th, odd);
  /* missing-coded operands: the sequential kernels skip a term whose matrix OR vector factor carries the missing code;
   * the threaded kernel must return the single-threaded result for such operands too */
  if (n > 0 && c > 0) {
    v->data[c / 2] = MISSING; if (which == 0) m->data[n / 2][0] = MISSING; else m->data[0][n / 2] = MISSING;
    dvector *pm = hv_new(n, NULL), *pq = hv_new(n, NULL);
    mt(m, v, pm); st(m, v, pq); vx_transition(2); race_check_dv(fn, cl, pm, NULL);
    double dm = 0; for (int i = 0; i < n; i++) dm = fmax(dm, fabs(pm->data[i] - pq->data[i]) / (64.0 * DEPS * (c + 2) * (double)bnd[i] + 1e-300));
    KEY(key, "mt-vs-st-missing", fn, cl); JUDGE(dm <= 2.0, key, "%s vs sequential with a missing-coded matrix cell and vector element (%d x %d, %d threads): %g x tolerance", fn, n, c, th, dm);
    DelDVector(&pm); DelDVector(&pq);
  }
  free(ref); free(bnd); DelMatrix(&m); DelMatrix(&vm); DelDVector(&v); DelDVector(&p2); DelDVector(&ps); DelDVector(&pp);
  if (out_free) *out_free = p; else { vx_outcome(hv_hash(p, (uint64_t)(100 + which))); DelDVector(&p); }
}

/* ------------------------------------------------------------------ square distance matrices */
typedef void (*st_fn)(matrix *, matrix *, matrix *);
static st_fn ST_OF[4] = {EuclideanDistance_ST, SquaredEuclideanDistance_ST, ManhattanDistance_ST, CosineDistance_ST};
/* m2kind 0: m2 is m1 itself (self distances, axioms); 1: m2 is another 3-row matrix (no structural zeros) */
static int g_units;   /* chosen in body() for the cosine kernel only: 0 as generated, 1 units x 1e-90, 2 units x 1e90 */
static void run_dist(int metric, int n, int th, int c, int fam, int m2kind, matrix **out_free) {
  char fn[64]; snprintf(fn, sizeof fn, "CalculateDistance:%s", MNAME[metric]);
  const char *cl = cls(n, th); char key[160];
  matrix *m1 = gen(fam, n, c), *m2 = m2kind ? gen(fam + 50, 3, c) : m1;
  int r2 = (int)m2->row;
  /* the cosine is a pure direction measure: the same objects in units 1e90 times smaller / larger (squared norms 1e-180 / 1e180,
   * still inside the double range) have the same cosines; small row counts only, the point is the arithmetic, not the slicing */
  if (metric == COSINE && g_units) { int u = g_units; double f = u == 1 ? 1e-90 : u == 2 ? 1e90 : 1.0;
    if (u) { for (size_t i = 0; i < m1->row; i++) for (size_t j = 0; j < m1->col; j++) m1->data[i][j] *= f; if (m2kind) for (size_t i = 0; i < m2->row; i++) for (size_t j = 0; j < m2->col; j++) m2->data[i][j] *= f; } }
  matrix *d, *d2, *ds; initMatrix(&d); initMatrix(&d2); initMatrix(&ds);
  g_created = 0; race_reset();
  CalculateDistance(m1, m2, d, (size_t)th, (enum cmethod)metric); vx_transition(1);
  race_check_mx(fn, cl, d, NULL);
  if (VACUOUS(th, n)) g_vacuous = "kernel ignored its nthreads argument: the thread-count dimension would be vacuous";
  KEY(key, "shape", fn, cl);
  int shape_ok = (int)d->row == r2 && (int)d->col == n;
  JUDGE(shape_ok, key, "%s (%d x %d) vs (%d x %d): result is %zu x %zu, expected %d x %d", fn, n, c, r2, c, d->row, d->col, r2, n);
  if (shape_ok) {
    int skipped = 0, bad = 0; double worst = 0;
    for (int i = 0; i < n; i++) {
      int allzero = 1, refnz = 0, colbad = 0;
      for (int k = 0; k < r2; k++) {
        ld r = ref_dist(metric, m1->data[i], m2->data[k], c); double tol = dist_tol(metric, c, r), e = fabs(d->data[k][i] - (double)r);
        if (d->data[k][i] != 0.0) allzero = 0;
        if (r != 0) refnz = 1;
        if (!(e <= tol)) { colbad++; vx_log("  %s: d[%d][%d] = %.17g, definition %.17Lg\n", fn, k, i, d->data[k][i], r); } else if (e / tol > worst) worst = e / tol;
      }
      if (colbad && allzero && refnz) skipped++; else if (colbad) bad++;
    }
    KEY(key, "coverage", fn, cl); JUDGE(skipped == 0, key, "%s with %d threads on %d rows: the distances of %d row(s) were never computed (column left 0)", fn, th, n, skipped);
    KEY(key, "value", fn, cl); JUDGE(bad == 0, key, "%s with %d threads on %d rows x %d: %d row(s) differ from the definition", fn, th, n, c, bad);
    vx_log("%s n=%d c=%d th=%d: worst err/tol %.3g\n", fn, n, c, th, worst);
    ST_OF[metric](m1, m2, ds); CalculateDistance(m1, m2, d2, (size_t)th, (enum cmethod)metric); vx_transition(2); race_check_mx(fn, cl, d2, NULL);
    double worst_st = 0; int st_shape = ds->row == d->row && ds->col == d->col;
    for (int i = 0; st_shape && i < n; i++) for (int k = 0; k < r2; k++) { double e = fabs(d->data[k][i] - ds->data[k][i]) / dist_tol(metric, c, ds->data[k][i]); if (!(e <= worst_st)) worst_st = e; }
    KEY(key, "mt-vs-st", fn, cl); JUDGE(st_shape && worst_st <= 2.0, key, "%s with %d threads vs the _ST variant (%d rows): %g x tolerance", fn, th, n, worst_st);
    KEY(key, "repeat", fn, cl); JUDGE(rows_bitequal(d, d2), key, "%s with %d threads (%d rows): two runs are not bit-identical", fn, th, n);
    if (!m2kind) {
      double asym = 0, diag = 0, neg = 0, tri = 0;
      for (int i = 0; i < n; i++) for (int k = 0; k < n; k++) { asym = fmax(asym, fabs(d->data[i][k] - d->data[k][i]) / dist_tol(metric, c, d->data[i][k])); if (d->data[i][k] < neg) neg = d->data[i][k]; }
      KEY(key, "axiom-symmetry", fn, cl); JUDGE(asym <= 2.0, key, "%s self-distance matrix (%d rows, %d threads) is not symmetric: %g x tolerance", fn, n, th, asym);
      if (metric != COSINE) {
        for (int i = 0; i < n; i++) diag = fmax(diag, fabs(d->data[i][i]));
        KEY(key, "axiom-zero-diagonal", fn, cl); JUDGE(diag <= 1e-300, key, "%s: d(x,x) = %g", fn, diag);
        KEY(key, "axiom-nonnegative", fn, cl); JUDGE(neg >= 0, key, "%s: negative distance %g", fn, neg);
      }
      if (metric == EUCLIDEAN || metric == MANHATTAN) {
        for (int i = 0; i < n; i++) for (int k = 0; k < n; k++) for (int l = 0; l < n; l++) {
          double ex = d->data[i][k] - d->data[i][l] - d->data[l][k], tol = 3 * dist_tol(metric, c, d->data[i][l] + d->data[l][k]);
          if (ex > tol && ex / tol > tri) tri = ex / tol;
        }
        KEY(key, "axiom-triangle", fn, cl); JUDGE(tri == 0, key, "%s (%d rows): triangle inequality violated by %g x tolerance", fn, n, tri);
      }
    }
  }
  if (m2kind) DelMatrix(&m2);
  DelMatrix(&m1); DelMatrix(&d2); DelMatrix(&ds);
  if (out_free) *out_free = d; else { vx_outcome(hm_hash(d, (uint64_t)(200 + metric))); DelMatrix(&d); }
}

/* ------------------------------------------------------------------ condensed distances */
/* the value oracles of the condensed kernels presuppose that the documented index map is a bijection for this n: if two pairs
 * share a slot, two workers store different values into it and what is read back depends on the schedule (not replayable).
 * The map itself is judged deterministically by run_index(); here a broken map is reported under the same key and the
 * schedule-dependent comparisons are skipped. */
static int index_map_ok(int n) {
  long N = (long)n * (n - 1) / 2; if (n < 2) return 1;
  unsigned char *hit = calloc((size_t)N + 1, 1); int ok = 1;
  for (int i = 0; i < n && ok; i++) for (int j = i + 1; j < n; j++) { size_t a = square_to_condensed_index((size_t)i, (size_t)j, (size_t)n); if (a >= (size_t)N || hit[a]++) { ok = 0; break; } }
  free(hit); return ok;
}
typedef void (*cd_fn)(matrix *, dvector *, size_t);
static cd_fn CD_OF[4] = {EuclideanDistanceCondensed, SquaredEuclideanDistanceCondensed, ManhattanDistanceCondensed, CosineDistanceCondensed};
static const char *CD_NAME[4] = {"EuclideanDistanceCondensed", "SquaredEuclideanDistanceCondensed", "ManhattanDistanceCondensed", "CosineDistanceCondensed"};
static void run_cond(int metric, int n, int th, int c, int fam, dvector **out_free) {
  const char *fn = CD_NAME[metric], *cl = cls(n, th); char key[160];
  matrix *m = gen(fam, n, c), *sq; dvector *cd, *cd2, *cd1; initDVector(&cd); initDVector(&cd2); initDVector(&cd1); initMatrix(&sq);
  long N = (long)n * (n - 1) / 2; if (n == 0) N = 0;
  if (!index_map_ok(n)) {
    JUDGE(0, "index-bijection|square_to_condensed_index", "n=%d: the map is not a bijection onto 0..%ld; %s not judged on it", n, N - 1, fn);
    vx_outcome(300 + (uint64_t)metric); DelMatrix(&m); DelMatrix(&sq); DelDVector(&cd); DelDVector(&cd2); DelDVector(&cd1); if (out_free) *out_free = hv_new(0, NULL); return;
  }
  g_created = 0; race_reset();
  CD_OF[metric](m, cd, (size_t)th); vx_transition(1);
  race_check_dv(fn, cl, cd, NULL);
  if (VACUOUS(th, n)) g_vacuous = "kernel ignored its nthreads argument: the thread-count dimension would be vacuous";
  KEY(key, "shape", fn, cl); int shape_ok = (long)cd->size == N;
  JUDGE(shape_ok, key, "%s on %d rows: %zu entries, expected %ld", fn, n, cd->size, N);
  if (shape_ok) {
    ST_OF[metric](m, m, sq); vx_transition(1);
    int skipped = 0, bad = 0, mism = 0, oob = 0; double worst = 0;
    for (int i = 0; i < n; i++) {
      int rowbad = 0, allzero = 1;
      for (int k = i + 1; k < n; k++) {
        size_t ix = square_to_condensed_index((size_t)i, (size_t)k, (size_t)n);
        if (ix >= cd->size) { oob++; continue; }
        ld r = ref_dist(metric, m->data[i], m->data[k], c); double tol = dist_tol(metric, c, r), e = fabs(cd->data[ix] - (double)r);
        if (cd->data[ix] != 0.0) allzero = 0;
        if (!(e <= tol)) { rowbad++; vx_log("  %s: condensed[%zu] (pair %d,%d) = %.17g, definition %.17Lg\n", fn, ix, i, k, cd->data[ix], r); } else if (e / tol > worst) worst = e / tol;
        if (!(fabs(cd->data[ix] - sq->data[i][k]) <= 2 * tol)) mism++;
      }
      if (rowbad && allzero) skipped++; else if (rowbad) bad++;
    }
    KEY(key, "index-range", fn, cl); JUDGE(oob == 0, key, "square_to_condensed_index leaves 0..%ld for %d pair(s), n=%d", N - 1, oob, n);
    KEY(key, "coverage", fn, cl); JUDGE(skipped == 0, key, "%s with %d threads on %d rows: the pairs of %d row(s) were never computed (left 0)", fn, th, n, skipped);
    KEY(key, "value", fn, cl); JUDGE(bad == 0, key, "%s with %d threads on %d rows x %d: pairs of %d row(s) differ from the definition", fn, th, n, c, bad);
    KEY(key, "condensed-vs-square", fn, cl); JUDGE(mism == 0 || skipped || bad, key, "%s: %d entries differ from the square form at the documented index", fn, mism);
    vx_log("%s n=%d c=%d th=%d: worst err/tol %.3g\n", fn, n, c, th, worst);
    CD_OF[metric](m, cd2, (size_t)th); CD_OF[metric](m, cd1, 1); vx_transition(2); race_check_dv(fn, cl, cd2, cd1);
    KEY(key, "repeat", fn, cl); JUDGE(vec_bitequal(cd, cd2), key, "%s with %d threads (%d rows): two runs are not bit-identical", fn, th, n);
    double w1 = 0; for (size_t q = 0; q < cd->size && cd1->size == cd->size; q++) { double e = fabs(cd->data[q] - cd1->data[q]) / dist_tol(metric, c, cd1->data[q]); if (!(e <= w1)) w1 = e; }
    KEY(key, "mt-vs-st", fn, cl); JUDGE(cd1->size == cd->size && w1 <= 2.0, key, "%s with %d threads vs 1 thread (%d rows): %g x tolerance", fn, th, n, w1);
  }
  DelMatrix(&m); DelMatrix(&sq); DelDVector(&cd2); DelDVector(&cd1);
  if (out_free) *out_free = cd; else { vx_outcome(hv_hash(cd, (uint64_t)(300 + metric))); DelDVector(&cd); }
}

/* ------------------------------------------------------------------ k-means labelling kernel */
static void run_labels(int n, int th, int c, int fam, uivector **out_free) {
  const char *fn = "getLabels_", *cl = cls(n, th); char key[160];
  int k = 3; matrix *m = gen(fam, n, c), *cen = gen(fam + 70, k, c);
  uivector *lab, *lab2, *labst; NewUIVector(&lab, (size_t)n); NewUIVector(&lab2, (size_t)n); NewUIVector(&labst, (size_t)n);
  for (int i = 0; i < n; i++) lab->data[i] = lab2->data[i] = (size_t)-1;   /* sentinel: the kernel assigns */
  g_created = 0; race_reset();
  getLabels_(m, cen, lab, th); vx_transition(1);
  race_check_uv(fn, cl, lab, NULL);
  if (VACUOUS(th, n)) g_vacuous = "kernel ignored its nthreads argument: the thread-count dimension would be vacuous";
  int untouched = 0, notnear = 0;
  for (int i = 0; i < n; i++) {
    if (lab->data[i] == (size_t)-1) { untouched++; continue; }
    if (lab->data[i] >= (size_t)k) { notnear++; continue; }
    ld best = -1, own = 0; for (int q = 0; q < k; q++) { ld dd = ref_dist(EUCLIDEAN, m->data[i], cen->data[q], c); if (best < 0 || dd < best) best = dd; if ((size_t)q == lab->data[i]) own = dd; }
    if (own > best + 1e-9L) notnear++;                      /* ties are not judged */
  }
  KEY(key, "coverage", fn, cl); JUDGE(untouched == 0, key, "%s with %d threads on %d rows: %d row(s) were never labelled (sentinel left)", fn, th, n, untouched);
  KEY(key, "value", fn, cl); JUDGE(notnear == 0, key, "%s with %d threads on %d rows: %d row(s) do not carry the label of a nearest centroid", fn, th, n, notnear);
  getLabels(m, cen, labst); getLabels_(m, cen, lab2, th); vx_transition(2); race_check_uv(fn, cl, lab2, NULL);
  KEY(key, "mt-vs-st", fn, cl); JUDGE(uiv_equal(lab, labst) || untouched, key, "%s with %d threads differs from getLabels (%d rows)", fn, th, n);
  KEY(key, "repeat", fn, cl); JUDGE(uiv_equal(lab, lab2), key, "%s with %d threads (%d rows): two runs differ", fn, th, n);
  /* exact ties: two identical centroid rows are at bit-identical distances from every object whatever the arithmetic, so the
   * tie-breaking rule itself is observable; "the single-threaded result for every requested thread count" includes it */
  { for (int j = 0; j < c; j++) cen->data[2][j] = cen->data[0][j];
    uivector *t1, *tn; NewUIVector(&t1, (size_t)n); NewUIVector(&tn, (size_t)n);
    for (int i = 0; i < n; i++) t1->data[i] = tn->data[i] = labst->data[i] = (size_t)-1;
    getLabels_(m, cen, tn, th); getLabels_(m, cen, t1, 1); getLabels(m, cen, labst); vx_transition(3); race_check_uv(fn, cl, tn, NULL);
    KEY(key, "mt-vs-st-ties", fn, cl); JUDGE(uiv_equal(tn, t1) && uiv_equal(tn, labst), key, "%s on %d rows with two identical centroids (exact distance ties): %d threads, 1 thread and getLabels do not break the ties the same way", fn, n, th);
    DelUIVector(&t1); DelUIVector(&tn); }
  DelMatrix(&m); DelMatrix(&cen); DelUIVector(&lab2); DelUIVector(&labst);
  if (out_free) *out_free = lab; else { vx_outcome(uiv_hash(lab, 400)); DelUIVector(&lab); }
}

/* ------------------------------------------------------------------ algorithms built on the kernels: result independent of nthreads */
static int valid_selection(const uivector *s, int want, int n) {
  if ((int)s->size != want) return 0;
  for (size_t i = 0; i < s->size; i++) { if (s->data[i] >= (size_t)n) return 0; for (size_t j = 0; j < i; j++) if (s->data[j] == s->data[i]) return 0; }
  return 1;
}
static void run_algo(int which, int n, int th, int c, int fam) {
  static const char *NAMES[5] = {"KMeans(MaxDis-init)", "MDC", "KMeansppCenters", "MaxDis", "MaxDis_Fast"};
  const char *fn = NAMES[which], *cl = cls(n, th); char key[160];
  matrix *m = gen(fam, n, c); uint64_t h = 500 + (uint64_t)which;
  if (which == 4 && !index_map_ok(n)) { JUDGE(0, "index-bijection|square_to_condensed_index", "n=%d: the map is not a bijection; MaxDis_Fast not judged on it", n); vx_outcome(h); DelMatrix(&m); return; }
  snprintf(g_tick, sizeof g_tick, "nonterm|%s|%s", fn, cl); vx_tick_reset();   /* legitimate runs draw < 500 numbers here */
  if (which == 0) {
    int k = n < 3 ? n : 3; uivector *l1, *lt; matrix *c1, *ct; initUIVector(&l1); initUIVector(&lt); initMatrix(&c1); initMatrix(&ct);
    srand_(1); KMeans(m, (size_t)k, 3, l1, c1, 1);
    race_reset(); srand_(1); KMeans(m, (size_t)k, 3, lt, ct, (size_t)th); vx_transition(2); race_check(fn, cl);
    int lab_ok = (int)lt->size == n; for (size_t i = 0; lab_ok && i < lt->size; i++) if (lt->data[i] >= (size_t)k) lab_ok = 0;
    KEY(key, "labels-range", fn, cl); JUDGE(lab_ok, key, "%s(%d x %d, k=%d) with %d threads: label out of range or wrong length %zu", fn, n, c, k, th, lt->size);
    KEY(key, "thread-independence", fn, cl); JUDGE(uiv_equal(l1, lt) && hm_maxdiff(c1, ct) <= 64 * DEPS * (n + 2), key, "%s(%d x %d, k=%d): labels/centroids with %d threads differ from 1 thread (centroid diff %g)", fn, n, c, k, th, hm_maxdiff(c1, ct));
    h = hm_hash(ct, uiv_hash(lt, h)); DelUIVector(&l1); DelUIVector(&lt); DelMatrix(&c1); DelMatrix(&ct);
  } else {
    int want = which == 3 || which == 4 ? (n < 5 ? n : 5) : (n < 4 ? n : 4);
    int metric = which == 2 ? 0 : (n + c + fam) % 3;
    uivector *s1, *st; initUIVector(&s1); initUIVector(&st); uint64_t dh[2];
    for (int pass = 0; pass < 2; pass++) {
      uivector *s = pass ? st : s1; size_t t = pass ? (size_t)th : 1;
      if (pass) race_reset();
      srand_(7); vx_tick_reset(); g_draw_hash = 0;
      if (which == 1) MDC(m, (size_t)want, metric, s, t);
      else if (which == 2) KMeansppCenters(m, (size_t)want, s, (int)t);
      else if (which == 3) MaxDis(m, (size_t)want, metric, s, t);
      else MaxDis_Fast(m, (size_t)want, metric, s, t);
      dh[pass] = g_draw_hash;
    }
    if (which == 2) { KEY(key, "thread-independence", "KMeansppCenters:sampling-weights", cl); JUDGE(dh[0] == dh[1], key, "KMeansppCenters(%d x %d, %d centres): the cumulative squared distances handed to randDouble differ between %d threads and 1 thread (the sliced distance worker skipped or repeated rows)", n, c, want, th); }
    vx_transition(2); race_check(fn, cl);
    KEY(key, "selection-valid", fn, cl); JUDGE(valid_selection(st, want, n), key, "%s(%d x %d, select %d, metric %d) with %d threads: %zu indices, not all distinct and < %d", fn, n, c, want, metric, th, st->size, n);
    KEY(key, "thread-independence", fn, cl); JUDGE(uiv_equal(s1, st), key, "%s(%d x %d, select %d, metric %d): selection with %d threads differs from 1 thread", fn, n, c, want, metric, th);
    h = uiv_hash(st, h); DelUIVector(&s1); DelUIVector(&st);
  }
  vx_outcome(h); DelMatrix(&m);
}

/* ------------------------------------------------------------------ documented index map */
static void run_index(void) {
  int n = 2 + vx_choose("n-2", 59); long N = (long)n * (n - 1) / 2;
  unsigned char *hit = calloc((size_t)N + 1, 1); int oob = 0, dup = 0, asym = 0; uint64_t h = 600;
  for (int i = 0; i < n; i++) for (int j = 0; j < n; j++) if (i != j) {
    size_t a = square_to_condensed_index((size_t)i, (size_t)j, (size_t)n), b = square_to_condensed_index((size_t)j, (size_t)i, (size_t)n);
    if (a != b) asym++;
    if (i < j) { if (a >= (size_t)N) oob++; else if (hit[a]++) dup++; h = vx_hash(&a, sizeof a, h); }
  }
  int missing = 0; for (long q = 0; q < N; q++) if (!hit[q]) missing++;
  vx_transition((long)n * (n - 1));
  JUDGE(oob == 0, "index-range|square_to_condensed_index", "n=%d: %d pair(s) map outside 0..%ld", n, oob, N - 1);
  JUDGE(dup == 0 && (missing == 0 || oob), "index-bijection|square_to_condensed_index", "n=%d: %d collision(s), %d index value(s) never produced", n, dup, missing);
  JUDGE(asym == 0, "index-symmetry|square_to_condensed_index", "n=%d: idx(i,j) != idx(j,i) for %d pair(s)", n, asym);
  vx_outcome(h); free(hit);
}

/* ------------------------------------------------------------------ worker run order (all permutations, serialised) */
static void run_order(void) {
  int kern = vx_choose("kernel", 6), shape = vx_choose("shape", 2), n = shape ? 3 : 5, th = shape ? 4 : 2, c = 3, fam = 0;
  const char *cl = cls(n, th); char key[160];
  /* free-running first (may not draw choices), then the same call with deferred workers in an enumerated order */
  dvector *v0 = NULL, *v1 = NULL; matrix *m0 = NULL, *m1 = NULL; uivector *u0 = NULL, *u1 = NULL; const char *fn; int same;
  for (int pass = 0; pass < 2; pass++) {
    g_serial = pass; g_npend = 0; g_ran = 0; g_perm_n = -1;
    switch (kern) {
      case 0: run_mtmv(0, n, th, c, fam, pass ? &v1 : &v0); break;
      case 1: run_mtmv(1, n, th, c, fam, pass ? &v1 : &v0); break;
      case 2: run_dist(EUCLIDEAN, n, th, c, fam, 0, pass ? &m1 : &m0); break;
      case 3: run_cond(MANHATTAN, n, th, c, fam, pass ? &v1 : &v0); break;
      case 4: run_labels(n, th, c, fam, pass ? &u1 : &u0); break;
      default: run_dist(COSINE, n, th, c, fam, 1, pass ? &m1 : &m0); break;
    }
    g_serial = 0;
  }
  static const char *FN[6] = {"MT_MatrixDVectorDotProduct", "MT_DVectorMatrixDotProduct", "CalculateDistance:EUCLIDEAN", "ManhattanDistanceCondensed", "getLabels_", "CalculateDistance:COSINE"};
  fn = FN[kern];
  same = v0 ? vec_bitequal(v0, v1) : m0 ? rows_bitequal(m0, m1) : uiv_equal(u0, u1);
  KEY(key, "order", fn, cl); JUDGE(same, key, "%s (%d rows, %d workers): result depends on the order in which the workers run", fn, n, th);
  vx_outcome(v1 ? hv_hash(v1, 700 + (uint64_t)kern) : m1 ? hm_hash(m1, 700 + (uint64_t)kern) : uiv_hash(u1, 700 + (uint64_t)kern));
}

/* ------------------------------------------------------------------ values on larger shapes (up to 60 x 10) */
static void run_big(void) {
  static const int R[] = {41, 50, 57, 60}, C[] = {2, 6, 10}, T[] = {1, 2, 3, 5, 8, 16, 24};
  int kern = vx_choose("kernel", 11), n = R[vx_choose("rows", 4)], c = C[vx_choose("cols", 3)], th = T[vx_choose("threads", 7)], fam = 3 + vx_choose("fam", vx_thorough() && !H_TSAN ? 3 : 1);
  if (kern < 2) run_mtmv(kern, n, th, c, fam, NULL);
  else if (kern < 6) run_dist(kern - 2, n, th, c, fam, 0, NULL);
  else if (kern < 10) run_cond(kern - 6, n, th, c, fam, NULL);
  else run_labels(n, th, c, fam, NULL);
}

/* the detected processor count (no override): must be a usable thread count */
static void run_detect(void) {
  int which = vx_choose("kernel", 2), n = vx_choose("rows", 41), c = pick_cols(1);
  size_t on = 0, mx = 0; __real_GetNProcessor(&on, &mx); vx_transition(1);
  JUDGE(on >= 1 && on <= 4096 && mx >= 1 && mx <= 4096, "value|GetNProcessor", "detected %zu online / %zu configured processors", on, mx);
  if (on >= 1 && on <= 4096) { g_detect = 1; run_mtmv(which, n, (int)on, c, 0, NULL); g_detect = 0; }
}

enum { OP_MV, OP_VM, OP_DIST0, OP_DIST1, OP_DIST2, OP_DIST3, OP_COND0, OP_COND1, OP_COND2, OP_COND3, OP_LABELS, OP_KMEANS, OP_MDC, OP_KMPP, OP_MAXDIS, OP_MAXDISF, OP_INDEX, OP_ORDER, OP_BIG, OP_DETECT, NOPS };

static void body(void) {
  int op = vx_choose("op", NOPS), n, th;
  g_serial = 0; g_nproc = 1; g_detect = 0; g_units = 0;
  if (op == OP_INDEX) { run_index(); return; }
  if (op == OP_ORDER) { run_order(); return; }
  if (op == OP_BIG) { run_big(); return; }
  if (op == OP_DETECT) { run_detect(); return; }
  pick(op >= OP_KMEANS ? 1 : 0, &n, &th);
  int c = pick_cols(op <= OP_VM || op == OP_LABELS), fam = pick_fam();
  g_failed = 0; g_vacuous = NULL;
  if (op <= OP_VM) run_mtmv(op, n, th, c, fam, NULL);
  else if (op <= OP_DIST3) { int m2k = vx_choose("m2", 2); if (op - OP_DIST0 == COSINE && n >= 1 && n <= 8 && !H_TSAN) g_units = vx_choose("units", 3); run_dist(op - OP_DIST0, n, th, c, fam, m2k, NULL); }
  else if (op <= OP_COND3) run_cond(op - OP_COND0, n, th, c, fam, NULL);
  else if (op == OP_LABELS) run_labels(n, th, c, fam, NULL);
  else run_algo(op - OP_KMEANS, n, th, c, fam);
  if (g_vacuous && !g_failed) harness_error(g_vacuous);
}

int main(int argc, char **argv) {
#if H_TSAN
  tsan_reexec(argv);
#endif
  vg_seed(getenv("VERIF_SEED") ? atol(getenv("VERIF_SEED")) : 0);
  vx_describe("build", H_TSAN ? "clang ThreadSanitizer, real threads free-running; TSan reports reach the oracle through __tsan_on_report" : "gcc ASan+UBSan, real threads free-running");
  vx_describe("alphabet", "kernel in {MT_MatrixDVectorDotProduct, MT_DVectorMatrixDotProduct (threads via --wrap=GetNProcessor), CalculateDistance x 4 metrics x {self, other}, "
              "{Euclidean,SquaredEuclidean,Manhattan,Cosine}DistanceCondensed, getLabels_, KMeans, MDC, KMeansppCenters, MaxDis, MaxDis_Fast} x %s x cols {1,3} (quick tier: cols 3 only for distances and selection algorithms); "
              "square_to_condensed_index: all pairs for n = 2..60; worker run order: all permutations for (rows,workers) in {(5,2),(3,4)} x 6 kernels; values on {41,50,57,60} x {2,6,10} with 7 thread counts; the MT_ products with the processor count the library detects itself (rows 0..40)",
              H_TSAN && !vx_thorough() ? "(rows,threads) in {0,1,2,3,5,8,13,24,40} x {1,2,3,4,7,8,24}" : "ALL (rows,threads) in {0..40} x {1..24} (selection algorithms: rows 1..40)");
  vx_describe("oracle", "long-double definitions with derived forward error bounds (64 eps (c+4) |value|); coverage through sentinel / kernel-zeroed outputs; "
              "MT == sequential variant to rounding; two runs bit-identical; distance axioms; condensed == square at the documented index; index map bijective; "
              "thread-count independence of the selection algorithms and k-means; TSan report => race violation");
  vx_set_shard_depth(3);
  vx_tick_ceiling = 5000;
  vx_expect_outcomes(H_TSAN ? 200 : 800);    /* outcomes do not depend on the thread count: ~ kernels x rows x cols */
  return vx_main(argc, argv, "C13", body);
}
