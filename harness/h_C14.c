/* C14 -- containers stay memory-safe and shape-consistent under ANY operation history.
 *
 * Exploration (real code, ASan+UBSan, shadow model in plain C arrays):
 *   mode 0: every history of depth <= D0 from the empty pool, no state merging;
 *   mode 1: closure of the reachable canonical states (allocated?, shape) under every operation, dimensions
 *           capped at CAP: a history is cut when it reaches a state already expanded at the same or a smaller
 *           depth; depth bound D1 is far above the diameter of the state graph, so the closure is complete
 *           (the harness reports the deepest new state it found).
 * Out-of-range accessors are probed in a forked child: returning, or a clean abort(), is fine;
 * a sanitizer report or SIGSEGV is a violation.
 */
#include "hcommon.h"
#include "list.h"
#include <unistd.h>
#include <sys/wait.h>
#include <fcntl.h>
#include <sys/mman.h>
extern void (*signal(int, void (*)(int)))(int);   /* <signal.h> clashes with the library's ssignal typedef */
static void child_quiet(void) { int dn = open("/dev/null", O_WRONLY); if (dn >= 0) dup2(dn, 2); signal(6, (void (*)(int))0); /* SIGABRT back to default: a clean abort() must look like one */ }

#define CAP 4
#define MAXDIM (CAP + 2)
static double TAG; static int FRACT;
/* distinct cell tags; fractional (spacing 0.25) for the floating-point containers so that an ordering that only looks at the
 * integer part of a difference is visible, whole numbers for the integer containers and the string vector */
static double next_tag(void) { TAG += 1.0; return FRACT ? 0.25 * TAG : TAG; }
static char OPNAME[96];
static char KEY[160];
static const char *key(const char *what) { snprintf(KEY, sizeof KEY, "%s|%s", what, OPNAME); return KEY; }

/* ---- forked probe for out-of-range accessors -------------------------------------------------- */
static void (*probe_fn)(void);
static int PROBED;
static void probe(const char *name) {
  PROBED = 1;
  fflush(NULL);
  pid_t p = fork();
  if (p == 0) { child_quiet(); probe_fn(); _exit(0); }
  int st = 0; waitpid(p, &st, 0);
  int ok = (WIFEXITED(st) && WEXITSTATUS(st) == 0) || (WIFSIGNALED(st) && WTERMSIG(st) == 6);
  char k[128]; snprintf(k, sizeof k, "oor|%s", name);
  vx_check(ok, k, "out-of-range accessor %s touched memory: %s %d", name, WIFSIGNALED(st) ? "signal" : "exit code", WIFSIGNALED(st) ? WTERMSIG(st) : WEXITSTATUS(st));
  vx_transition(1);
}

/* =============================================================== matrices */
typedef struct { int alloc, r, c; double v[MAXDIM][MAXDIM]; } smat;
static matrix *M[2]; static smat SM[2];

static void m_compare(int i) {
  matrix *m = M[i]; smat *s = &SM[i];
  int shape = (int)m->row == s->r && (int)m->col == s->c && ((m->data == NULL) == (s->alloc == 0) || s->r == 0);
  vx_check(shape, key("shape|matrix"), "matrix %d is %zux%zu (data %s), model says %dx%d", i, m->row, m->col, m->data ? "set" : "NULL", s->r, s->c);
  if (!shape) vx_require(0);
  for (int a = 0; a < s->r; a++) for (int b = 0; b < s->c; b++)
    if (!(m->data[a][b] == s->v[a][b])) { vx_check(0, key("cells|matrix"), "matrix %d cell (%d,%d) = %g, model %g (shape %dx%d)", i, a, b, m->data[a][b], s->v[a][b], s->r, s->c); return; }
}
static uint64_t m_state(void) {
  int k[6] = {SM[0].alloc, SM[0].r, SM[0].c, SM[1].alloc, SM[1].r, SM[1].c};
  return vx_hash(k, sizeof k, 0x14);
}
static void m_reset(void) { for (int i = 0; i < 2; i++) { initMatrix(&M[i]); memset(&SM[i], 0, sizeof SM[i]); } }
static void m_free(void) { for (int i = 0; i < 2; i++) { if (M[i]->data == NULL) { free(M[i]); } else DelMatrix(&M[i]); } }
static void sm_zero(smat *s, int r, int c) { s->alloc = 1; s->r = r; s->c = c; memset(s->v, 0, sizeof s->v); }
static dvector *tagvec(int n, double *keep) { dvector *v; NewDVector(&v, (size_t)n); for (int i = 0; i < n; i++) { v->data[i] = next_tag(); if (keep) keep[i] = v->data[i]; } return v; }
static uivector *tagui(int n, double *keep) { uivector *v; NewUIVector(&v, (size_t)n); for (int i = 0; i < n; i++) { v->data[i] = (size_t)next_tag(); if (keep) keep[i] = (double)v->data[i]; } return v; }
static int lenvariant(int dim, int which) { /* 0, dim-1, dim, dim+1 ; -1 = duplicate/invalid */
  int l = which == 0 ? 0 : which == 1 ? dim - 1 : which == 2 ? dim : dim + 1;
  if (l < 0) return -1;
  if (which == 1 && l == 0) return -1;        /* duplicate of variant 0 */
  if (which == 2 && dim == 0) return -1;      /* duplicate of variant 0 */
  return l;
}
static matrix *PM; static size_t PR, PC;
static void probe_mget(void) { volatile double d = getMatrixValue(PM, PR, PC); (void)d; }
static void probe_mset(void) { setMatrixValue(PM, PR, PC, 5.0); }
static void probe_mrow(void) { dvector *v = getMatrixRow(PM, PR); if (v) DelDVector(&v); }
static void probe_mcol(void) { dvector *v = getMatrixColumn(PM, PC); if (v) DelDVector(&v); }

#define M_NOPS 68
static int m_step(int op) {
  int i = op / M_NOPS, o = op % M_NOPS; matrix *m = M[i]; smat *s = &SM[i];
  double keep[MAXDIM + 2];
  if (o < 16) { int r = o / 4, c = o % 4; snprintf(OPNAME, sizeof OPNAME, "NewMatrix");
    if (m->data == NULL) free(m); else DelMatrix(&M[i]);
    NewMatrix(&M[i], (size_t)r, (size_t)c); sm_zero(s, r, c);
  } else if (o == 16) { snprintf(OPNAME, sizeof OPNAME, "initMatrix");
    if (m->data == NULL) free(m); else DelMatrix(&M[i]);
    initMatrix(&M[i]); memset(s, 0, sizeof *s);
  } else if (o < 33) { int r = (o - 17) / 4, c = (o - 17) % 4; snprintf(OPNAME, sizeof OPNAME, "ResizeMatrix|%s", s->alloc ? (s->r == r && s->c == c ? "same" : "differs") : "from-init");
    ResizeMatrix(m, (size_t)r, (size_t)c); sm_zero(s, r, c);
  } else if (o == 33) { int j = 1 - i; snprintf(OPNAME, sizeof OPNAME, "MatrixCopy|dst-%s", !SM[j].alloc ? "init" : (SM[j].r == s->r && SM[j].c == s->c) ? "same-shape" : "different-shape");
    MatrixCopy(m, &M[j]); SM[j] = *s; SM[j].alloc = 1;
    m_compare(j);
    if (s->r > 0 && s->c > 0) { double t = next_tag(); M[j]->data[0][0] = t; SM[j].v[0][0] = t; } /* deep copy: mutate the copy */
    m_compare(j);
  } else if (o < 42) { int ui = o >= 38, w = (o - 34) % 4, len = lenvariant(s->c, w); if (len < 0 || len > CAP || s->r + 1 > CAP) return 0;
    snprintf(OPNAME, sizeof OPNAME, "%s|len%scol%s", ui ? "MatrixAppendUIRow" : "MatrixAppendRow", len < s->c ? "<" : len == s->c ? "=" : ">", s->alloc ? "" : ",init");
    if (ui) { uivector *v = tagui(len, keep); MatrixAppendUIRow(m, v); DelUIVector(&v); } else { dvector *v = tagvec(len, keep); MatrixAppendRow(m, v); DelDVector(&v); }
    int nc = len > s->c ? len : s->c;
    for (int a = 0; a < s->r; a++) for (int b = s->c; b < nc; b++) s->v[a][b] = 0;
    for (int b = 0; b < nc; b++) s->v[s->r][b] = b < len ? keep[b] : 0;
    s->r += 1; s->c = nc; s->alloc = 1;
  } else if (o < 50) { int ui = o >= 46, w = (o - 42) % 4, len = lenvariant(s->r, w); if (len < 0 || len > CAP || s->c + 1 > CAP) return 0;
    snprintf(OPNAME, sizeof OPNAME, "%s|len%srow%s", ui ? "MatrixAppendUICol" : "MatrixAppendCol", len < s->r ? "<" : len == s->r ? "=" : ">", s->alloc ? "" : ",init");
    if (ui) { uivector *v = tagui(len, keep); MatrixAppendUICol(m, v); DelUIVector(&v); } else { dvector *v = tagvec(len, keep); MatrixAppendCol(m, v); DelDVector(&v); }
    int nr = len > s->r ? len : s->r;
    for (int a = s->r; a < nr; a++) for (int b = 0; b < s->c; b++) s->v[a][b] = 0;
    for (int a = 0; a < nr; a++) s->v[a][s->c] = a < len ? keep[a] : 0;
    s->c += 1; s->r = nr; s->alloc = 1;
  } else if (o < 54) { int k = o - 50; if (k >= s->r) return 0; snprintf(OPNAME, sizeof OPNAME, "MatrixDeleteRowAt");
    MatrixDeleteRowAt(m, (size_t)k);
    for (int a = k; a + 1 < s->r; a++) memcpy(s->v[a], s->v[a + 1], sizeof s->v[a]);
    s->r -= 1;
  } else if (o < 58) { int k = o - 54; if (k >= s->c) return 0; snprintf(OPNAME, sizeof OPNAME, "MatrixDeleteColAt");
    MatrixDeleteColAt(m, (size_t)k);
    for (int a = 0; a < s->r; a++) for (int b = k; b + 1 < s->c; b++) s->v[a][b] = s->v[a][b + 1];
    s->c -= 1;
  } else if (o == 58) { if (s->r == 0 || s->c == 0) return 0; snprintf(OPNAME, sizeof OPNAME, "setMatrixValue");
    double t = next_tag(); setMatrixValue(m, (size_t)s->r - 1, (size_t)s->c - 1, t); s->v[s->r - 1][s->c - 1] = t;
    vx_check(getMatrixValue(m, (size_t)s->r - 1, (size_t)s->c - 1) == t, key("value|matrix"), "getMatrixValue after set");
  } else if (o == 59) { if (!s->alloc) return 0; snprintf(OPNAME, sizeof OPNAME, "MatrixSet"); double t = next_tag(); MatrixSet(m, t);
    for (int a = 0; a < s->r; a++) for (int b = 0; b < s->c; b++) s->v[a][b] = t;
  } else if (o == 60) { if (s->r == 0 || s->c == 0) return 0; snprintf(OPNAME, sizeof OPNAME, "getMatrixRow/Column");
    dvector *row = getMatrixRow(m, (size_t)s->r - 1), *col = getMatrixColumn(m, 0);
    int ok = row && col && (int)row->size == s->c && (int)col->size == s->r;
    for (int b = 0; ok && b < s->c; b++) if (row->data[b] != s->v[s->r - 1][b]) ok = 0;
    for (int a = 0; ok && a < s->r; a++) if (col->data[a] != s->v[a][0]) ok = 0;
    vx_check(ok, key("value|matrix"), "row/column extraction of a %dx%d matrix", s->r, s->c);
    if (row) { row->data[0] = -1; DelDVector(&row); } if (col) { col->data[0] = -1; DelDVector(&col); }
  } else { /* 61..67: out-of-range accessors, probed in a child; state unchanged */
    if (!s->alloc) return 0;
    int k = o - 61; PM = m; snprintf(OPNAME, sizeof OPNAME, "oor-accessor");
    static const int dr[7] = {0, 1, 0, 1, 0, 0, 1}, dc[7] = {0, 0, 1, 1, 0, 0, 0};
    PR = (size_t)(s->r + dr[k]); PC = (size_t)(s->c + dc[k]);
    if (k < 2) { if (k == 0) PC = 0; probe_fn = probe_mget; probe(k == 0 ? "getMatrixValue(row=rows)" : "getMatrixValue(row>rows)"); }
    else if (k < 4) { if (k == 2) PR = 0; probe_fn = probe_mset; probe(k == 2 ? "setMatrixValue(col=cols)" : "setMatrixValue(both>)"); }
    else if (k == 4) { probe_fn = probe_mrow; probe("getMatrixRow(row=rows)"); }
    else if (k == 5) { probe_fn = probe_mcol; probe("getMatrixColumn(col=cols)"); }
    else { PR = (size_t)-1; PC = 0; probe_fn = probe_mget; probe("getMatrixValue(row=SIZE_MAX)"); }
  }
  m_compare(0); m_compare(1);
  return 1;
}

/* =============================================================== dvector / uivector / ivector */
typedef struct { int alloc, n; double v[16]; } svec;
static dvector *DV[2]; static uivector *UV[2]; static ivector *IV[2]; static svec SV[2];
static int VK; /* 0 dvector 1 uivector 2 ivector */
static int v_size(int i) { return VK == 0 ? (int)DV[i]->size : VK == 1 ? (int)UV[i]->size : (int)IV[i]->size; }
static double v_at(int i, int k) { return VK == 0 ? DV[i]->data[k] : VK == 1 ? (double)UV[i]->data[k] : (double)IV[i]->data[k]; }
static void v_compare(int i) {
  svec *s = &SV[i];
  int shape = v_size(i) == s->n;
  vx_check(shape, key("shape|vector"), "vector %d has size %d, model %d", i, v_size(i), s->n);
  if (!shape) vx_require(0);
  for (int k = 0; k < s->n; k++) if (v_at(i, k) != s->v[k]) { vx_check(0, key("cells|vector"), "vector %d cell %d = %g, model %g (size %d)", i, k, v_at(i, k), s->v[k], s->n); return; }
}
static uint64_t v_state(void) { int k[4] = {SV[0].alloc, SV[0].n, SV[1].alloc, SV[1].n}; return vx_hash(k, sizeof k, (uint64_t)(0x20 + VK)); }
static void v_reset(void) { for (int i = 0; i < 2; i++) { if (VK == 0) initDVector(&DV[i]); else if (VK == 1) initUIVector(&UV[i]); else initIVector(&IV[i]); memset(&SV[i], 0, sizeof SV[i]); } }
static void v_del(int i) { if (VK == 0) DelDVector(&DV[i]); else if (VK == 1) DelUIVector(&UV[i]); else DelIVector(&IV[i]); }
static void v_free(void) { v_del(0); v_del(1); }
static void *PV; static size_t PI;
static void probe_dget(void) { volatile double d = getDVectorValue(PV, PI); (void)d; }
static void probe_dset(void) { setDVectorValue(PV, PI, 1.0); }
static void probe_uget(void) { volatile size_t d = getUIVectorValue(PV, PI); (void)d; }
static void probe_uset(void) { setUIVectorValue(PV, PI, 1); }
static void probe_iget(void) { volatile int d = getIVectorValue(PV, PI); (void)d; }
static void probe_iset(void) { setIVectorValue(PV, PI, 1); }
static void probe_drem(void) { DVectorRemoveAt(PV, PI); }
static void probe_urem(void) { UIVectorRemoveAt(PV, PI); }
static void probe_irem(void) { IVectorRemoveAt(PV, PI); }

#define V_NOPS 30
static int v_step(int op) {
  int i = op / V_NOPS, o = op % V_NOPS, j = 1 - i; svec *s = &SV[i];
  if (o < 4) { int n = o; snprintf(OPNAME, sizeof OPNAME, "New%sVector", VK == 0 ? "D" : VK == 1 ? "UI" : "I");
    v_del(i); if (VK == 0) NewDVector(&DV[i], (size_t)n); else if (VK == 1) NewUIVector(&UV[i], (size_t)n); else NewIVector(&IV[i], (size_t)n);
    memset(s, 0, sizeof *s); s->alloc = 1; s->n = n;
  } else if (o == 4) { snprintf(OPNAME, sizeof OPNAME, "init%sVector", VK == 0 ? "D" : VK == 1 ? "UI" : "I");
    v_del(i); if (VK == 0) initDVector(&DV[i]); else if (VK == 1) initUIVector(&UV[i]); else initIVector(&IV[i]); memset(s, 0, sizeof *s);
  } else if (o < 9) { int n = o - 5; if (VK == 2) return 0; snprintf(OPNAME, sizeof OPNAME, "%sVectorResize|%s", VK == 0 ? "D" : "UI", s->n == 0 ? "from-empty" : n > s->n ? "grow" : "shrink");
    if (VK == 0) DVectorResize(DV[i], (size_t)n); else UIVectorResize(UV[i], (size_t)n);
    memset(s->v, 0, sizeof s->v); s->n = n; s->alloc = 1;
  } else if (o == 9) { if (s->n + 1 > CAP + 1) return 0; snprintf(OPNAME, sizeof OPNAME, "%sVectorAppend", VK == 0 ? "D" : VK == 1 ? "UI" : "I");
    double t = next_tag(); if (VK == 0) DVectorAppend(DV[i], t); else if (VK == 1) UIVectorAppend(UV[i], (size_t)t); else IVectorAppend(IV[i], (int)t);
    s->v[s->n++] = t; s->alloc = 1;
  } else if (o < 15) { int k = o - 10; if (k >= s->n) return 0; snprintf(OPNAME, sizeof OPNAME, "%sVectorRemoveAt", VK == 0 ? "D" : VK == 1 ? "UI" : "I");
    if (VK == 0) DVectorRemoveAt(DV[i], (size_t)k); else if (VK == 1) UIVectorRemoveAt(UV[i], (size_t)k); else IVectorRemoveAt(IV[i], (size_t)k);
    for (int a = k; a + 1 < s->n; a++) s->v[a] = s->v[a + 1]; s->n--;
  } else if (o == 15) { if (VK != 0) return 0; snprintf(OPNAME, sizeof OPNAME, "DVectorCopy|dst-%s", SV[j].n == 0 ? "empty" : SV[j].n == s->n ? "same-size" : SV[j].n < s->n ? "shorter" : "longer");
    DVectorCopy(DV[i], DV[j]); SV[j] = *s; SV[j].alloc = 1; v_compare(j);
    if (s->n > 0) { double t = next_tag(); DV[j]->data[0] = t; SV[j].v[0] = t; }
  } else if (o == 16) { snprintf(OPNAME, sizeof OPNAME, "%sVectorExtend", VK == 0 ? "D" : VK == 1 ? "UI" : "I");
    int n = s->n + SV[j].n, ok = 1;
    if (VK == 0) { dvector *e = DVectorExtend(DV[i], DV[j]); ok = (int)e->size == n; for (int k = 0; ok && k < n; k++) if (e->data[k] != (k < s->n ? s->v[k] : SV[j].v[k - s->n])) ok = 0; if (n) e->data[0] = -7; DelDVector(&e); }
    else if (VK == 1) { uivector *e = UIVectorExtend(UV[i], UV[j]); ok = (int)e->size == n; for (int k = 0; ok && k < n; k++) if ((double)e->data[k] != (k < s->n ? s->v[k] : SV[j].v[k - s->n])) ok = 0; if (n) e->data[0] = 7777; DelUIVector(&e); }
    else { ivector *e = IVectorExtend(IV[i], IV[j]); ok = (int)e->size == n; for (int k = 0; ok && k < n; k++) if ((double)e->data[k] != (k < s->n ? s->v[k] : SV[j].v[k - s->n])) ok = 0; if (n) e->data[0] = -7; DelIVector(&e); }
    vx_check(ok, key("value|vector"), "extension of sizes %d+%d", s->n, SV[j].n);
  } else if (o == 17) { if (s->n == 0) return 0; snprintf(OPNAME, sizeof OPNAME, "set/get%sVectorValue", VK == 0 ? "D" : VK == 1 ? "UI" : "I");
    double t = next_tag(), g;
    if (VK == 0) { setDVectorValue(DV[i], (size_t)s->n - 1, t); g = getDVectorValue(DV[i], (size_t)s->n - 1); }
    else if (VK == 1) { setUIVectorValue(UV[i], (size_t)s->n - 1, (size_t)t); g = (double)getUIVectorValue(UV[i], (size_t)s->n - 1); }
    else { setIVectorValue(IV[i], (size_t)s->n - 1, (int)t); g = (double)getIVectorValue(IV[i], (size_t)s->n - 1); }
    s->v[s->n - 1] = t; vx_check(g == t, key("value|vector"), "get after set: %g vs %g", g, t);
  } else if (o == 18) { snprintf(OPNAME, sizeof OPNAME, "%sVectorSet", VK == 0 ? "D" : VK == 1 ? "UI" : "I"); double t = next_tag();
    if (VK == 0) DVectorSet(DV[i], t); else if (VK == 1) UIVectorSet(UV[i], (size_t)t); else IVectorSet(IV[i], (int)t);
    for (int k = 0; k < s->n; k++) s->v[k] = t;
  } else if (o == 19) { snprintf(OPNAME, sizeof OPNAME, "%sVectorHasValue/IndexOf", VK == 0 ? "D" : VK == 1 ? "UI" : "I");
    /* 0 = present, 1 = absent (documented) */
    double probe_present = s->n ? s->v[s->n / 2] : -1, absent = 9999.0; int hp, ha, ok = 1;
    if (VK == 0) { hp = s->n ? DVectorHasValue(DV[i], probe_present) : 1; ha = DVectorHasValue(DV[i], absent); }
    else if (VK == 1) { hp = s->n ? UIVectorHasValue(UV[i], (size_t)probe_present) : 1; ha = UIVectorHasValue(UV[i], (size_t)absent);
      int first = -1; for (int k = 0; k < s->n; k++) if (s->v[k] == probe_present) { first = k; break; }
      if (s->n && UIVectorIndexOf(UV[i], (size_t)probe_present) != first) ok = 0; if (UIVectorIndexOf(UV[i], (size_t)absent) != -1) ok = 0; }
    else { hp = s->n ? IVectorHasValue(IV[i], (int)probe_present) : 1; ha = IVectorHasValue(IV[i], (int)absent); }
    vx_check(ok && hp == (s->n ? 0 : 1) && ha == 1, key("value|vector"), "membership on size %d: present->%d absent->%d", s->n, hp, ha);
  } else if (o == 20) { if (VK == 2 || s->n == 0) return 0; snprintf(OPNAME, sizeof OPNAME, "%s", VK == 0 ? "DVectorSort" : "SortUIVector");
    if (VK == 0) DVectorSort(DV[i]); else SortUIVector(UV[i]);
    for (int a = 0; a < s->n; a++) for (int b = a + 1; b < s->n; b++) if (s->v[b] < s->v[a]) { double t = s->v[a]; s->v[a] = s->v[b]; s->v[b] = t; }
  } else if (o == 21) { if (VK != 0 || s->n == 0) return 0; snprintf(OPNAME, sizeof OPNAME, "DVectorMedian");
    double med; DVectorMedian(DV[i], &med);
    for (int a = 0; a < s->n; a++) for (int b = a + 1; b < s->n; b++) if (s->v[b] < s->v[a]) { double t = s->v[a]; s->v[a] = s->v[b]; s->v[b] = t; }
    double ref = s->n % 2 ? s->v[s->n / 2] : (s->v[s->n / 2] + s->v[s->n / 2 - 1]) / 2;
    vx_check(med == ref, key("value|vector"), "median %g vs %g", med, ref);
  } else if (o < 25) { /* DVectNorm into the other vector: output shorter / equal / longer than the input */
    if (VK != 0 || s->n == 0) return 0; { double q = 0; for (int k = 0; k < s->n; k++) q += s->v[k] * s->v[k]; if (q == 0) return 0; } int w = o - 22, on = w == 0 ? s->n - 1 : w == 1 ? s->n : s->n + 1; if (on <= 0 || on > CAP + 1) return 0;
    snprintf(OPNAME, sizeof OPNAME, "DVectNorm|out%sin", w == 0 ? "<" : w == 1 ? "=" : ">");
    /* a too-short output must be refused (clean abort) or handled; probe in a child first */
    DVectorResize(DV[j], (size_t)on); memset(&SV[j], 0, sizeof SV[j]); SV[j].alloc = 1; SV[j].n = on;
    fflush(NULL); pid_t p = fork();
    if (p == 0) { child_quiet(); DVectNorm(DV[i], DV[j]); _exit(0); }
    int st = 0; waitpid(p, &st, 0); vx_transition(1);
    int aborted = WIFSIGNALED(st) && WTERMSIG(st) == 6, returned = WIFEXITED(st) && WEXITSTATUS(st) == 0;
    vx_check(aborted || returned, key("memory|vector"), "DVectNorm of size %d into size %d: %s %d", s->n, on, WIFSIGNALED(st) ? "signal" : "exit code", WIFSIGNALED(st) ? WTERMSIG(st) : WEXITSTATUS(st));
    if (returned) {
      DVectNorm(DV[i], DV[j]);
      long double ss = 0; for (int k = 0; k < s->n; k++) ss += (long double)s->v[k] * s->v[k];
      int ok = (int)DV[j]->size == on; for (int k = 0; ok && k < s->n && k < on; k++) if (fabs(DV[j]->data[k] - (double)(s->v[k] / sqrtl(ss))) > 1e-14) ok = 0;
      vx_check(ok, key("value|vector"), "normalised values");
      for (int k = 0; k < on; k++) SV[j].v[k] = DV[j]->data[k];
    }
  } else { /* 25..29 out-of-range accessors / removal */
    if (!s->alloc && o != 29) return 0;
    int k = o - 25; PV = VK == 0 ? (void *)DV[i] : VK == 1 ? (void *)UV[i] : (void *)IV[i]; snprintf(OPNAME, sizeof OPNAME, "oor-accessor");
    PI = (size_t)(s->n + (k == 1 || k == 3 ? 1 : 0));
    char nm[64];
    if (k < 2) { probe_fn = VK == 0 ? probe_dget : VK == 1 ? probe_uget : probe_iget; snprintf(nm, sizeof nm, "get%sVectorValue(id%ssize)", VK == 0 ? "D" : VK == 1 ? "UI" : "I", k ? ">" : "="); }
    else if (k < 4) { probe_fn = VK == 0 ? probe_dset : VK == 1 ? probe_uset : probe_iset; snprintf(nm, sizeof nm, "set%sVectorValue(id%ssize)", VK == 0 ? "D" : VK == 1 ? "UI" : "I", k == 3 ? ">" : "="); }
    else { probe_fn = VK == 0 ? probe_drem : VK == 1 ? probe_urem : probe_irem; snprintf(nm, sizeof nm, "%sVectorRemoveAt(id=size)", VK == 0 ? "D" : VK == 1 ? "UI" : "I"); }
    probe(nm);
  }
  v_compare(0); v_compare(1);
  return 1;
}

/* =============================================================== strvector */
typedef struct { int n; char v[12][24]; } sstr;
static strvector *ST[2]; static sstr SS[2];
static void s_compare(int i) {
  int shape = (int)ST[i]->size == SS[i].n;
  vx_check(shape, key("shape|strvector"), "strvector %d has size %zu, model %d", i, ST[i]->size, SS[i].n);
  if (!shape) vx_require(0);
  for (int k = 0; k < SS[i].n; k++) { char *g = getStr(ST[i], (size_t)k);
    if (!g || strcmp(g, SS[i].v[k]) != 0) { vx_check(0, key("cells|strvector"), "strvector %d cell %d = '%s', model '%s'", i, k, g ? g : "(null)", SS[i].v[k]); return; } }
}
static uint64_t s_state(void) { int k[2] = {SS[0].n, SS[1].n}; return vx_hash(k, sizeof k, 0x30); }
static void s_reset(void) { for (int i = 0; i < 2; i++) { initStrVector(&ST[i]); memset(&SS[i], 0, sizeof SS[i]); } }
static void s_free(void) { DelStrVector(&ST[0]); DelStrVector(&ST[1]); }
static strvector *PS; static size_t PSI;
static void probe_sget(void) { volatile char *c = getStr(PS, PSI); if (c) { volatile char x = c[0]; (void)x; } }
static void probe_sset(void) { setStr(PS, PSI, "x"); }
#define S_NOPS 14
static int s_step(int op) {
  int i = op / S_NOPS, o = op % S_NOPS, j = 1 - i; sstr *s = &SS[i]; char buf[24];
  if (o < 3) { int n = o; snprintf(OPNAME, sizeof OPNAME, "NewStrVector"); DelStrVector(&ST[i]); NewStrVector(&ST[i], (size_t)n); memset(s, 0, sizeof *s); s->n = n; /* new cells are empty strings */
  } else if (o == 3) { snprintf(OPNAME, sizeof OPNAME, "initStrVector"); DelStrVector(&ST[i]); initStrVector(&ST[i]); memset(s, 0, sizeof *s);
  } else if (o < 7) { int n = o - 4; snprintf(OPNAME, sizeof OPNAME, "StrVectorResize"); StrVectorResize(ST[i], (size_t)n); memset(s, 0, sizeof *s); s->n = n;
  } else if (o == 7) { if (s->n >= CAP + 1) return 0; snprintf(OPNAME, sizeof OPNAME, "StrVectorAppend"); snprintf(buf, sizeof buf, "s%d", (int)next_tag()); StrVectorAppend(ST[i], buf); buf[0] = '!'; snprintf(s->v[s->n++], 24, "s%d", (int)TAG);
  } else if (o == 8) { if (s->n >= CAP + 1) return 0; snprintf(OPNAME, sizeof OPNAME, "StrVectorAppendInt"); int t = (int)next_tag(); StrVectorAppendInt(ST[i], -t); snprintf(s->v[s->n++], 24, "%d", -t);
  } else if (o == 9) { if (s->n >= CAP + 1) return 0; snprintf(OPNAME, sizeof OPNAME, "StrVectorAppendDouble"); double t = next_tag() + 0.5; StrVectorAppendDouble(ST[i], t); snprintf(s->v[s->n++], 24, "%f", t);
  } else if (o == 10) { if (s->n == 0) return 0; snprintf(OPNAME, sizeof OPNAME, "setStr"); snprintf(buf, sizeof buf, "longer-string-%d", (int)next_tag()); setStr(ST[i], (size_t)s->n - 1, buf); snprintf(s->v[s->n - 1], 24, "%s", buf); buf[0] = '!';
  } else if (o == 11) { snprintf(OPNAME, sizeof OPNAME, "StrVectorExtend");
    strvector *e = StrVectorExtend(ST[i], ST[j]); int n = s->n + SS[j].n, ok = (int)e->size == n;
    for (int k = 0; ok && k < n; k++) if (strcmp(getStr(e, (size_t)k), k < s->n ? s->v[k] : SS[j].v[k - s->n]) != 0) ok = 0;
    vx_check(ok, key("value|strvector"), "extension of sizes %d+%d", s->n, SS[j].n);
    if (n) setStr(e, 0, "mutated-copy");       /* deep copy: sources must not change */
    DelStrVector(&e);
  } else { if (o == 12) { PS = ST[i]; PSI = (size_t)s->n; probe_fn = probe_sget; snprintf(OPNAME, sizeof OPNAME, "oor-accessor"); probe("getStr(i=size)"); }
    else { PS = ST[i]; PSI = (size_t)s->n; probe_fn = probe_sset; snprintf(OPNAME, sizeof OPNAME, "oor-accessor"); probe("setStr(i=size)"); } }
  s_compare(0); s_compare(1);
  return 1;
}

/* =============================================================== tensor */
typedef struct { int alloc, order; smat m[MAXDIM]; } sten;
static tensor *T[2]; static sten STN[2];
static void t_compare(int i) {
  tensor *t = T[i]; sten *s = &STN[i];
  int shape = (int)t->order == s->order;
  for (int k = 0; shape && k < s->order; k++) if (!t->m[k] || (int)t->m[k]->row != s->m[k].r || (int)t->m[k]->col != s->m[k].c) shape = 0;
  vx_check(shape, key("shape|tensor"), "tensor %d order %zu, model order %d (or a slice shape differs)", i, t->order, s->order);
  if (!shape) vx_require(0);
  for (int k = 0; k < s->order; k++) for (int a = 0; a < s->m[k].r; a++) for (int b = 0; b < s->m[k].c; b++)
    if (t->m[k]->data[a][b] != s->m[k].v[a][b]) { vx_check(0, key("cells|tensor"), "tensor %d slice %d cell (%d,%d) = %g, model %g", i, k, a, b, t->m[k]->data[a][b], s->m[k].v[a][b]); return; }
}
static uint64_t t_state(void) { uint64_t h = 0x40; for (int i = 0; i < 2; i++) { h = vx_hash(&STN[i].alloc, sizeof(int), h); h = vx_hash(&STN[i].order, sizeof(int), h); for (int k = 0; k < STN[i].order; k++) { h = vx_hash(&STN[i].m[k].r, sizeof(int), h); h = vx_hash(&STN[i].m[k].c, sizeof(int), h); } } return h; }
static void t_reset(void) { for (int i = 0; i < 2; i++) { initTensor(&T[i]); memset(&STN[i], 0, sizeof STN[i]); } }
static void t_free(void) { DelTensor(&T[0]); DelTensor(&T[1]); }
static tensor *PT; static size_t PTO, PTR, PTC;
static void probe_tget(void) { volatile double d = getTensorValue(PT, PTO, PTR, PTC); (void)d; }
static void probe_tset(void) { setTensorValue(PT, PTO, PTR, PTC, 1.0); }
#define TCAP 3
#define T_NOPS 30
static int t_step(int op) {
  int i = op / T_NOPS, o = op % T_NOPS, j = 1 - i; tensor *t = T[i]; sten *s = &STN[i]; double keep[MAXDIM + 2];
  if (o < 6) { /* NewTensor(order) with every slice created: shapes (1,1),(2,1) | (2,2) ... */
    static const int ord[6] = {0, 1, 1, 2, 2, 3}, rr[6] = {0, 1, 2, 2, 1, 2}, cc[6] = {0, 1, 2, 1, 3, 2};
    snprintf(OPNAME, sizeof OPNAME, "NewTensor+NewTensorMatrix"); DelTensor(&T[i]); NewTensor(&T[i], (size_t)ord[o]); memset(s, 0, sizeof *s); s->alloc = 1; s->order = ord[o];
    for (int k = 0; k < ord[o]; k++) { NewTensorMatrix(T[i], (size_t)k, (size_t)rr[o], (size_t)(cc[o] + k)); sm_zero(&s->m[k], rr[o], cc[o] + k); }
  } else if (o == 6) { snprintf(OPNAME, sizeof OPNAME, "initTensor"); DelTensor(&T[i]); initTensor(&T[i]); memset(s, 0, sizeof *s);
  } else if (o < 11) { static const int rr[4] = {0, 1, 2, 2}, cc[4] = {0, 2, 1, 2}; int w = o - 7; if (s->order >= TCAP) return 0;
    snprintf(OPNAME, sizeof OPNAME, "AddTensorMatrix|%s", s->order ? "nonempty" : "empty"); AddTensorMatrix(t, (size_t)rr[w], (size_t)cc[w]); sm_zero(&s->m[s->order], rr[w], cc[w]); s->order++; s->alloc = 1;
  } else if (o < 13) { /* TensorAppendMatrix: row count equal to the last slice (valid) */
    if (s->order >= TCAP) return 0; int r = s->order ? s->m[s->order - 1].r : 2, c = o == 11 ? 1 : 3;
    snprintf(OPNAME, sizeof OPNAME, "TensorAppendMatrix|%s", s->order ? "nonempty" : "empty");
    matrix *m; NewMatrix(&m, (size_t)r, (size_t)c); sm_zero(&s->m[s->order], r, c);
    for (int a = 0; a < r; a++) for (int b = 0; b < c; b++) { m->data[a][b] = next_tag(); s->m[s->order].v[a][b] = m->data[a][b]; }
    TensorAppendMatrix(t, m); s->order++; s->alloc = 1;
    if (r && c) m->data[0][0] = -1; /* deep: the tensor owns a copy */
    DelMatrix(&m);
  } else if (o < 21) { /* TensorAppendColumn on slice k with length variants */
    int k = (o - 13) / 4, w = (o - 13) % 4; if (k >= s->order) return 0; smat *sm = &s->m[k]; int len = lenvariant(sm->r, w); if (len < 0 || len > CAP || sm->c + 1 > CAP + 1) return 0;
    snprintf(OPNAME, sizeof OPNAME, "TensorAppendColumn|len%srow", len < sm->r ? "<" : len == sm->r ? "=" : ">");
    dvector *v = tagvec(len, keep); TensorAppendColumn(t, (size_t)k, v); DelDVector(&v);
    int nr = len > sm->r ? len : sm->r;
    for (int a = sm->r; a < nr; a++) for (int b = 0; b < sm->c; b++) sm->v[a][b] = 0;
    for (int a = 0; a < nr; a++) sm->v[a][sm->c] = a < len ? keep[a] : 0;
    sm->c += 1; sm->r = nr;
  } else if (o == 21) { snprintf(OPNAME, sizeof OPNAME, "TensorSet"); double tg = next_tag(); TensorSet(t, tg); for (int k = 0; k < s->order; k++) for (int a = 0; a < s->m[k].r; a++) for (int b = 0; b < s->m[k].c; b++) s->m[k].v[a][b] = tg;
  } else if (o == 22) { /* TensorCopy into the other tensor: init / same shapes / different */
    int same = STN[j].alloc && STN[j].order == s->order; for (int k = 0; same && k < s->order; k++) if (STN[j].m[k].r != s->m[k].r || STN[j].m[k].c != s->m[k].c) same = 0;
    snprintf(OPNAME, sizeof OPNAME, "TensorCopy|dst-%s", !STN[j].alloc ? "init" : same ? "same-shape" : STN[j].order != s->order ? "different-order" : "different-slice-shape");
    TensorCopy(t, &T[j]); STN[j] = *s; STN[j].alloc = 1; t_compare(j);
    if (s->order && s->m[0].r && s->m[0].c) { double tg = next_tag(); T[j]->m[0]->data[0][0] = tg; STN[j].m[0].v[0][0] = tg; }
  } else if (o == 23) { if (!s->order || !s->m[s->order - 1].r || !s->m[s->order - 1].c) return 0; snprintf(OPNAME, sizeof OPNAME, "set/getTensorValue");
    int k = s->order - 1; double tg = next_tag(); setTensorValue(t, (size_t)k, (size_t)s->m[k].r - 1, (size_t)s->m[k].c - 1, tg); s->m[k].v[s->m[k].r - 1][s->m[k].c - 1] = tg;
    vx_check(getTensorValue(t, (size_t)k, (size_t)s->m[k].r - 1, (size_t)s->m[k].c - 1) == tg, key("value|tensor"), "get after set");
  } else { int k = o - 24; if (!s->alloc) return 0; snprintf(OPNAME, sizeof OPNAME, "oor-accessor"); PT = t;
    PTO = (size_t)(k % 3 == 0 ? s->order : 0); PTR = 0; PTC = 0;
    if (k % 3 != 0 && s->order == 0) return 0;
    if (k % 3 == 1) PTR = (size_t)s->m[0].r; if (k % 3 == 2) PTC = (size_t)s->m[0].c;
    probe_fn = k < 3 ? probe_tget : probe_tset;
    probe(k == 0 ? "getTensorValue(order=orders)" : k == 1 ? "getTensorValue(row=rows)" : k == 2 ? "getTensorValue(col=cols)" : k == 3 ? "setTensorValue(order=orders)" : k == 4 ? "setTensorValue(row=rows)" : "setTensorValue(col=cols)"); }
  t_compare(0); t_compare(1);
  return 1;
}

/* =============================================================== dvectorlist */
typedef struct { int alloc, n; svec v[MAXDIM + 2]; } slist;
static dvectorlist *L[1]; static slist SL;
static void l_compare(void) {
  int shape = (int)L[0]->size == SL.n; for (int k = 0; shape && k < SL.n; k++) if (!L[0]->d[k] || (int)L[0]->d[k]->size != SL.v[k].n) shape = 0;
  vx_check(shape, key("shape|dvectorlist"), "list size %zu, model %d (or an element size differs)", L[0]->size, SL.n);
  if (!shape) vx_require(0);
  for (int k = 0; k < SL.n; k++) for (int a = 0; a < SL.v[k].n; a++) if (L[0]->d[k]->data[a] != SL.v[k].v[a]) { vx_check(0, key("cells|dvectorlist"), "list element %d cell %d", k, a); return; }
}
static uint64_t l_state(void) { uint64_t h = vx_hash(&SL.alloc, sizeof(int), 0x50); h = vx_hash(&SL.n, sizeof(int), h); for (int k = 0; k < SL.n; k++) h = vx_hash(&SL.v[k].n, sizeof(int), h); return h; }
static void l_reset(void) { initDVectorList(&L[0]); memset(&SL, 0, sizeof SL); }
static void l_free(void) { DelDVectorList(&L[0]); }
#define L_NOPS 8
static int l_step(int op) {
  double keep[MAXDIM + 2];
  if (op < 3) { snprintf(OPNAME, sizeof OPNAME, "NewDVectorList|n=%s", op ? ">0" : "0"); DelDVectorList(&L[0]); NewDVectorList(&L[0], (size_t)op); memset(&SL, 0, sizeof SL); SL.alloc = 1; SL.n = op; /* elements are empty vectors */
  } else if (op == 3) { snprintf(OPNAME, sizeof OPNAME, "initDVectorList"); DelDVectorList(&L[0]); initDVectorList(&L[0]); memset(&SL, 0, sizeof SL);
  } else if (op < 7) { int len = op - 4; if (SL.n >= CAP) return 0; snprintf(OPNAME, sizeof OPNAME, "DVectorListAppend");
    dvector *v = tagvec(len, keep); DVectorListAppend(L[0], v); if (len) v->data[0] = -1; DelDVector(&v);
    SL.v[SL.n].n = len; for (int a = 0; a < len; a++) SL.v[SL.n].v[a] = keep[a]; SL.n++; SL.alloc = 1;
  } else { if (!SL.n || !SL.v[SL.n - 1].n) return 0; snprintf(OPNAME, sizeof OPNAME, "element-write"); double t = next_tag(); L[0]->d[SL.n - 1]->data[0] = t; SL.v[SL.n - 1].v[0] = t; }
  l_compare();
  return 1;
}

/* =============================================================== driver */
#define SEEN_CAP (1u << 18)
/* closure bookkeeping, SHARED by all worker processes (anonymous shared mapping created before the workers are forked):
 * a canonical state is OWNED by the history that reached it at the smallest depth seen so far; the owner's continuations are
 * all explored by the odometer (every later execution that replays the same prefix is the owner again), any other history
 * reaching the state at the same or a larger depth is cut there.  Ownership only ever moves to a strictly smaller depth, and
 * the new owner expands the state completely, so every state reachable within the depth bound has every operation applied. */
struct seen_slot { uint64_t h, owner; int depth; };
static struct seen_slot *SEEN;
static int seen_visit(uint64_t h, int depth, uint64_t path) { /* returns 1 if another history owns the state at <= depth */
  if (!SEEN) return 0;
  if (!h) h = 1; unsigned i = (unsigned)(h & (SEEN_CAP - 1));
  for (unsigned p = 0; p < SEEN_CAP; p++, i = (i + 1) & (SEEN_CAP - 1)) {
    uint64_t cur = __atomic_load_n(&SEEN[i].h, __ATOMIC_ACQUIRE);
    if (cur == 0) {
      uint64_t exp = 0;
      if (__atomic_compare_exchange_n(&SEEN[i].h, &exp, h, 0, __ATOMIC_ACQ_REL, __ATOMIC_ACQUIRE)) {
        __atomic_store_n(&SEEN[i].depth, depth, __ATOMIC_RELEASE); __atomic_store_n(&SEEN[i].owner, path, __ATOMIC_RELEASE); return 0; }
      cur = exp;
    }
    if (cur == h) {
      uint64_t ow = __atomic_load_n(&SEEN[i].owner, __ATOMIC_ACQUIRE); int dd = __atomic_load_n(&SEEN[i].depth, __ATOMIC_ACQUIRE);
      if (ow == path) return 0;
      if (ow != 0 && dd <= depth) return 1;
      if (ow == 0) return 1;                                  /* another worker is just taking it */
      __atomic_store_n(&SEEN[i].depth, depth, __ATOMIC_RELEASE); __atomic_store_n(&SEEN[i].owner, path, __ATOMIC_RELEASE); return 0;
    }
  }
  return 0;
}
static int deepest_new = 0;

static void body(void) {
  int kind = vx_choose("kind", 7), mode = vx_choose("mode", 2);
  int D = mode == 0 ? (vx_thorough() ? 4 : 3) : (vx_thorough() ? 6 : 5);
  if (mode == 0 && (kind == 2 || kind == 3) && vx_thorough()) D = 3;      /* uivector, ivector: depth 4 only for dvector (same skeleton) */
  if (mode == 0 && kind == 0) D = vx_thorough() ? 3 : 2;                   /* matrix: 136 operations per step */
  if (mode == 0 && kind == 5) D = 3;                                        /* tensor: 60 operations per step */
  if (mode == 1 && kind == 5) vx_require(0);   /* two tensors of up to 3 slices have ~1e8 joint shapes: no closure, depth-bounded histories only */
  TAG = 0; OPNAME[0] = 0; FRACT = (kind == 0 || kind == 1 || kind == 5 || kind == 6);
  int nops; int (*step)(int); uint64_t (*state)(void); void (*fin)(void);
  switch (kind) {
    case 0: m_reset(); nops = 2 * M_NOPS; step = m_step; state = m_state; fin = m_free; break;
    case 1: case 2: case 3: VK = kind - 1; v_reset(); nops = 2 * V_NOPS; step = v_step; state = v_state; fin = v_free; break;
    case 4: s_reset(); nops = 2 * S_NOPS; step = s_step; state = s_state; fin = s_free; break;
    case 5: t_reset(); nops = 2 * T_NOPS; step = t_step; state = t_state; fin = t_free; break;
    default: l_reset(); nops = L_NOPS; step = l_step; state = l_state; fin = l_free; break;
  }
  uint64_t h = 0, path = 0x9e3779b97f4a7c15ULL;
  for (int d = 0; d < D; d++) {
    int op = vx_choose("op", nops + (d > 0 ? 1 : 0));
    if (d > 0 && op == nops) break;                       /* stop here: shorter histories are histories too */
    PROBED = 0;
    path = vx_hash(&op, sizeof op, path);
    if (!step(op)) vx_require(0);
    vx_transition(1);
    if (PROBED) break;                                   /* an out-of-range probe ends the history (state unchanged) */
    h = state();
    if (mode == 1) {
      uint64_t hk = vx_hash(&kind, sizeof kind, h);
      if (seen_visit(hk, d, path)) break;
      vx_state(hk);
      if (d > deepest_new) deepest_new = d;
    }
  }
  vx_outcome(vx_hash(&h, sizeof h, (uint64_t)(kind * 2 + mode) + (uint64_t)(TAG * 1024)));
  fin();                                                   /* deleting every live container must be clean */
}

int main(int argc, char **argv) {
  vx_describe("alphabet", "7 container kinds (matrix, dvector, uivector, ivector, strvector, tensor, dvectorlist), 2 live containers per kind; operations: New/init/Resize/Copy(into init,same,different)/Append* with operand length 0,dim-1,dim,dim+1/Delete*/RemoveAt/set/get/Set/Extend/Sort/Median/HasValue/IndexOf/DVectNorm(out shorter,equal,longer)/TensorAppend*/TensorCopy/AddTensorMatrix/DVectorListAppend/out-of-range accessors (forked probe)/Del of everything at the end");
  vx_describe("modes", "mode 0: all histories to depth 3 (matrix: 2) / thorough 4 (matrix, tensor, uivector, ivector: 3) without merging; mode 1 (all kinds but tensor): closure of reachable canonical states (allocated?, shapes; dimensions capped at 4) under every operation: a state is expanded by the history that reached it at the smallest depth (ownership table shared by all workers), other arrivals are cut; depth bound 5/6");
  vx_describe("oracle", "shadow model in plain C arrays compared cell by cell after every operation (old cells preserved, new cells zero, copies deep), ASan+UBSan, out-of-range accessors may return or abort() but not touch memory");
  SEEN = mmap(NULL, sizeof(struct seen_slot) * SEEN_CAP, PROT_READ | PROT_WRITE, MAP_SHARED | MAP_ANONYMOUS, -1, 0);
  if (SEEN == MAP_FAILED) SEEN = NULL;
  vx_set_shard_depth(3);
  vx_expect_outcomes(200);
  return vx_main(argc, argv, "C14", body);
}
