/* C15 -- figures of merit equal their definitions.
 *   part 0  ROC / PrecisionRecall on ALL truth vectors in {0,1}^n (both classes present) x ALL n! score
 *           rankings, n = 2..6 [7, and 8 without the map pass, in thorough]: curve = definition, monotone,
 *           (0,0)->(1,1), AUC = exact integer Mann-Whitney count / (n+ n-), unchanged by 4 strictly
 *           increasing maps, 1-AUC under negation; PR: recall non-decreasing ending at 1, AP in [0,1]
 *   part 1  ALL object permutations of ALL (truth, ranking) pairs, n <= 5 [thorough: n = 6 on every 15th ranking]: AUC unchanged
 *   part 2  indexed n in {20, 200}: 8 truth patterns x 3 score distributions x 8 permutations
 *   part 3  R2/MSE/RMSE/MAE/BIAS against long-double formulas, lengths {2..6,10,200}, 3 scales, 2 offsets,
 *           5 prediction kinds, ALL subsets of missing-coded truths for n <= 6, patterns above
 *   part 4  PLSRegressionStatistics / MLRRegressionStatistics / PLSDiscriminantAnalysisStatistics tables
 *           = the scalar definitions per (latent variable, response)
 * No fitting routine is called, so no iteration tick is needed. */
#include "hcommon.h"
#include "statistic.h"
#include "pls.h"
#include "mlr.h"

#define MISS 99999999.0
#define NMAXV 200

/* ------------------------------------------------------------------ margins (notes only) */
static void margin(const char *oracle, double err, double tol) {
  static const char *fn; static int init = 0; static struct { char n[40]; double r; } T[32]; static int nT = 0;
  if (!init) { fn = getenv("C15_MARGINS"); init = 1; }
  if (!fn || !(tol > 0)) return;
  double r = err / tol; int k;
  for (k = 0; k < nT; k++) if (!strcmp(T[k].n, oracle)) break;
  if (k == nT) { if (nT >= 32) return; snprintf(T[nT].n, sizeof T[0].n, "%s", oracle); T[nT].r = -1; nT++; }
  if (r > T[k].r * 1.2 + 1e-300) { T[k].r = r; FILE *f = fopen(fn, "a"); if (f) { fprintf(f, "%s %.3e %.3e %.3e\n", oracle, r, err, tol); fclose(f); } }
}

/* ------------------------------------------------------------------ classification references */
/* exact Mann-Whitney count: pairs (positive, negative) with score_pos > score_neg; missing-coded truths skipped */
static long mw_count(const double *t, const double *s, int n, int *npos, int *nneg) {
  long c = 0; int p = 0, q = 0;
  for (int i = 0; i < n; i++) { if (t[i] == MISS) continue; if (t[i] == 1.0) p++; else q++; }
  for (int i = 0; i < n; i++) if (t[i] == 1.0) for (int j = 0; j < n; j++) if (t[j] != MISS && t[j] != 1.0 && s[i] > s[j]) c++;
  *npos = p; *nneg = q; return c;
}
/* indices of the judged objects by descending score */
static int order_desc(const double *t, const double *s, int n, int *idx) {
  int m = 0; for (int i = 0; i < n; i++) if (t[i] != MISS) idx[m++] = i;
  for (int a = 1; a < m; a++) { int v = idx[a], b = a - 1; while (b >= 0 && s[idx[b]] < s[v]) { idx[b + 1] = idx[b]; b--; } idx[b + 1] = v; }
  return m;
}
static int distinct(const double *s, int n) { for (int i = 0; i < n; i++) for (int j = i + 1; j < n; j++) if (s[i] == s[j]) return 0; return 1; }

static double call_roc(const double *t, const double *s, int n, matrix **curve) {
  dvector *yt = hv_new(n, t), *ys = hv_new(n, s); matrix *roc; initMatrix(&roc); double auc = NAN;
  ROC(yt, ys, roc, &auc); vx_transition(1);
  DelDVector(&yt); DelDVector(&ys);
  if (curve) *curve = roc; else DelMatrix(&roc);
  return auc;
}
static double call_pr(const double *t, const double *s, int n, matrix **curve) {
  dvector *yt = hv_new(n, t), *ys = hv_new(n, s); matrix *pr; initMatrix(&pr); double ap = NAN;
  PrecisionRecall(yt, ys, pr, &ap); vx_transition(1);
  DelDVector(&yt); DelDVector(&ys);
  if (curve) *curve = pr; else DelMatrix(&pr);
  return ap;
}
static double auc_tol(int n) { return 16 * DEPS * (n + 2); }

/* reference average precision: trapezoid under (recall, precision) starting at (0,1) */
static ld ref_ap(const double *t, const double *s, int n) {
  static int idx[NMAXV]; int m = order_desc(t, s, n, idx), np = 0; for (int i = 0; i < m; i++) np += t[idx[i]] == 1.0;
  ld area = 0, pr = 0, pp = 1; int tp = 0, fp = 0;
  for (int k = 0; k < m; k++) { if (t[idx[k]] == 1.0) tp++; else fp++; ld r = (ld)tp / np, p = (ld)tp / (tp + fp); area += (r - pr) * (p + pp) / 2; pr = r; pp = p; }
  return area;
}

/* every statement about one (truth, score) pair; cls is appended to the keys ("" for the exhaustive part) */
static uint64_t judge_roc_pr(const double *t, const double *s, int n, const char *tag, int with_maps) {
  static int idx[NMAXV]; int np, nn; long cnt = mw_count(t, s, n, &np, &nn);
  double aref = (double)((ld)cnt / ((ld)np * nn)), tol = auc_tol(n);
  int m = order_desc(t, s, n, idx);
  matrix *roc; double auc = call_roc(t, s, n, &roc);
  int shp = (int)roc->row == m + 1 && roc->col == 2;
  vx_check(shp, "shape|ROC", "%s n=%d: curve is (%zu,%zu), expected (%d,2)", tag, n, roc->row, roc->col, m + 1);
  if (shp) {
    vx_check(roc->data[0][0] == 0 && roc->data[0][1] == 0 && roc->data[m][0] == 1 && roc->data[m][1] == 1, "curve-ends|ROC",
             "%s n=%d: curve runs from (%g,%g) to (%g,%g)", tag, n, roc->data[0][0], roc->data[0][1], roc->data[m][0], roc->data[m][1]);
    int mono = 1, def = 1, tp = 0, fp = 0;
    for (int k = 1; k <= m; k++) {
      if (roc->data[k][0] < roc->data[k - 1][0] || roc->data[k][1] < roc->data[k - 1][1]) mono = 0;
      if (t[idx[k - 1]] == 1.0) tp++; else fp++;
      if (fabs(roc->data[k][0] - (double)fp / nn) > 4 * DEPS || fabs(roc->data[k][1] - (double)tp / np) > 4 * DEPS) def = 0;
    }
    vx_check(mono, "monotone|ROC", "%s n=%d: the curve is not monotone", tag, n);
    vx_check(def, "curve|ROC", "%s n=%d: a curve point is not (false positives/negatives, true positives/positives) of the objects ranked above it", tag, n);
  }
  vx_check(fabs(auc - aref) <= tol, "auc|ROC", "%s n=%d (%d+,%d-): AUC %.17g, Mann-Whitney %ld/%d = %.17g", tag, n, np, nn, auc, cnt, np * nn, aref);
  margin("auc", fabs(auc - aref), tol);
  uint64_t h = vx_hash_doubles(&auc, 1, 3); if (shp) h = hm_hash(roc, h);
  if (with_maps) {
    static double u[NMAXV]; static const char *MN[4] = {"x^3", "exp(x)", "2x+5", "atan(x)"};
    for (int mp = 0; mp < 4; mp++) {
      for (int i = 0; i < n; i++) u[i] = mp == 0 ? s[i] * s[i] * s[i] : mp == 1 ? exp(s[i]) : mp == 2 ? 2 * s[i] + 5 : atan(s[i]);
      if (!distinct(u, n)) continue;                     /* the map collapsed two scores in double precision: a tie, not judged */
      int okord = 1; for (int i = 0; i < n && okord; i++) for (int j = 0; j < n; j++) if ((s[i] < s[j]) != (u[i] < u[j])) { okord = 0; break; }
      if (!okord) continue;
      double a2 = call_roc(t, u, n, NULL); char kb[64]; snprintf(kb, sizeof kb, "auc-monotone-map|ROC|%s", MN[mp]);
      vx_check(fabs(a2 - auc) <= tol, kb, "%s n=%d: AUC %.17g becomes %.17g after the strictly increasing map %s", tag, n, auc, a2, MN[mp]);
    }
    for (int i = 0; i < n; i++) u[i] = -s[i];
    double a3 = call_roc(t, u, n, NULL);
    vx_check(fabs(a3 - (1 - auc)) <= 2 * tol, "auc-negation|ROC", "%s n=%d: AUC %.17g, with negated scores %.17g (sum %.17g)", tag, n, auc, a3, auc + a3);
  }
  /* precision-recall */
  matrix *pr; double ap = call_pr(t, s, n, &pr);
  int shp2 = (int)pr->row == m + 1 && pr->col == 2;
  vx_check(shp2, "shape|PrecisionRecall", "%s n=%d: curve is (%zu,%zu), expected (%d,2)", tag, n, pr->row, pr->col, m + 1);
  if (shp2) {
    int mono = 1, def = 1, tp = 0, fp = 0; ld area = 0;
    for (int k = 1; k <= m; k++) {
      if (pr->data[k][0] < pr->data[k - 1][0]) mono = 0;
      if (t[idx[k - 1]] == 1.0) tp++; else fp++;
      if (fabs(pr->data[k][0] - (double)tp / np) > 4 * DEPS || fabs(pr->data[k][1] - (double)tp / (tp + fp)) > 4 * DEPS) def = 0;
      area += ((ld)pr->data[k][0] - pr->data[k - 1][0]) * ((ld)pr->data[k][1] + pr->data[k - 1][1]) / 2;
    }
    vx_check(mono, "recall-monotone|PrecisionRecall", "%s n=%d: recall decreases along the curve", tag, n);
    vx_check(pr->data[m][0] == 1.0, "recall-end|PrecisionRecall", "%s n=%d: recall ends at %.17g", tag, n, pr->data[m][0]);
    vx_check(def, "curve|PrecisionRecall", "%s n=%d: a curve point is not (tp/positives, tp/(tp+fp))", tag, n);
    vx_check(fabs(ap - (double)area) <= tol, "ap-area|PrecisionRecall", "%s n=%d: area %.17g, trapezoid sum of the returned curve %.17Lg", tag, n, ap, area);
  }
  vx_check(ap >= -tol && ap <= 1 + tol && isfinite(ap), "ap-range|PrecisionRecall", "%s n=%d: area %.17g outside [0,1]", tag, n, ap);
  ld apr = ref_ap(t, s, n);
  vx_check(fabs(ap - (double)apr) <= tol, "ap|PrecisionRecall", "%s n=%d: area %.17g, definition %.17Lg", tag, n, ap, apr);
  margin("ap", fabs(ap - (double)apr), tol);
  h = vx_hash_doubles(&ap, 1, h); if (shp2) h = hm_hash(pr, h);
  DelMatrix(&roc); DelMatrix(&pr);
  return h;
}

/* n distinct scores of value set k, ascending */
static void sorted_scores(int k, int n, double *v) {
  for (int i = 0; i < n; i++) v[i] = vg_val(300 + k, i, 0);
  for (int a = 1; a < n; a++) { double x = v[a]; int b = a - 1; while (b >= 0 && v[b] > x) { v[b + 1] = v[b]; b--; } v[b + 1] = x; }
}

static void part_roc_all(void) {
  int th = vx_thorough(), nmax = th ? 8 : 6;
  int n = 2 + vx_choose("n-2", nmax - 1);
  int tv = vx_choose("truth", 1 << n);
  int k = vx_choose("values", n >= 7 ? 1 : 2);
  long r = vx_choose("ranking", (int)vg_fact(n));
  int np = __builtin_popcount((unsigned)tv); vx_require(np >= 1 && np <= n - 1);
  double v[8], t[8], s[8]; int perm[8];
  sorted_scores(k, n, v); vx_require(distinct(v, n));
  vg_perm(n, r, perm);
  for (int i = 0; i < n; i++) { t[i] = (tv >> i) & 1; s[i] = v[perm[i]]; }
  vx_outcome(judge_roc_pr(t, s, n, "all", n <= 7));
}

static void part_roc_perm(void) {
  int nmax = vx_thorough() ? 6 : 5;
  int n = 2 + vx_choose("n-2", nmax - 1);
  int tv = vx_choose("truth", 1 << n);
  /* n = 6: ALL 720 permutations of every truth vector, on every 15th ranking (48 of 720); the full truth x ranking
   * product for n = 6..8 is judged against the exact count in part 0, which already implies permutation invariance */
  long r = n <= 5 ? vx_choose("ranking", (int)vg_fact(n)) : 15L * vx_choose("ranking/15", 48) + 7, p = vx_choose("permutation", (int)vg_fact(n));
  int np = __builtin_popcount((unsigned)tv); vx_require(np >= 1 && np <= n - 1);
  double v[8], t[8], s[8], t2[8], s2[8]; int perm[8], pi[8];
  sorted_scores(2, n, v); vx_require(distinct(v, n));
  vg_perm(n, r, perm); vg_perm(n, p, pi);
  for (int i = 0; i < n; i++) { t[i] = (tv >> i) & 1; s[i] = v[perm[i]]; }
  for (int i = 0; i < n; i++) { t2[i] = t[pi[i]]; s2[i] = s[pi[i]]; }
  double a = call_roc(t, s, n, NULL), b = call_roc(t2, s2, n, NULL);
  vx_check(fabs(a - b) <= auc_tol(n), "auc-permutation|ROC", "n=%d truth %d ranking %ld: AUC %.17g, after reordering the objects (permutation %ld) %.17g", n, tv, r, a, p, b);
  double pa = 0;
  if (n <= 5) { /* not part of the statement; cheap enough below n = 6 */
    double pb = call_pr(t2, s2, n, NULL); pa = call_pr(t, s, n, NULL);
    vx_check(fabs(pa - pb) <= auc_tol(n), "ap-permutation|PrecisionRecall", "n=%d truth %d ranking %ld: area %.17g, after reordering the objects (permutation %ld) %.17g", n, tv, r, pa, p, pb);
  }
  uint64_t h = vx_hash_doubles(&a, 1, 9); h = vx_hash_doubles(s2, (size_t)n, h); vx_outcome(vx_hash_doubles(&pa, 1, h));
}

static void index_perm(int which, int n, int *pi) {
  static const int MUL[3] = {7, 11, 13};                 /* coprime to 20 and 200 */
  for (int i = 0; i < n; i++) {
    switch (which) {
      case 0: pi[i] = n - 1 - i; break;                  /* reversal        */
      case 1: pi[i] = (i + 1) % n; break;                /* cyclic shift 1  */
      case 2: pi[i] = (i + n / 2) % n; break;            /* half rotation   */
      case 3: case 4: case 5: pi[i] = (int)(((long)MUL[which - 3] * i + which) % n); break;
      default: pi[i] = i;
    }
  }
  if (which >= 6) { /* sort by an unrelated lattice column: a "random" permutation */
    for (int a = 1; a < n; a++) { int x = pi[a], b = a - 1; while (b >= 0 && vg_val(700 + which, pi[b], 2) > vg_val(700 + which, x, 2)) { pi[b + 1] = pi[b]; b--; } pi[b + 1] = x; }
  }
}

static void part_roc_indexed(void) {
  int th = vx_thorough();
  int n = vx_choose("n", th ? 4 : 2); n = n == 0 ? 20 : n == 1 ? 200 : n == 2 ? 57 : 128;
  int pat = vx_choose("truth-pattern", 8), dist = vx_choose("score-dist", 3), k = vx_choose("values", th ? 12 : 4), pw = vx_choose("permutation", 8);
  static double t[NMAXV], s[NMAXV], t2[NMAXV], s2[NMAXV]; static int pi[NMAXV];
  for (int i = 0; i < n; i++) { double g = vg_val(400 + k, i, 0); s[i] = dist == 0 ? g : dist == 1 ? 1e6 * g * g * g : exp(20 * g); }
  vx_require(distinct(s, n));
  double med; { static double c[NMAXV]; memcpy(c, s, sizeof(double) * (size_t)n); for (int a = 1; a < n; a++) { double x = c[a]; int b = a - 1; while (b >= 0 && c[b] > x) { c[b + 1] = c[b]; b--; } c[b + 1] = x; } med = (c[n / 2 - 1] + c[n / 2]) / 2; }
  int np = 0;
  for (int i = 0; i < n; i++) {
    int p;
    switch (pat) {
      case 0: p = i & 1; break;
      case 1: p = i < n / 2; break;
      case 2: p = i == 0; break;
      case 3: p = i != n - 1; break;
      case 4: p = vg_val(450 + k, i, 1) > 0.3; break;
      case 5: p = s[i] > med; break;                                       /* perfect ranking: AUC 1 */
      case 6: p = s[i] < med; break;                                       /* inverted ranking: AUC 0 */
      default: p = vg_val(400 + k, i, 0) + vg_val(450 + k, i, 1) > 0; break; /* informative but noisy */
    }
    t[i] = p; np += p;
  }
  vx_require(np >= 1 && np <= n - 1);
  char tag[40]; snprintf(tag, sizeof tag, "indexed(pattern %d,dist %d)", pat, dist);
  uint64_t h = judge_roc_pr(t, s, n, tag, 1);
  index_perm(pw, n, pi);
  for (int i = 0; i < n; i++) { t2[i] = t[pi[i]]; s2[i] = s[pi[i]]; }
  double a = call_roc(t, s, n, NULL), b = call_roc(t2, s2, n, NULL);
  vx_check(fabs(a - b) <= auc_tol(n), "auc-permutation|ROC", "%s n=%d: AUC %.17g, after reordering the objects (permutation family %d) %.17g", tag, n, a, pw, b);
  double pa = call_pr(t, s, n, NULL), pb = call_pr(t2, s2, n, NULL);
  vx_check(fabs(pa - pb) <= auc_tol(n), "ap-permutation|PrecisionRecall", "%s n=%d: area %.17g, after reordering %.17g", tag, n, pa, pb);
  vx_outcome(h);
}

/* ------------------------------------------------------------------ regression figures */
typedef struct { int np; ld r2, mse, rmse, mae, bias, slope; double t_r2, t_mse, t_rmse, t_mae, t_bias; } regref;

/* long-double definitions over the objects whose truth is not missing-coded, and forward error allowances */
static int reg_ref(const double *y, const double *p, int n, regref *o) {
  int np = 0; ld sy = 0, magy = 0, sabsy = 0, sabsp = 0;
  for (int i = 0; i < n; i++) if (y[i] != MISS) { np++; sy += y[i]; if (fabsl(y[i]) > magy) magy = fabsl(y[i]); sabsy += fabsl(y[i]); sabsp += fabsl(p[i]); }
  o->np = np; if (np < 2) return 0;
  ld ym = sy / np, ssr = 0, sst = 0, sae = 0, num = 0, A = 0, B = 0;
  for (int i = 0; i < n; i++) if (y[i] != MISS) {
    ld d = (ld)p[i] - y[i], c = y[i] - ym;
    ssr += d * d; sst += c * c; sae += fabsl(d); num += p[i] * c; A += fabsl(p[i] * c); B += fabsl(y[i] * c);
  }
  if (!(sst > 0)) return 0;
  o->mse = ssr / np; o->rmse = sqrtl(o->mse); o->mae = sae / np; o->r2 = 1 - ssr / sst; o->slope = num / sst; o->bias = fabsl(1 - o->slope);
  double e = DEPS * (np + 2), sd = (double)sqrtl(sst / (np - 1)), cond = 1 + (double)magy / sd, q = (double)(ssr / sst);
  o->t_mse = 8 * e * (double)o->mse; o->t_rmse = 8 * e * (double)o->rmse; o->t_mae = 8 * e * (double)o->mae;
  o->t_r2 = 16 * e * cond * q + 4 * DEPS * (1 + q);
  double dmean = 4 * e * (double)magy;                                       /* error of the rounded mean of y */
  double en = 2 * e * (double)A + dmean * (double)sabsp, ed = 2 * e * (double)B + dmean * (double)sabsy;
  o->t_bias = 4 * (en + fabs((double)o->slope) * ed) / (double)sst + 4 * DEPS * (1 + fabs((double)o->slope));
  return 1;
}

static void part_regression(void) {
  static const int NS[] = {2, 3, 4, 5, 6, 10, 200};
  static const double SC[] = {1e-6, 1.0, 1e6};
  int th = vx_thorough();
  int n = NS[vx_choose("length", 7)];
  double sc = SC[vx_choose("scale", 3)];
  int off = vx_choose("offset", 2), kind = vx_choose("prediction", 5), k = vx_choose("values", th ? 6 : 2);
  int mask = n <= 6 ? vx_choose("missing-subset", 1 << n) : vx_choose("missing-pattern", 4);
  static double y[NMAXV], p[NMAXV]; static unsigned char ms[NMAXV];
  int anymiss = 0;
  for (int i = 0; i < n; i++) {
    ms[i] = n <= 6 ? (mask >> i) & 1 : mask == 1 ? i % 5 == 2 : mask == 2 ? (i % 7 == 0) : mask == 3 ? (i == n - 1 || i % 6 == 5) : 0;   /* <= 20 % above length 6 */
    anymiss |= ms[i];
  }
  double o = off ? 1e3 * sc : 0; ld ym = 0; int np = 0;
  for (int i = 0; i < n; i++) { y[i] = o + sc * vg_val(500 + k, i, 0); if (!ms[i]) { ym += y[i]; np++; } }
  vx_require(np >= 2);
  ym /= np;
  for (int i = 0; i < n; i++) {
    double g = vg_val(550 + k, i, 1);
    switch (kind) {
      case 0: p[i] = y[i]; break;                                     /* perfect                      */
      case 1: p[i] = y[i] + 0.2 * sc * g; break;                      /* good                         */
      case 2: p[i] = (double)ym + 0.5 * (y[i] - (double)ym) + 0.05 * sc * g; break; /* slope 0.5      */
      case 3: p[i] = (double)ym - (y[i] - (double)ym) + 0.3 * sc * g; break;        /* anti-correlated, R2 << 0 */
      default: p[i] = (double)ym + 0.25 * sc; break;                  /* constant prediction          */
    }
    if (ms[i]) { y[i] = MISS; p[i] = 4242.4242 * sc - o; }             /* the prediction of an ignored object is arbitrary */
  }
  regref R; vx_require(reg_ref(y, p, n, &R));
  dvector *yt = hv_new(n, y), *yp = hv_new(n, p);
  double r2 = R2(yt, yp), mse = MSE(yt, yp), rmse = RMSE(yt, yp), mae = MAE(yt, yp), bias = BIAS(yt, yp); vx_transition(5);
  const char *cl = anymiss ? "|missing-truths" : "";
  char kb[80];
#define KEY(o, f) (snprintf(kb, sizeof kb, "%s|%s%s", o, f, cl), kb)
  vx_check(fabs(r2 - (double)R.r2) <= R.t_r2, KEY("value", "R2"), "n=%d (%d judged) scale %g offset %g kind %d: %.17g vs %.17Lg tol %g", n, R.np, sc, o, kind, r2, R.r2, R.t_r2);
  vx_check(fabs(mse - (double)R.mse) <= R.t_mse, KEY("value", "MSE"), "n=%d (%d judged) scale %g kind %d: %.17g vs %.17Lg tol %g", n, R.np, sc, kind, mse, R.mse, R.t_mse);
  vx_check(fabs(rmse - (double)R.rmse) <= R.t_rmse, KEY("value", "RMSE"), "n=%d (%d judged) scale %g kind %d: %.17g vs %.17Lg tol %g", n, R.np, sc, kind, rmse, R.rmse, R.t_rmse);
  vx_check(fabs(mae - (double)R.mae) <= R.t_mae, KEY("value", "MAE"), "n=%d (%d judged) scale %g kind %d: %.17g vs %.17Lg tol %g", n, R.np, sc, kind, mae, R.mae, R.t_mae);
  vx_check(fabs(bias - (double)R.bias) <= R.t_bias, KEY("value", "BIAS"), "n=%d (%d judged) scale %g offset %g kind %d: %.17g vs |1-slope| = %.17Lg tol %g", n, R.np, sc, o, kind, bias, R.bias, R.t_bias);
  margin("R2", fabs(r2 - (double)R.r2), R.t_r2); margin("MSE", fabs(mse - (double)R.mse), R.t_mse); margin("RMSE", fabs(rmse - (double)R.rmse), R.t_rmse);
  margin("MAE", fabs(mae - (double)R.mae), R.t_mae); margin("BIAS", fabs(bias - (double)R.bias), R.t_bias);
  vx_check(r2 <= 1.0, KEY("law", "R2<=1"), "n=%d kind %d: R2 = %.17g", n, kind, r2);
  vx_check(fabs(rmse * rmse - mse) <= 4 * DEPS * mse, KEY("law", "RMSE^2=MSE"), "n=%d kind %d: RMSE^2 = %.17g, MSE = %.17g", n, kind, rmse * rmse, mse);
  vx_check(mae <= rmse * (1 + 8 * DEPS * (n + 2)), KEY("law", "MAE<=RMSE"), "n=%d kind %d: MAE %.17g > RMSE %.17g", n, kind, mae, rmse);
  vx_check(mse >= 0 && mae >= 0 && bias >= 0 && isfinite(r2) && isfinite(bias), KEY("law", "finite-nonnegative"), "n=%d kind %d: R2 %g MSE %g MAE %g BIAS %g", n, kind, r2, mse, mae, bias);
  if (kind == 0)
    vx_check(r2 == 1.0 && mse == 0 && rmse == 0 && mae == 0 && bias <= R.t_bias, KEY("perfect", "R2/MSE/RMSE/MAE/BIAS"), "n=%d scale %g offset %g: perfect prediction gives R2 %.17g MSE %g RMSE %g MAE %g BIAS %g", n, sc, o, r2, mse, rmse, mae, bias);
#undef KEY
  double ob[5] = {r2, mse / (sc * sc), mae / sc, bias, rmse / sc};
  vx_outcome(vx_hash_doubles(ob, 5, (uint64_t)kind));
  DelDVector(&yt); DelDVector(&yp);
}

/* ------------------------------------------------------------------ statistic tables */
static void fill_truth_pred(matrix *yt, matrix *yp, int n, int ny, int nlv, int k, double sc, int miss) {
  for (int i = 0; i < n; i++) for (int j = 0; j < ny; j++) yt->data[i][j] = sc * (vg_val(600 + k, i, j) + (j == 1 ? 3.0 : 0.0));
  /* every (lv, response) block has its own noise column and level, so any index mix-up changes the numbers */
  for (int i = 0; i < n; i++) for (int lv = 0; lv < nlv; lv++) for (int j = 0; j < ny; j++)
    yp->data[i][ny * lv + j] = yt->data[i][j] + sc * vg_val(650 + k, i, ny * lv + j) * (0.6 / (lv + 1) + 0.1 * j);
  if (miss) for (int i = 0; i < n; i++) for (int j = 0; j < ny; j++) if ((i + 2 * j) % 5 == 1) yt->data[i][j] = MISS;
}
static void col_to(const matrix *m, int c, double *out) { for (size_t i = 0; i < m->row; i++) out[i] = m->data[i][c]; }

static void tables_regression(int which) {
  int th = vx_thorough();
  int n = vx_choose("objects", 2) ? 12 : 5, ny = 1 + vx_choose("ny-1", which == 0 ? 3 : 4), nlv = which == 0 ? 1 + vx_choose("nlv-1", th ? 4 : 3) : 1;
  int miss = vx_choose("missing", 2), scl = vx_choose("scale", 2), outs = vx_choose("outputs", 3), k = vx_choose("values", th ? 4 : 2);
  double sc = scl ? 1e3 : 1.0;
  matrix *yt, *yp; NewMatrix(&yt, (size_t)n, (size_t)ny); NewMatrix(&yp, (size_t)n, (size_t)(ny * nlv));
  fill_truth_pred(yt, yp, n, ny, nlv, k, sc, miss);
  const char *fn = which == 0 ? "PLSRegressionStatistics" : "MLRRegressionStatistics";
  char cls[64]; snprintf(cls, sizeof cls, "%s%s", which ? (ny > 1 ? "ny>1" : "ny=1") : (ny > 1 && nlv > 1) ? "ny>1,nlv>1" : ny > 1 ? "ny>1,nlv=1" : nlv > 1 ? "ny=1,nlv>1" : "ny=1,nlv=1", miss ? ",missing-truths" : "");
  char kb[120]; snprintf(kb, sizeof kb, "table|%s|%s", fn, cls);
  int want_r2 = outs != 2, want_rmse = outs != 1, want_bias = outs != 1;
  matrix *mr2 = NULL, *mrm = NULL, *mbi = NULL; dvector *vr2 = NULL, *vrm = NULL, *vbi = NULL;
  if (which == 0) {
    if (want_r2) initMatrix(&mr2); if (want_rmse) initMatrix(&mrm); if (want_bias) initMatrix(&mbi);
    PLSRegressionStatistics(yt, yp, mr2, mrm, mbi);
  } else {
    if (want_r2) initDVector(&vr2); if (want_rmse) initDVector(&vrm); if (want_bias) initDVector(&vbi);
    MLRRegressionStatistics(yt, yp, vr2, vrm, vbi);
  }
  vx_transition(1);
  int shp = 1;
  if (which == 0) { matrix *mm[3] = {mr2, mrm, mbi}; for (int a = 0; a < 3; a++) if (mm[a] && !((int)mm[a]->row == nlv && (int)mm[a]->col == ny)) shp = 0; }
  else { dvector *vv[3] = {vr2, vrm, vbi}; for (int a = 0; a < 3; a++) if (vv[a] && (int)vv[a]->size != ny) shp = 0; }
  vx_check(shp, kb, "n=%d ny=%d nlv=%d: a table does not have %d x %d entries", n, ny, nlv, nlv, ny);
  uint64_t h = (uint64_t)(which + 40);
  static double a[NMAXV], b[NMAXV];
  for (int lv = 0; shp && lv < nlv; lv++) for (int j = 0; j < ny; j++) {
    col_to(yt, j, a); col_to(yp, ny * lv + j, b);
    regref R; if (!reg_ref(a, b, n, &R)) continue;
    double g_r2 = which == 0 ? (mr2 ? mr2->data[lv][j] : 0) : (vr2 ? vr2->data[j] : 0);
    double g_rm = which == 0 ? (mrm ? mrm->data[lv][j] : 0) : (vrm ? vrm->data[j] : 0);
    double g_bi = which == 0 ? (mbi ? mbi->data[lv][j] : 0) : (vbi ? vbi->data[j] : 0);
    if (want_r2) vx_check(fabs(g_r2 - (double)R.r2) <= R.t_r2, kb, "n=%d ny=%d nlv=%d entry (lv %d, response %d): R2 %.17g, definition on that pair of columns %.17Lg (tol %g)", n, ny, nlv, lv, j, g_r2, R.r2, R.t_r2);
    if (want_rmse) vx_check(fabs(g_rm - (double)R.rmse) <= R.t_rmse, kb, "n=%d ny=%d nlv=%d entry (lv %d, response %d): RMSE %.17g, definition %.17Lg (tol %g)", n, ny, nlv, lv, j, g_rm, R.rmse, R.t_rmse);
    if (want_bias) vx_check(fabs(g_bi - (double)R.bias) <= R.t_bias, kb, "n=%d ny=%d nlv=%d entry (lv %d, response %d): BIAS %.17g, definition %.17Lg (tol %g)", n, ny, nlv, lv, j, g_bi, R.bias, R.t_bias);
    double ob[3] = {g_r2, g_rm / sc, g_bi}; h = vx_hash_doubles(ob, 3, h);
  }
  vx_outcome(h);
  if (mr2) DelMatrix(&mr2); if (mrm) DelMatrix(&mrm); if (mbi) DelMatrix(&mbi);
  if (vr2) DelDVector(&vr2); if (vrm) DelDVector(&vrm); if (vbi) DelDVector(&vbi);
  DelMatrix(&yt); DelMatrix(&yp);
}

static void tables_da(void) {
  int n = 4 + vx_choose("objects-4", 3), ny = 1 + vx_choose("ny-1", 2), nlv = 1 + vx_choose("nlv-1", 2);
  int tv = vx_choose("truth", 1 << n), curves = vx_choose("curves", 2), nmiss = vx_choose("missing", 3), k = vx_choose("values", 2);
  matrix *yt, *ys; NewMatrix(&yt, (size_t)n, (size_t)ny); NewMatrix(&ys, (size_t)n, (size_t)(ny * nlv));
  for (int i = 0; i < n; i++) for (int j = 0; j < ny; j++) yt->data[i][j] = j == 0 ? ((tv >> i) & 1) : 1 - ((tv >> ((i + 1) % n)) & 1);
  for (int i = 0; i < n; i++) for (int c = 0; c < ny * nlv; c++) ys->data[i][c] = vg_val(680 + k, i, c);
  /* missing-coded truths: object 1 (and object 3) of response 0 */
  if (nmiss >= 1) yt->data[1][0] = MISS;
  if (nmiss >= 2) yt->data[3][0] = MISS;
  /* two missing truths together with curve tensors is a known crash class (each crash costs a worker restart):
   * one representative sub-family instead of the full product */
  if (nmiss >= 2 && curves) vx_require(n == 5 && ny == 1 && nlv == 1 && k == 0);
  static double a[NMAXV], b[NMAXV]; static int idx[NMAXV];
  for (int j = 0; j < ny; j++) { col_to(yt, j, a); int p = 0, q = 0; for (int i = 0; i < n; i++) { if (a[i] == 1.0) p++; else if (a[i] != MISS) q++; } vx_require(p >= 1 && q >= 1); }
  for (int c = 0; c < ny * nlv; c++) { col_to(ys, c, b); vx_require(distinct(b, n)); }
  tensor *roc = NULL, *prc = NULL; matrix *auc, *ap; initMatrix(&auc); initMatrix(&ap);
  if (curves) { initTensor(&roc); initTensor(&prc); }
  PLSDiscriminantAnalysisStatistics(yt, ys, roc, auc, prc, ap); vx_transition(1);
  char cls[40]; snprintf(cls, sizeof cls, "%s", nmiss ? "missing-truths" : "complete");
  char kb[120]; snprintf(kb, sizeof kb, "table|PLSDiscriminantAnalysisStatistics|%s", cls);
  int shp = (int)auc->row == nlv && (int)auc->col == ny && (int)ap->row == nlv && (int)ap->col == ny;
  vx_check(shp, kb, "n=%d ny=%d nlv=%d: AUC table (%zu,%zu), AP table (%zu,%zu)", n, ny, nlv, auc->row, auc->col, ap->row, ap->col);
  uint64_t h = 50;
  for (int lv = 0; shp && lv < nlv; lv++) for (int j = 0; j < ny; j++) {
    col_to(yt, j, a); col_to(ys, ny * lv + j, b);
    int np, nn; long cnt = mw_count(a, b, n, &np, &nn); double ar = (double)((ld)cnt / ((ld)np * nn)); ld apr = ref_ap(a, b, n);
    vx_check(fabs(auc->data[lv][j] - ar) <= auc_tol(n), kb, "n=%d ny=%d nlv=%d entry (lv %d, response %d): AUC %.17g, Mann-Whitney %ld/%d", n, ny, nlv, lv, j, auc->data[lv][j], cnt, np * nn);
    vx_check(fabs(ap->data[lv][j] - (double)apr) <= auc_tol(n), kb, "n=%d ny=%d nlv=%d entry (lv %d, response %d): AP %.17g, definition %.17Lg", n, ny, nlv, lv, j, ap->data[lv][j], apr);
    h = vx_hash_doubles(&auc->data[lv][j], 1, h); h = vx_hash_doubles(&ap->data[lv][j], 1, h);
    if (curves && roc && (int)roc->order == nlv && (int)roc->m[lv]->col >= 2 * ny) {
      /* the stored ROC curve of this (lv, response): points of the definition, from (0,0) to (1,1) */
      int m = order_desc(a, b, n, idx), rows = (int)roc->m[lv]->row, tp = 0, fp = 0, def = 1;
      for (int r = 1; r <= m && r < rows; r++) {
        if (a[idx[r - 1]] == 1.0) tp++; else fp++;
        if (fabs(roc->m[lv]->data[r][2 * j] - (double)fp / nn) > 4 * DEPS || fabs(roc->m[lv]->data[r][2 * j + 1] - (double)tp / np) > 4 * DEPS) def = 0;
      }
      char k2[120]; snprintf(k2, sizeof k2, "curve|PLSDiscriminantAnalysisStatistics|%s", cls);
      vx_check(def && roc->m[lv]->data[0][2 * j] == 0 && roc->m[lv]->data[0][2 * j + 1] == 0, k2, "n=%d (lv %d, response %d): a stored ROC point differs from the definition", n, lv, j);
      snprintf(k2, sizeof k2, "curve-end|PLSDiscriminantAnalysisStatistics|%s", rows < m + 1 ? "stored-rows=objects" : cls);
      int ends = rows >= m + 1 && roc->m[lv]->data[m][2 * j] == 1 && roc->m[lv]->data[m][2 * j + 1] == 1;
      vx_check(ends, k2, "n=%d (lv %d, response %d): the ROC curve has %d points, the tensor block stores %d rows, so the curve ends at (%g,%g) instead of (1,1)", n, lv, j, m + 1, rows,
               roc->m[lv]->data[rows - 1][2 * j], roc->m[lv]->data[rows - 1][2 * j + 1]);
    }
  }
  if (curves) vx_check(roc && prc && (int)roc->order == nlv && (int)prc->order == nlv, kb, "n=%d nlv=%d: curve tensors have %zu / %zu blocks", n, nlv, roc ? roc->order : 0, prc ? prc->order : 0);
  vx_outcome(h);
  if (roc) DelTensor(&roc); if (prc) DelTensor(&prc);
  DelMatrix(&auc); DelMatrix(&ap); DelMatrix(&yt); DelMatrix(&ys);
}

/* the statistic table a fitted MLR model carries (r2y_model, sdec; filled by MLR() through MLRPredictY): entry j is R2 / RMSE of
 * (response j, recalculated response j) -- "the PLS/MLR statistic tables are those functions applied per response" */
static void tables_mlr_model(void) {
  int n = vx_choose("objects", 2) ? 12 : 6, p = 1 + vx_choose("p-1", 2), ny = 1 + vx_choose("ny-1", 4), scl = vx_choose("scale", 2), k = vx_choose("values", vx_thorough() ? 4 : 2);
  double sc = scl ? 1e3 : 1.0;
  matrix *mx, *my; NewMatrix(&mx, (size_t)n, (size_t)p); NewMatrix(&my, (size_t)n, (size_t)ny);
  for (int i = 0; i < n; i++) {
    for (int j = 0; j < p; j++) mx->data[i][j] = vg_val(720 + k, i, j) + 0.5 * j;
    for (int j = 0; j < ny; j++) { double s = 1.5 + j; for (int q = 0; q < p; q++) s += (1.0 + 0.7 * q - 0.4 * j) * mx->data[i][q]; my->data[i][j] = sc * (s + (0.1 + 0.4 * j) * vg_val(740 + k, i, j)); }   /* noise level differs per response */
  }
  MLRMODEL *m; NewMLRModel(&m); MLR(mx, my, m, NULL); vx_transition(1);
  char kb[120]; snprintf(kb, sizeof kb, "table|MLR-model|%s", ny > 1 ? "ny>1" : "ny=1");
  int shp = (int)m->r2y_model->size == ny && (int)m->sdec->size == ny && (int)m->recalculated_y->row == n && (int)m->recalculated_y->col == ny;
  vx_check(shp, kb, "n=%d p=%d ny=%d: r2y_model has %zu, sdec %zu entries, recalculated_y is %zux%zu", n, p, ny, m->r2y_model->size, m->sdec->size, m->recalculated_y->row, m->recalculated_y->col);
  uint64_t h = 43; static double a[NMAXV], b[NMAXV];
  for (int j = 0; shp && j < ny; j++) {
    col_to(my, j, a); col_to(m->recalculated_y, j, b);
    regref R; if (!reg_ref(a, b, n, &R)) continue;
    vx_check(fabs(m->r2y_model->data[j] - (double)R.r2) <= R.t_r2, kb, "n=%d p=%d ny=%d response %d: r2y_model %.17g, R2 of (response, recalculated response) %.17Lg (tol %g)", n, p, ny, j, m->r2y_model->data[j], R.r2, R.t_r2);
    vx_check(fabs(m->sdec->data[j] - (double)R.rmse) <= R.t_rmse, kb, "n=%d p=%d ny=%d response %d: sdec %.17g, RMSE of (response, recalculated response) %.17Lg (tol %g)", n, p, ny, j, m->sdec->data[j], R.rmse, R.t_rmse);
    double ob[2] = {m->r2y_model->data[j], m->sdec->data[j] / sc}; h = vx_hash_doubles(ob, 2, h);
  }
  vx_outcome(h);
  DelMLRModel(&m); DelMatrix(&mx); DelMatrix(&my);
}

static void part_tables(void) {
  int which = vx_choose("table", 4);
  if (which < 2) tables_regression(which); else if (which == 2) tables_da(); else tables_mlr_model();
}

static void body(void) {
  switch (vx_choose("part", 5)) {
    case 0: part_roc_all(); break;
    case 1: part_roc_perm(); break;
    case 2: part_roc_indexed(); break;
    case 3: part_regression(); break;
    default: part_tables(); break;
  }
}

int main(int argc, char **argv) {
  vg_seed(getenv("VERIF_SEED") ? atol(getenv("VERIF_SEED")) : 0);
  vx_describe("alphabet", "0: ALL truth vectors in {0,1}^n with both classes x ALL n! rankings of n distinct scores, n=2..6 [thorough ..8; the 4 monotone maps and negation for n<=7]; 1: ALL object permutations of all (truth, ranking) pairs n<=5 [n=6: all permutations x all truths x 48 of 720 rankings]; 2: n in {20,200} [+57,128] x 8 truth patterns x 3 score distributions (uniform, 1e6 x^3, exp(20x)) x 4 [12] value sets x 8 permutations; 3: lengths {2,3,4,5,6,10,200} x scales {1e-6,1,1e6} x offsets {0,1e3*scale} x 5 prediction kinds x 2 [6] value sets x ALL subsets of missing-coded truths (n<=6) or 4 patterns <= 20%%; 4: PLSRegressionStatistics (ny 1..3, nlv 1..3[4]), MLRRegressionStatistics (ny 1..4), the r2y_model/sdec table of a fitted MLR model (n {6,12}, p 1..2, ny 1..4, 2 scales), PLSDiscriminantAnalysisStatistics (all truth vectors n=4..6, ny 1..2, nlv 1..2, 0..2 missing truths, with/without curve tensors)");
  vx_describe("oracle", "exact integer Mann-Whitney count / (n+ n-) = AUC (tol 16 eps (n+2)); ROC points = (fp/n-, tp/n+) of the objects ranked above, monotone, (0,0)->(1,1); AUC equal under x^3, exp, 2x+5, atan and object permutations, 1-AUC under negation; PR points = (tp/n+, tp/(tp+fp)), recall non-decreasing ending at 1, area = trapezoid from (0,1), in [0,1]; R2/MSE/RMSE/MAE/BIAS = long-double formulas over non-missing truths with forward error allowances, RMSE^2=MSE, MAE<=RMSE, R2<=1, perfect prediction => (1,0,0,0,0); statistic tables = the same definitions per (latent variable, response) on column ny*lv+j");
  vx_set_shard_depth(3);
  vx_expect_outcomes(2000);
  return vx_main(argc, argv, "C15", body);
}
