/* C16 -- a PCA/CPCA/PLS model saved with io.c reads back equal to the model LAST written to that
 * path, whatever was written to the path before.
 *
 * Alphabet: 6 models fitted once in main() (PCA small/large, PLS ny=1 / ny=2,nlv=2 with the optional
 * validation fields filled, CPCA 2 / 3 blocks; data columns scaled 1e-9 .. 1e9 and -2e10) x 2 paths on /dev/shm.
 * Enumerated: ALL write sequences of length 1..3 (quick) / 1..4 (thorough) over the 12 operations, thorough
 * also all sequences of length 5 over 3 models (one per kind) x 2 paths; every Write is followed by a Read of
 * the kind just written into a fresh model and judged.
 * Oracles (the sentences of the statement):
 *   readback       same dimensions for every matrix/tensor/vector field, every number within
 *                  1e-15*max(1,|v|); empty fields stay empty                     key readback|<kind>|<class>
 *   unsaved-field  PCAMODEL.dmodx (a matrix field the writer never stores)      key unsaved-field|PCA|dmodx
 *   predict        the model read back gives the same PCAScorePredictor / PLSYPredictorAllLV /
 *                  CPCAScorePredictor output on a probe (allowance = first-order propagation of the
 *                  statement's own per-number allowance, see pred_allowance) key predict|<kind>|<class>
 *   write-mutates  deep bitwise hash of the in-memory model before/after Write   key write-mutates|Write<kind>
 *   other-path     bytes of the other path's file before/after Write             key other-path|Write<kind>
 *   died / alloc / nonterm   the call crashed (sanitizer, abort), asked for > 64 MB, or looped: the library calls
 *                  of a history run in a forked process, so the harness itself attributes the death to the
 *                  call and the class: died|Read<kind>|<class>
 * <class> is computed from the history of the path written:
 *   first-write | writes>=2,no-shared-table | writes>=2,prev-same-model | writes>=2,prev-differs
 * ("shared table": an earlier write to the path was of a kind that uses a table name of this kind,
 *  i.e. the same kind, or PCA <-> CPCA which both use colaverage/colscaling).
 * No <signal.h>/<sys/wait.h> here (ssignal clash); waitpid is declared by hand. */
#include "hcommon.h"
#include "pca.h"
#include "pls.h"
#include "cpca.h"
#include "list.h"
#include "io.h"
#include <unistd.h>
#include <glob.h>
#include <sys/stat.h>
#include <stddef.h>

/* ------------------------------------------------------------------ seams */
void __real_GetNProcessor(size_t *a, size_t *b);
void __wrap_GetNProcessor(size_t *a, size_t *b) { if (a) *a = 1; if (b) *b = 1; }
/* DVectNorm is called once per iteration of the NIPALS loops of PCA, PLS (LVCalc) and CPCA.  Library calls
 * are made in main() (fitting the alphabet) and in the forked history process (see run_steps), never in the
 * engine's worker itself, so the ceilings end the process with a code instead of calling vx_tick. */
#define EXIT_ALLOC 42
#define EXIT_NONTERM 43
static int in_setup = 1; static long ticks_ = 0;
void __real_DVectNorm(dvector *v, dvector *n);
void __wrap_DVectNorm(dvector *v, dvector *n) {
  if (++ticks_ > (in_setup ? 2000000 : 200000)) {
    if (in_setup) fprintf(stderr, "VX-HARNESS-ERROR: C16 setup: a fit of the model alphabet does not terminate\n");
    _exit(in_setup ? 2 : EXIT_NONTERM);
  }
  __real_DVectNorm(v, n);
}

/* io.c commits every INSERT on its own; with the default rollback journal that is a journal file created,
 * synced and deleted per number written.  Durability is not part of the property, so every connection the
 * library opens gets an in-memory journal and no fsync -- the SQL the library executes is unchanged. */
#include <sqlite3.h>
int __real_sqlite3_open(const char *f, sqlite3 **db);
int __wrap_sqlite3_open(const char *f, sqlite3 **db) {
  int rc = __real_sqlite3_open(f, db);
  if (rc == SQLITE_OK && !getenv("C16_DEFAULT_JOURNAL")) sqlite3_exec(*db, "PRAGMA journal_mode=MEMORY; PRAGMA synchronous=OFF;", 0, 0, 0);
  return rc;
}

/* Allocation budget: a reader that takes garbage for a dimension asks for gigabytes (row by row, so the
 * allocator never refuses).  The step process gets a budget of 64 MB of requested bytes per library call
 * (the models need < 2 MB); exceeding it ends the step process with EXIT_ALLOC, which the parent reports as
 * a violation of the call in progress -- never an OOM kill of the machine. */
#define ALLOC_BUDGET (64L << 20)
static long alloc_used = 0;
void *__real_xmalloc(size_t n); void *__real_xrealloc(void *p, size_t n);
static void alloc_charge(size_t n) {
  if (in_setup) return;
  if (n > (size_t)ALLOC_BUDGET || (alloc_used += (long)n) > ALLOC_BUDGET) _exit(EXIT_ALLOC);
}
void *__wrap_xmalloc(size_t n) { alloc_charge(n); return __real_xmalloc(n); }
void *__wrap_xrealloc(void *p, size_t n) { alloc_charge(n); return __real_xrealloc(p, n); }

/* ------------------------------------------------------------------ model description */
enum { K_PCA = 0, K_PLS = 1, K_CPCA = 2 };
static const char *KN[3] = {"PCA", "PLS", "CPCA"};
enum { T_MAT, T_VEC, T_TEN, T_VLIST };
typedef struct { const char *name; int type; size_t off; int unsaved; } fdesc;
#define FD(S, f, t) { #f, t, offsetof(S, f), 0 }
static const fdesc PCA_F[] = { FD(PCAMODEL, scores, T_MAT), FD(PCAMODEL, loadings, T_MAT), FD(PCAMODEL, varexp, T_VEC),
  FD(PCAMODEL, colaverage, T_VEC), FD(PCAMODEL, colscaling, T_VEC), { "dmodx", T_MAT, offsetof(PCAMODEL, dmodx), 1 } };
static const fdesc PLS_F[] = { FD(PLSMODEL, xscores, T_MAT), FD(PLSMODEL, xloadings, T_MAT), FD(PLSMODEL, xweights, T_MAT), FD(PLSMODEL, yscores, T_MAT),
  FD(PLSMODEL, yloadings, T_MAT), FD(PLSMODEL, b, T_VEC), FD(PLSMODEL, xvarexp, T_VEC), FD(PLSMODEL, xcolaverage, T_VEC), FD(PLSMODEL, xcolscaling, T_VEC),
  FD(PLSMODEL, ycolaverage, T_VEC), FD(PLSMODEL, ycolscaling, T_VEC), FD(PLSMODEL, recalculated_y, T_MAT), FD(PLSMODEL, recalc_residuals, T_MAT),
  FD(PLSMODEL, predicted_y, T_MAT), FD(PLSMODEL, pred_residuals, T_MAT), FD(PLSMODEL, r2y_recalculated, T_MAT), FD(PLSMODEL, r2y_validation, T_MAT),
  FD(PLSMODEL, q2y, T_MAT), FD(PLSMODEL, sdep, T_MAT), FD(PLSMODEL, sdec, T_MAT), FD(PLSMODEL, bias, T_MAT), FD(PLSMODEL, roc_recalculated, T_TEN),
  FD(PLSMODEL, roc_validation, T_TEN), FD(PLSMODEL, roc_auc_recalculated, T_MAT), FD(PLSMODEL, roc_auc_validation, T_MAT),
  FD(PLSMODEL, precision_recall_recalculated, T_TEN), FD(PLSMODEL, precision_recall_validation, T_TEN),
  FD(PLSMODEL, precision_recall_ap_recalculated, T_MAT), FD(PLSMODEL, precision_recall_ap_validation, T_MAT), FD(PLSMODEL, yscrambling, T_MAT) };
static const fdesc CPCA_F[] = { FD(CPCAMODEL, block_scores, T_TEN), FD(CPCAMODEL, block_loadings, T_TEN), FD(CPCAMODEL, super_scores, T_MAT),
  FD(CPCAMODEL, super_weights, T_MAT), FD(CPCAMODEL, scaling_factor, T_VEC), FD(CPCAMODEL, total_expvar, T_VEC), FD(CPCAMODEL, block_expvar, T_VLIST),
  FD(CPCAMODEL, colaverage, T_VLIST), FD(CPCAMODEL, colscaling, T_VLIST) };
static const fdesc *FT[3] = {PCA_F, PLS_F, CPCA_F};
static const int NF[3] = {sizeof PCA_F / sizeof PCA_F[0], sizeof PLS_F / sizeof PLS_F[0], sizeof CPCA_F / sizeof CPCA_F[0]};

/* flattened view of a model: per field its dimension signature and pointers to its numbers */
#define MAXF 32
#define MAXDIM 24
#define MAXV 8192
typedef struct {
  int nf; int nd[MAXF]; size_t dim[MAXF][MAXDIM]; int v0[MAXF], v1[MAXF]; /* values of field f are ptr[v0..v1) */
  int nv; double *ptr[MAXV];
} flat;

static void fl_push(flat *F, double *p) { if (F->nv >= MAXV) { fprintf(stderr, "VX-HARNESS-ERROR: C16 flat: more than %d numbers in a model\n", MAXV); _exit(2); } F->ptr[F->nv++] = p; }
static void fl_dim(flat *F, int f, size_t d) { if (F->nd[f] < MAXDIM) F->dim[f][F->nd[f]] = d; F->nd[f]++; }
static void fl_mat(flat *F, int f, matrix *m) { fl_dim(F, f, m->row); fl_dim(F, f, m->col); for (size_t i = 0; i < m->row; i++) for (size_t j = 0; j < m->col; j++) fl_push(F, &m->data[i][j]); }
static void fl_vec(flat *F, int f, dvector *v) { fl_dim(F, f, v->size); for (size_t i = 0; i < v->size; i++) fl_push(F, &v->data[i]); }
static void flatten(int kind, void *model, flat *F) {
  F->nf = NF[kind]; F->nv = 0;
  for (int f = 0; f < F->nf; f++) {
    const fdesc *d = &FT[kind][f]; void *fp = *(void **)((char *)model + d->off);
    F->nd[f] = 0; F->v0[f] = F->nv;
    switch (d->type) {
      case T_MAT: fl_mat(F, f, (matrix *)fp); break;
      case T_VEC: fl_vec(F, f, (dvector *)fp); break;
      case T_TEN: { tensor *t = fp; fl_dim(F, f, t->order); for (size_t k = 0; k < t->order; k++) fl_mat(F, f, t->m[k]); } break;
      case T_VLIST: { dvectorlist *l = fp; fl_dim(F, f, l->size); for (size_t k = 0; k < l->size; k++) fl_vec(F, f, l->d[k]); } break;
    }
    F->v1[f] = F->nv;
  }
}
static uint64_t flat_hash(const flat *F, int bitwise) {
  uint64_t h = 0xC16;
  for (int f = 0; f < F->nf; f++) { h = vx_hash(&F->nd[f], sizeof(int), h); h = vx_hash(F->dim[f], sizeof(size_t) * (size_t)(F->nd[f] < MAXDIM ? F->nd[f] : MAXDIM), h); }
  for (int i = 0; i < F->nv; i++) h = bitwise ? vx_hash(F->ptr[i], sizeof(double), h) : vx_hash_doubles(F->ptr[i], 1, h);
  return h;
}
static void dims_str(const flat *F, int f, char *buf, size_t n) {
  size_t l = 0; buf[0] = 0;
  for (int k = 0; k < F->nd[f] && k < MAXDIM && l + 24 < n; k++) l += (size_t)snprintf(buf + l, n - l, "%s%zu", k ? "," : "", F->dim[f][k]);
  if (F->nd[f] == 0) snprintf(buf, n, "-");
}

/* margins, visible in the run log (C16-MARGINS line): err/allowance of passing and failing comparisons */
static double mg_pass_val = 0, mg_fail_val = INFINITY, mg_pass_pred = 0, mg_fail_pred = INFINITY, mg_failmax_val = 0, mg_failmax_pred = 0;
static long main_pid;
static void mg_flush(void) {
  char fn[200]; snprintf(fn, sizeof fn, "/dev/shm/c16_%ld/w%ld/margins", main_pid, (long)getpid());
  FILE *f = fopen(fn, "w"); if (!f) return;
  fprintf(f, "%.6e %.6e %.6e %.6e %.6e %.6e\n", mg_pass_val, mg_fail_val, mg_pass_pred, mg_fail_pred, mg_failmax_val, mg_failmax_pred); fclose(f);
}
static void mg_note(double ratio, double *pass, double *fail, double *failmax) {
  if (ratio <= 1.0) { if (ratio > *pass) { *pass = ratio; mg_flush(); } }
  else { if (ratio < *fail) { *fail = ratio; mg_flush(); } if (isfinite(ratio) && ratio > *failmax) { *failmax = ratio; mg_flush(); } }
}

/* compare the saved fields of `got` against `want`; returns 1 if equal per the statement; msg describes the first difference */
static int flat_compare(int kind, const flat *want, const flat *got, int unsaved, char *msg, size_t mlen, double *ratio, double *failmax) {
  double worst = 0, worstfail = INFINITY, fmx = 0; int ok = 1; msg[0] = 0;
  for (int f = 0; f < want->nf; f++) {
    if (FT[kind][f].unsaved != unsaved) continue;
    int same = want->nd[f] == got->nd[f];
    for (int k = 0; same && k < want->nd[f] && k < MAXDIM; k++) if (want->dim[f][k] != got->dim[f][k]) same = 0;
    if (!same) {
      char a[300], b[300]; dims_str(want, f, a, sizeof a); dims_str(got, f, b, sizeof b);
      if (ok) snprintf(msg, mlen, "field %s: dimensions read back (%s), written (%s)%s", FT[kind][f].name, b, a, want->v1[f] == want->v0[f] ? " [field was empty]" : "");
      ok = 0; continue;
    }
    for (int i = 0; i < want->v1[f] - want->v0[f]; i++) {
      double w = *want->ptr[want->v0[f] + i], g = *got->ptr[got->v0[f] + i];
      double allow = 1e-15 * fmax(1.0, fabs(w)), err = fabs(g - w);
      if (!(err == err)) err = INFINITY;
      double ratio = err / allow;
      if (ratio > worst) worst = ratio;
      if (ratio > 1.0) {
        if (ok) snprintf(msg, mlen, "field %s number %d: read back %.17g, written %.17g (|diff| %.3g, allowed %.3g)", FT[kind][f].name, i, g, w, err, allow);
        ok = 0; if (ratio < worstfail) worstfail = ratio; if (isfinite(ratio) && ratio > fmx) fmx = ratio;
      }
    }
  }
  if (failmax) *failmax = fmx;
  if (ratio) *ratio = ok ? worst : worstfail;      /* passing: largest ratio; failing on a number: smallest failing ratio (inf if only dimensions differ) */
  return ok;
}

/* ------------------------------------------------------------------ the model alphabet */
#define NMODEL 7
#define NPATH 2
#define MAXPRED 512
typedef struct {
  int kind; const char *name; void *model; flat F; uint64_t h0;
  matrix *probe; tensor *tprobe;
  int np; double pred[MAXPRED], allow[MAXPRED];
} mdl;
static mdl M[NMODEL];

static matrix *gen(int fam, int r, int c, const double *colscale, double offs) {
  static double buf[4096]; vg_fill(fam, r, c, buf);
  matrix *m; NewMatrix(&m, (size_t)r, (size_t)c);
  for (int i = 0; i < r; i++) for (int j = 0; j < c; j++) {
    double v = (buf[i * c + j] + offs) * colscale[j];
    if (fabs(v - 99999999.0) < 1.0 || !isfinite(v)) { fprintf(stderr, "VX-HARNESS-ERROR: C16 generated value collides with the MISSING code\n"); _exit(2); }
    m->data[i][j] = v;
  }
  return m;
}

/* prediction of model `model` (kind k) on the probe of alphabet entry a -> out[], returns count (or -1) */
static int predict(const mdl *a, void *model, double *out) {
  int n = 0;
  if (a->kind == K_PCA) {
    PCAMODEL *m = model; matrix *ps; initMatrix(&ps);
    PCAScorePredictor(a->probe, m, m->loadings->col, ps);
    for (size_t i = 0; i < ps->row; i++) for (size_t j = 0; j < ps->col; j++) { if (n >= MAXPRED) return -1; out[n++] = ps->data[i][j]; }
    DelMatrix(&ps);
  } else if (a->kind == K_PLS) {
    PLSMODEL *m = model; matrix *y; initMatrix(&y);
    PLSYPredictorAllLV(a->probe, m, NULL, y);
    for (size_t i = 0; i < y->row; i++) for (size_t j = 0; j < y->col; j++) { if (n >= MAXPRED) return -1; out[n++] = y->data[i][j]; }
    DelMatrix(&y);
  } else {
    CPCAMODEL *m = model; matrix *ss; tensor *bs;
    if (!a->tprobe) return 0;     /* model without stored averages (scaling -1): the library's projector needs them, nothing to predict */
    initMatrix(&ss); initTensor(&bs);
    CPCAScorePredictor(a->tprobe, m, m->super_scores->col, ss, bs);
    for (size_t i = 0; i < ss->row; i++) for (size_t j = 0; j < ss->col; j++) { if (n >= MAXPRED) return -1; out[n++] = ss->data[i][j]; }
    for (size_t k = 0; k < bs->order; k++) for (size_t i = 0; i < bs->m[k]->row; i++) for (size_t j = 0; j < bs->m[k]->col; j++) { if (n >= MAXPRED) return -1; out[n++] = bs->m[k]->data[i][j]; }
    DelMatrix(&ss); DelTensor(&bs);
  }
  return n;
}

/* Allowance for "predicts the same": the statement lets every stored number v move by d_v = 1e-15*max(1,|v|).
 * First-order forward bound of the prediction under that perturbation: sum_v |pred(M + d_v e_v) - pred(M)|,
 * evaluated by finite differences with the library's own predictor on the in-memory model (each number is
 * perturbed by exactly the allowed amount, one at a time, and restored).  Allowance = 4 x bound + 1e3*eps*max|pred|. */
static void pred_allowance(mdl *a) {
  static double p1[MAXPRED];
  a->np = predict(a, a->model, a->pred);
  if (a->np == 0 && a->kind == K_CPCA && !a->tprobe) return;      /* nothing to predict for this model (see predict()) */
  if (a->np <= 0) { fprintf(stderr, "VX-HARNESS-ERROR: C16 setup: probe prediction of %s has %d numbers\n", a->name, a->np); _exit(2); }
  double mx = 0; for (int j = 0; j < a->np; j++) { a->allow[j] = 0; if (!isfinite(a->pred[j])) { fprintf(stderr, "VX-HARNESS-ERROR: C16 setup: probe prediction of %s not finite\n", a->name); _exit(2); } mx = fmax(mx, fabs(a->pred[j])); }
  for (int i = 0; i < a->F.nv; i++) {
    double v = *a->F.ptr[i], d = 1e-15 * fmax(1.0, fabs(v));
    *a->F.ptr[i] = v + d;
    int n = predict(a, a->model, p1);
    *a->F.ptr[i] = v;
    if (n != a->np) { fprintf(stderr, "VX-HARNESS-ERROR: C16 setup: prediction size changes under perturbation\n"); _exit(2); }
    for (int j = 0; j < n; j++) a->allow[j] += fabs(p1[j] - a->pred[j]);
  }
  for (int j = 0; j < a->np; j++) a->allow[j] = 4 * a->allow[j] + 1e3 * DEPS * mx;
}

static void finish(mdl *a) {
  flatten(a->kind, a->model, &a->F);
  for (int i = 0; i < a->F.nv; i++) if (!isfinite(*a->F.ptr[i])) { fprintf(stderr, "VX-HARNESS-ERROR: C16 setup: model %s holds a non-finite number (field index lookup %d); io.c cannot print it\n", a->name, i); _exit(2); }
  /* two non-empty fields of one model must not hold the same content, or exchanging them would be invisible */
  for (int f = 0; f < a->F.nf; f++) for (int g = f + 1; g < a->F.nf; g++) {
    int n = a->F.v1[f] - a->F.v0[f]; if (n == 0 || n != a->F.v1[g] - a->F.v0[g] || FT[a->kind][f].type != FT[a->kind][g].type) continue;
    int same = a->F.nd[f] == a->F.nd[g]; for (int k = 0; same && k < a->F.nd[f] && k < MAXDIM; k++) if (a->F.dim[f][k] != a->F.dim[g][k]) same = 0;
    for (int i = 0; same && i < n; i++) if (*a->F.ptr[a->F.v0[f] + i] != *a->F.ptr[a->F.v0[g] + i]) same = 0;
    if (same) { fprintf(stderr, "VX-HARNESS-ERROR: C16 setup: model %s: fields %s and %s hold identical content\n", a->name, FT[a->kind][f].name, FT[a->kind][g].name); _exit(2); }
  }
  pred_allowance(a);
  a->h0 = flat_hash(&a->F, 1);
}

static void build_models(void) {
  /* 0: PCA small, raw data (scaling -1: colaverage and colscaling stay EMPTY), 4x2, 1 pc, values ~1e9 */
  { static const double cs[2] = {1e9, 3e8};
    matrix *x = gen(1, 4, 2, cs, 0.7); PCAMODEL *m; NewPCAModel(&m); PCA(x, -1, 1, m, NULL);
    M[0] = (mdl){ .kind = K_PCA, .name = "PCA-small(4x2,npc1,raw,1e9)", .model = m, .probe = gen(11, 3, 2, cs, 0.7) }; DelMatrix(&x); }
  /* 1: PCA large, autoscaled, 7x4, 3 pc, column scales 1e-9, 1, 1e3, -2e10 (stored average about -6e9: a negative number with
   *    ten integer digits, wider than the missing-value code) */
  { static const double cs[4] = {1e-9, 1.0, 1e3, -2e10};
    matrix *x = gen(2, 7, 4, cs, 0.3); PCAMODEL *m; NewPCAModel(&m); PCA(x, 1, 3, m, NULL);
    M[1] = (mdl){ .kind = K_PCA, .name = "PCA-large(7x4,npc3,autoscaled,1e-9..-2e10)", .model = m, .probe = gen(12, 3, 4, cs, 0.3) }; DelMatrix(&x); }
  /* 2: PLS small, ny=1, nlv=1, x centred only, y of size 1e-9; every optional (validation) field stays empty */
  { static const double cs[3] = {1.0, 1e3, 1e-3}, ys[1] = {1e-9};
    matrix *x = gen(3, 6, 3, cs, 0.2), *y = gen(4, 6, 1, ys, 0.1); PLSMODEL *m; NewPLSModel(&m); PLS(x, y, 1, 0, 0, m, NULL);
    M[2] = (mdl){ .kind = K_PLS, .name = "PLS-small(6x3,ny1,nlv1,optional-empty,y~1e-9)", .model = m, .probe = gen(13, 3, 3, cs, 0.2) }; DelMatrix(&x); DelMatrix(&y); }
  /* 3: PLS large, ny=2, nlv=2, autoscaled, validation/statistics fields filled by the library's own routines */
  { static const double cs[4] = {1e9, 1.0, 1e-9, 1e4}, ys[2] = {1e6, 1.0};
    matrix *x = gen(5, 8, 4, cs, 0.4), *y = gen(6, 8, 2, ys, 0.25); PLSMODEL *m; NewPLSModel(&m); PLS(x, y, 2, 1, 1, m, NULL);
    /* "validation" predictions: the model applied to a perturbed copy of x, so that no validation field
     * equals its recalculated twin (a swap of two tables must be visible) */
    matrix *xv = gen(23, 8, 4, cs, 0.4); for (size_t i = 0; i < x->row; i++) for (size_t j = 0; j < x->col; j++) xv->data[i][j] = x->data[i][j] + 0.15 * (xv->data[i][j] - x->data[i][j]);
    PLSYPredictorAllLV(xv, m, NULL, m->predicted_y); DelMatrix(&xv);
    ResizeMatrix(m->pred_residuals, m->predicted_y->row, m->predicted_y->col);
    for (size_t i = 0; i < y->row; i++) for (size_t j = 0; j < m->predicted_y->col; j++) m->pred_residuals->data[i][j] = y->data[i][j % y->col] - m->predicted_y->data[i][j];
    PLSRegressionStatistics(y, m->recalculated_y, m->r2y_recalculated, m->sdec, NULL);
    PLSRegressionStatistics(y, m->predicted_y, m->q2y, m->sdep, m->bias);
    { matrix *xw = gen(24, 8, 4, cs, 0.4), *pw; initMatrix(&pw);   /* a second perturbed prediction for r2y_validation */
      for (size_t i = 0; i < x->row; i++) for (size_t j = 0; j < x->col; j++) xw->data[i][j] = x->data[i][j] + 0.3 * (xw->data[i][j] - x->data[i][j]);
      PLSYPredictorAllLV(xw, m, NULL, pw); PLSRegressionStatistics(y, pw, m->r2y_validation, NULL, NULL); DelMatrix(&xw); DelMatrix(&pw); }
    matrix *yb; NewMatrix(&yb, y->row, y->col);
    for (size_t j = 0; j < y->col; j++) { double mu = 0; for (size_t i = 0; i < y->row; i++) mu += y->data[i][j] / (double)y->row; for (size_t i = 0; i < y->row; i++) yb->data[i][j] = y->data[i][j] > mu ? 1.0 : 0.0; }
    PLSDiscriminantAnalysisStatistics(yb, m->recalculated_y, m->roc_recalculated, m->roc_auc_recalculated, m->precision_recall_recalculated, m->precision_recall_ap_recalculated);
    PLSDiscriminantAnalysisStatistics(yb, m->predicted_y, m->roc_validation, m->roc_auc_validation, m->precision_recall_validation, m->precision_recall_ap_validation);
    /* y-scrambling table: synthetic numbers (the routine needs threads and the RNG; for io.c it is just a matrix) */
    static const double sc3[3] = {1.0, 1.0, 1.0}; matrix *ysc = gen(7, 5, 3, sc3, 0.5); MatrixCopy(ysc, &m->yscrambling); DelMatrix(&ysc);
    M[3] = (mdl){ .kind = K_PLS, .name = "PLS-large(8x4,ny2,nlv2,optional-filled,1e-9..1e9)", .model = m, .probe = gen(14, 3, 4, cs, 0.4) }; DelMatrix(&x); DelMatrix(&y); DelMatrix(&yb); }
  /* 4: CPCA, 2 blocks (6x3, 6x2), autoscaled, 2 pc */
  { static const double c0[3] = {1.0, 1e9, 1e3}, c1[2] = {1e-9, 1e6};
    tensor *t, *p; NewTensor(&t, 2); NewTensor(&p, 2);
    matrix *a = gen(8, 6, 3, c0, 0.3), *b = gen(9, 6, 2, c1, 0.3), *pa = gen(15, 3, 3, c0, 0.3), *pb = gen(16, 3, 2, c1, 0.3);
    NewTensorMatrix(t, 0, 6, 3); NewTensorMatrix(t, 1, 6, 2); NewTensorMatrix(p, 0, 3, 3); NewTensorMatrix(p, 1, 3, 2);
    MatrixCopy(a, &t->m[0]); MatrixCopy(b, &t->m[1]); MatrixCopy(pa, &p->m[0]); MatrixCopy(pb, &p->m[1]);
    CPCAMODEL *m; NewCPCAModel(&m); CPCA(t, 1, 2, m);
    M[4] = (mdl){ .kind = K_CPCA, .name = "CPCA-2blocks(6x3|6x2,npc2,autoscaled)", .model = m, .tprobe = p }; DelTensor(&t); DelMatrix(&a); DelMatrix(&b); DelMatrix(&pa); DelMatrix(&pb); }
  /* 5: CPCA, 3 blocks (7x2, 7x3, 7x2), centred only, 2 pc */
  { static const double c0[2] = {1e3, 2e3}, c1[3] = {1.0, 0.5, 2.0}, c2[2] = {1e-3, 3e-3};
    tensor *t, *p; NewTensor(&t, 3); NewTensor(&p, 3);
    matrix *a = gen(17, 7, 2, c0, 0.3), *b = gen(18, 7, 3, c1, 0.3), *c = gen(19, 7, 2, c2, 0.3), *pa = gen(20, 3, 2, c0, 0.3), *pb = gen(21, 3, 3, c1, 0.3), *pc = gen(22, 3, 2, c2, 0.3);
    NewTensorMatrix(t, 0, 7, 2); NewTensorMatrix(t, 1, 7, 3); NewTensorMatrix(t, 2, 7, 2); NewTensorMatrix(p, 0, 3, 2); NewTensorMatrix(p, 1, 3, 3); NewTensorMatrix(p, 2, 3, 2);
    MatrixCopy(a, &t->m[0]); MatrixCopy(b, &t->m[1]); MatrixCopy(c, &t->m[2]); MatrixCopy(pa, &p->m[0]); MatrixCopy(pb, &p->m[1]); MatrixCopy(pc, &p->m[2]);
    CPCAMODEL *m; NewCPCAModel(&m); CPCA(t, 0, 2, m);
    M[5] = (mdl){ .kind = K_CPCA, .name = "CPCA-3blocks(7x2|7x3|7x2,npc2,centred)", .model = m, .tprobe = p }; DelTensor(&t); DelMatrix(&a); DelMatrix(&b); DelMatrix(&c); DelMatrix(&pa); DelMatrix(&pb); DelMatrix(&pc); }
  /* 6: CPCA, 2 blocks (5x2, 5x3), raw data (scaling -1: the colaverage / colscaling lists hold EMPTY vectors), 1 pc */
  { static const double c0[2] = {2.0, 30.0}, c1[3] = {1e-2, 1.0, 5.0};
    tensor *t; NewTensor(&t, 2);
    matrix *a = gen(23, 5, 2, c0, 0.3), *b = gen(24, 5, 3, c1, 0.3);
    NewTensorMatrix(t, 0, 5, 2); NewTensorMatrix(t, 1, 5, 3); MatrixCopy(a, &t->m[0]); MatrixCopy(b, &t->m[1]);
    CPCAMODEL *m; NewCPCAModel(&m); CPCA(t, -1, 1, m);
    M[6] = (mdl){ .kind = K_CPCA, .name = "CPCA-2blocks(5x2|5x3,npc1,raw:empty-average-vectors)", .model = m, .tprobe = NULL }; DelTensor(&t); DelMatrix(&a); DelMatrix(&b); }
  for (int i = 0; i < NMODEL; i++) finish(&M[i]);
}

/* ------------------------------------------------------------------ files */
static char PATHS[NPATH][200];
static uint64_t file_hash(const char *p) {
  FILE *f = fopen(p, "rb"); if (!f) return 0x0AB5E47;   /* absent */
  uint64_t h = 1; static unsigned char buf[65536]; size_t n;
  while ((n = fread(buf, 1, sizeof buf, f)) > 0) h = vx_hash(buf, n, h);
  fclose(f); return h;
}
/* one directory per worker process: sqlite creates and deletes a journal file per INSERT, and 16 workers
 * doing that in one tmpfs directory serialise on its lock */
static void set_paths(void) {
  char d[200]; snprintf(d, sizeof d, "/dev/shm/c16_%ld", main_pid); mkdir(d, 0700);
  snprintf(d, sizeof d, "/dev/shm/c16_%ld/w%ld", main_pid, (long)getpid()); mkdir(d, 0700);
  for (int k = 0; k < NPATH; k++) snprintf(PATHS[k], sizeof PATHS[k], "%s/p%d.sqlite3", d, k);
}
static void wipe_paths(void) { for (int k = 0; k < NPATH; k++) { char j[260]; unlink(PATHS[k]); snprintf(j, sizeof j, "%s-journal", PATHS[k]); unlink(j); } }

static int shares_table(int ka, int kb) { return ka == kb || (ka != K_PLS && kb != K_PLS); }

static void do_write(int kind, char *path, void *m) { if (kind == K_PCA) WritePCA(path, m); else if (kind == K_PLS) WritePLS(path, m); else WriteCPCA(path, m); }
static void *do_read(int kind, char *path) {
  if (kind == K_PCA) { PCAMODEL *m; NewPCAModel(&m); ReadPCA(path, m); return m; }
  if (kind == K_PLS) { PLSMODEL *m; NewPLSModel(&m); ReadPLS(path, m); return m; }
  CPCAMODEL *m; NewCPCAModel(&m); ReadCPCA(path, m); return m;
}
static void do_del(int kind, void *m) { if (kind == K_PCA) { PCAMODEL *p = m; DelPCAModel(&p); } else if (kind == K_PLS) { PLSMODEL *p = m; DelPLSModel(&p); } else { CPCAMODEL *p = m; DelCPCAModel(&p); } }

/* ------------------------------------------------------------------ the library calls, in their own process
 * The Write + Read + Predict calls of a history run in a forked child: a crash, abort(), allocation bomb or
 * endless loop of the library ends the child only; the parent (the engine's worker) attributes it to the call
 * and the input class (key died|<call>|<class>) and lets a fresh child continue the history after that step
 * (the files are on disk, the models are pristine in the parent).  The child reports through a pipe: one stage
 * byte before each library call ('W','R','P'), then 'F' + the judgement of the step.  At most 5 steps x 1.1 kB,
 * far below the pipe capacity, so the child never blocks.  waitpid is declared by hand: <sys/wait.h> pulls in
 * <signal.h>, which clashes with the library's `ssignal` typedef. */
extern int waitpid(int pid, int *status, int options);
typedef struct {
  int mutated, other_changed, ok, has2, ok2, pred_done, pred_n, wj;
  double val_ratio, val_failmax, pred_ratio, pv, sv, av;
  uint64_t fh, gh;
  char msg[700], msg2[300];
} stepres;

static void put(int fd, const void *p, size_t n) { if (write(fd, p, n) != (ssize_t)n) _exit(3); }

static void step_in_child(int fd, mdl *a, int p) {
  static flat G; static double pr[MAXPRED]; static stepres R;
  int kind = a->kind;
  memset(&R, 0, sizeof R);
  uint64_t other_before = file_hash(PATHS[1 - p]);
  put(fd, "W", 1); alloc_used = 0; ticks_ = 0;
  do_write(kind, PATHS[p], a->model);
  R.fh = file_hash(PATHS[p]);
  flatten(kind, a->model, &G);
  R.mutated = flat_hash(&G, 1) != a->h0;
  R.other_changed = file_hash(PATHS[1 - p]) != other_before;
  put(fd, "R", 1); alloc_used = 0; ticks_ = 0;
  void *r = do_read(kind, PATHS[p]);
  flatten(kind, r, &G);
  R.ok = flat_compare(kind, &a->F, &G, 0, R.msg, sizeof R.msg, &R.val_ratio, &R.val_failmax);
  R.gh = flat_hash(&G, 0);
  if (kind == K_PCA) { R.has2 = 1; R.ok2 = flat_compare(kind, &a->F, &G, 1, R.msg2, sizeof R.msg2, NULL, NULL); }
  if (R.ok) {
    put(fd, "P", 1); alloc_used = 0; ticks_ = 0;
    int n = predict(a, r, pr);
    R.pred_done = 1; R.pred_n = n; R.pred_ratio = n == a->np ? 0 : INFINITY;
    for (int j = 0; j < n && n == a->np; j++) { double e = fabs(pr[j] - a->pred[j]); if (!(e == e)) e = INFINITY; if (e / a->allow[j] > R.pred_ratio) { R.pred_ratio = e / a->allow[j]; R.wj = j; } }
    R.pv = n == a->np ? pr[R.wj] : NAN; R.sv = a->pred[R.wj]; R.av = a->allow[R.wj];
  }
  do_del(kind, r);
  put(fd, "F", 1); put(fd, &R, sizeof R);
}

#define MAXLEN 5
/* runs steps from..len-1 in one child; fills res[]/stage[] for the steps it got through; returns the number of
 * steps completed (judgement received); *status = wait status of the child */
static int run_steps(int from, int len, const int *mi, const int *pp, stepres *res, char *last_stage, int *status) {
  int fds[2];
  if (pipe(fds) != 0) { fprintf(stderr, "VX-HARNESS-ERROR: C16 pipe failed\n"); _exit(2); }
  fflush(NULL);
  int pid = fork();
  if (pid < 0) { fprintf(stderr, "VX-HARNESS-ERROR: C16 fork failed\n"); _exit(2); }
  if (pid == 0) { close(fds[0]); for (int s = from; s < len; s++) step_in_child(fds[1], &M[mi[s]], pp[s]); _exit(0); }
  close(fds[1]);
  static unsigned char buf[MAXLEN * (sizeof(stepres) + 8)]; size_t n = 0, i = 0; ssize_t k;
  while (n < sizeof buf && (k = read(fds[0], buf + n, sizeof buf - n)) > 0) n += (size_t)k;
  close(fds[0]);
  waitpid(pid, status, 0);
  int done = 0; *last_stage = '?';
  while (i < n) {
    unsigned char c = buf[i++];
    if (c == 'F') { if (n - i < sizeof(stepres)) break; memcpy(&res[from + done], buf + i, sizeof(stepres)); i += sizeof(stepres); done++; *last_stage = '?'; }
    else *last_stage = (char)c;
  }
  return done;
}

/* ------------------------------------------------------------------ one history */
static void body(void) {
  static stepres RES[MAXLEN];
  in_setup = 0;
  /* quick: lengths 1..3; thorough: 1..4 over the full alphabet plus length 5 (the statement's bound) over
   * one small model per kind (PCA-small, PLS-small, CPCA-2blocks) x 2 paths = 6^5 histories */
  static const int SUB[3] = {0, 2, 4};
  int L = vx_thorough() ? 5 : 3;
  int len = 1 + vx_choose("len-1", L);
  int sub = len == 5;
  int mi[MAXLEN], pp[MAXLEN], nprev[MAXLEN]; const char *cls[MAXLEN];
  int hist[NPATH][MAXLEN], nh[NPATH] = {0, 0};
  for (int s = 0; s < len; s++) {
    char lab[16]; snprintf(lab, sizeof lab, "write%d", s);
    int op = vx_choose(lab, sub ? 3 * NPATH : NMODEL * NPATH);
    mi[s] = sub ? SUB[op % 3] : op % NMODEL; pp[s] = sub ? op / 3 : op / NMODEL;
    /* class of this write, from the history of the path */
    int p = pp[s], kind = M[mi[s]].kind, shared = 0, differs = 0;
    for (int q = 0; q < nh[p]; q++) if (shares_table(M[hist[p][q]].kind, kind)) { shared = 1; if (hist[p][q] != mi[s]) differs = 1; }
    cls[s] = nh[p] == 0 ? "first-write" : !shared ? "writes>=2,no-shared-table" : differs ? "writes>=2,prev-differs" : "writes>=2,prev-same-model";
    nprev[s] = nh[p]; hist[p][nh[p]++] = mi[s];
  }
  set_paths(); wipe_paths();
  uint64_t oh = 0x16;
  int s = 0;
  while (s < len) {
    int st; char stage; int from = s;
    int done = run_steps(from, len, mi, pp, RES, &stage, &st);
    for (; s < from + done; s++) {
      mdl *a = &M[mi[s]]; int kind = a->kind, p = pp[s]; stepres *R = &RES[s]; char key[120];
      vx_log("step %d: Write%s(%s, path %d)  [%s]\n", s, KN[kind], a->name, p, cls[s]);
      vx_transition(R->pred_done ? 3 : 2);
      oh = vx_hash(&R->fh, sizeof R->fh, oh); vx_outcome(oh);                 /* observed: the bytes written */
      snprintf(key, sizeof key, "write-mutates|Write%s", KN[kind]);
      vx_check(!R->mutated, key, "step %d: the in-memory model %s changed while it was written", s, a->name);
      snprintf(key, sizeof key, "other-path|Write%s", KN[kind]);
      vx_check(!R->other_changed, key, "step %d: writing path %d changed the file of path %d", s, p, 1 - p);
      snprintf(key, sizeof key, "readback|%s|%s", KN[kind], cls[s]);
      vx_check(R->ok, key, "step %d of %d, Write%s(%s) to path %d after %d earlier write(s) to it, then Read%s: %s", s + 1, len, KN[kind], a->name, p, nprev[s], KN[kind], R->msg);
      if (!R->ok) vx_log("  readback differs: %s\n", R->msg);
      mg_note(R->val_ratio, &mg_pass_val, &mg_fail_val, &mg_failmax_val); if (R->val_failmax > 1.0) mg_note(R->val_failmax, &mg_pass_val, &mg_fail_val, &mg_failmax_val);
      if (R->has2) vx_check(R->ok2, "unsaved-field|PCA|dmodx", "Write/ReadPCA(%s): %s (WritePCA stores no dmodx table)", a->name, R->msg2);
      if (R->pred_done) {
        mg_note(R->pred_ratio, &mg_pass_pred, &mg_fail_pred, &mg_failmax_pred);
        snprintf(key, sizeof key, "predict|%s|%s", KN[kind], cls[s]);
        vx_check(R->pred_ratio <= 1.0, key, "step %d: prediction of the model read back (%s) differs: %d numbers (expected %d), element %d is %.17g, the saved model gives %.17g (allowed %.3g)", s, a->name, R->pred_n, a->np, R->wj, R->pv, R->sv, R->av);
      }
      oh = vx_hash(&R->ok, sizeof R->ok, R->gh ^ oh);
      vx_outcome(oh);                  /* what was read back */
    }
    if (s >= len) {
      if (st != 0) { fprintf(stderr, "VX-HARNESS-ERROR: C16 step process ended with status %d after its last step\n", st); _exit(2); }
      break;
    }
    /* the child ended inside step s */
    mdl *a = &M[mi[s]]; int kind = a->kind, p = pp[s]; char key[120];
    const char *call = stage == 'W' ? "Write" : stage == 'R' ? "Read" : stage == 'P' ? "Predict" : "step";
    int sig = st & 0x7f, code = (st >> 8) & 0xff;
    vx_log("step %d: Write%s(%s, path %d)  [%s]: process ended in %s (status %d)\n", s, KN[kind], a->name, p, cls[s], call, st);
    if (stage == '?' || (sig == 0 && (code == 3 || code == 0))) { fprintf(stderr, "VX-HARNESS-ERROR: C16 step process failed outside a library call (stage %c, status %d)\n", stage, st); _exit(2); }
    vx_transition(stage == 'W' ? 1 : stage == 'R' ? 2 : 3);
    if (sig == 0 && code == EXIT_ALLOC) {
      snprintf(key, sizeof key, "alloc|%s%s|%s", call, KN[kind], cls[s]);
      vx_check(0, key, "step %d of %d, %s%s(%s) on path %d after %d earlier write(s): the call asks for more than %ld MB of memory -- a dimension is taken from the wrong place", s + 1, len, call, KN[kind], a->name, p, nprev[s], ALLOC_BUDGET >> 20);
    } else if (sig == 0 && code == EXIT_NONTERM) {
      snprintf(key, sizeof key, "nonterm|%s%s|%s", call, KN[kind], cls[s]);
      vx_check(0, key, "step %d of %d, %s%s(%s): iteration ceiling exceeded", s + 1, len, call, KN[kind], a->name);
    } else {
      snprintf(key, sizeof key, "died|%s%s|%s", call, KN[kind], cls[s]);
      vx_check(0, key, "step %d of %d, %s%s(%s) on path %d after %d earlier write(s) to it ended the process (%s %d; sanitizer report, if any, in the log)", s + 1, len, call, KN[kind], a->name, p, nprev[s], sig ? "signal" : "exit code", sig ? sig : code);
    }
    oh = vx_hash(&stage, 1, oh); vx_outcome(oh);
    if (stage == 'W') break;              /* the file may be half written: the rest of this history is not judged */
    s++;                                  /* a fresh process continues after the step that died */
  }
  wipe_paths();
}

/* remove /dev/shm/c16_<pid>/ (two levels); optionally collect the workers' margin files first */
static void rm_tree(long pid, double *mg) {
  char pat[200]; glob_t g;
  snprintf(pat, sizeof pat, "/dev/shm/c16_%ld/*/*", pid);
  if (glob(pat, 0, NULL, &g) == 0) {
    for (size_t i = 0; i < g.gl_pathc; i++) {
      size_t l = strlen(g.gl_pathv[i]);
      if (mg && l > 8 && strcmp(g.gl_pathv[i] + l - 8, "/margins") == 0) {
        FILE *f = fopen(g.gl_pathv[i], "r"); double w, x, y, z, u, v;
        if (f) { if (fscanf(f, "%lf %lf %lf %lf %lf %lf", &w, &x, &y, &z, &u, &v) == 6) { mg[0] = fmax(mg[0], w); mg[1] = fmin(mg[1], x); mg[2] = fmax(mg[2], y); mg[3] = fmin(mg[3], z); mg[4] = fmax(mg[4], u); mg[5] = fmax(mg[5], v); } fclose(f); }
      }
      unlink(g.gl_pathv[i]);
    }
    globfree(&g);
  }
  snprintf(pat, sizeof pat, "/dev/shm/c16_%ld/*", pid);
  if (glob(pat, 0, NULL, &g) == 0) { for (size_t i = 0; i < g.gl_pathc; i++) rmdir(g.gl_pathv[i]); globfree(&g); }
  snprintf(pat, sizeof pat, "/dev/shm/c16_%ld", pid); rmdir(pat);
}
/* trees left by a run whose process died (a replayed crash ends in the sanitizer, not here) */
static void sweep_stale(void) {
  glob_t g;
  if (glob("/dev/shm/c16_*", 0, NULL, &g) != 0) return;
  for (size_t i = 0; i < g.gl_pathc; i++) {
    long pid = atol(g.gl_pathv[i] + strlen("/dev/shm/c16_")); char pr[64]; snprintf(pr, sizeof pr, "/proc/%ld", pid);
    if (pid > 0 && access(pr, F_OK) != 0) rm_tree(pid, NULL);
  }
  globfree(&g);
}
/* the sanitizer runtime calls this before it reports and ends the process: a replayed crash leaves no files */
void __asan_on_error(void) { if (vx_replaying() && main_pid == (long)getpid()) rm_tree(main_pid, NULL); }

static void cleanup_and_margins(void) {
  double mg[6] = {0, INFINITY, 0, INFINITY, 0, 0};
  rm_tree(main_pid, mg);
  fprintf(stderr, "C16-MARGINS: numbers: largest passing |diff|/allowance = %.3g, failing from %.3g to %.3g; predictions: largest passing = %.3g, failing from %.3g to %.3g (inf/0 = none)\n", mg[0], mg[1], mg[4], mg[2], mg[3], mg[5]);
}

int main(int argc, char **argv) {
  vg_seed(getenv("VERIF_SEED") ? atol(getenv("VERIF_SEED")) : 0);
  main_pid = (long)getpid();
  sweep_stale();
  /* the library chatters on stdout while fitting */
  fflush(stdout); int so = dup(1); if (freopen("/dev/null", "w", stdout) == NULL) { /* keep going */ }
  build_models();
  fflush(stdout); dup2(so, 1); close(so);
  in_setup = 0;
  char names[600] = ""; size_t l = 0; int tot = 0;
  for (int i = 0; i < NMODEL; i++) { l += (size_t)snprintf(names + l, sizeof names - l, "%s%s[%d numbers]", i ? "; " : "", M[i].name, M[i].F.nv); tot += M[i].F.nv; }
  vx_describe("alphabet", "operations Write(model, path) for 6 models x 2 paths on /dev/shm, each followed by Read of the kind written; models: %s", names);
  vx_describe("enumeration", "all write sequences of length 1..3 (quick: 12+144+1728) / 1..4 (thorough: +20736) over 6 models x 2 paths, thorough also all 6^5=7776 sequences of length 5 over one small model per kind x 2 paths; every step judged");
  vx_describe("oracle", "reference = the in-memory model last written to the path: same dimension signature of every field, every number within 1e-15*max(1,|v|), empty fields empty; same probe prediction (allowance = 4 x first-order propagation of the per-number allowance); deep bitwise hash of the written model unchanged; bytes of the other path's file unchanged");
  vx_set_shard_depth(3);
  vx_expect_outcomes(12);   /* thousands on a healthy tree; low bound because a crashing reader lets a history observe little */
  int rc = vx_main(argc, argv, "C16", body);
  cleanup_and_margins();
  return rc;
}
