/* C17 -- object selection (MDC, MaxDis, MaxDis_Fast, k-means++ seeding) and k-means return valid,
 * optimal-by-construction results that do not depend on the thread count.
 *
 * Enumerated: data sets n in {3,4,5,8,13,30,80} x d in {1,2,3,6} from the general-position families,
 * EVERY selection size 1..n, the three metrics, thread counts {1,2,3,8} (thorough: 1..8), k-means with
 * k = 1..min(6,n), the four initialisers (random ones after srand_(s)), two data scales.
 * Oracles, each the sentence of the statement it implements:
 *   selection-valid      requested number of distinct in-range indices               (all four methods)
 *   maxdis-first         first element is the object farthest from the centroid      (long double; ties accepted)
 *   maxdis-greedy        every further element maximises the minimum library-metric value to those
 *                        already chosen                                              (long double; ties accepted)
 *   maxdis-vs-fast       MaxDis and MaxDis_Fast return the same sequence             (judged when no step was a near-tie)
 *   labels-range         k-means labels every object with a cluster < k
 *   centroid-mean        each returned centroid is the mean of the objects carrying its label (non-empty clusters)
 *   nearest-centroid     d(x, own centroid) <= min_c d(x, c) + 2 sqrt(d) 1e-3 for runs that stopped before the
 *                        100-iteration cap (the documented stopping rule compares centroids to 1e-3 per coordinate);
 *                        capped runs only if the labels are not even nearest w.r.t. the centroids they were computed from
 *   thread-independence  selections / labels / centroids equal those of the 1-thread run
 *   race                 (ThreadSanitizer build) no TSan report while the routine runs */
#include "hcommon.h"
#include "metricspace.h"
#include "clustering.h"
#include <unistd.h>

#if defined(__SANITIZE_THREAD__)
#define H_TSAN 1
#elif defined(__has_feature)
#if __has_feature(thread_sanitizer)
#define H_TSAN 1
#endif
#endif
#ifndef H_TSAN
#define H_TSAN 0
#endif

/* ------------------------------------------------------------------ seams */
/* KMeans copies the centroid matrix twice per iteration (KMeans: centroids -> oldcentroids, getCentroids:
 * new -> centroids) and nowhere else, through a call that crosses translation units: the count tells
 * whether the run stopped by convergence or by the 100-iteration cap, which the API does not report. */
void __real_MatrixCopy(matrix *src, matrix **dst);
static long g_copies = 0;
/* the first copy of every iteration saves the centroids the labelling step is about to use: kept (<= 6 x 6) so that a run
 * that ends at the iteration cap can still be judged against the centroids its labels were computed from */
static double g_lastO[6][6]; static int g_lastO_r = 0, g_lastO_c = 0;
void __wrap_MatrixCopy(matrix *src, matrix **dst) {
  g_copies++;
  if ((g_copies & 1) && src && src->row <= 6 && src->col <= 6) { g_lastO_r = (int)src->row; g_lastO_c = (int)src->col; for (size_t i = 0; i < src->row; i++) for (size_t j = 0; j < src->col; j++) g_lastO[i][j] = src->data[i][j]; }
  __real_MatrixCopy(src, dst);
}
/* RNG draws are made by the calling thread only (KMeans initialiser 0, getCentroids, KMeansppCenters): tick */
static char g_tick[160] = "nonterm|?";
int __real_randInt(int low, int high);
double __real_randDouble(double low, double high);
int __wrap_randInt(int low, int high) { vx_tick(g_tick); return __real_randInt(low, high); }
/* KMeansppCenters hands the cumulative squared distances (B, A] of its internal distance vector to randDouble: the only
 * place where the result of its sliced distance worker can be observed (the stream is observed, never altered) */
static uint64_t g_draw_hash = 0;
double __wrap_randDouble(double low, double high) { vx_tick(g_tick); double a[2] = {low, high}; g_draw_hash = vx_hash_doubles(a, 2, g_draw_hash); return __real_randDouble(low, high); }

/* ------------------------------------------------------------------ ThreadSanitizer report hook (see h_C13.c / notes) */
static volatile int g_race = 0; static char g_race_desc[48];
#if H_TSAN
int __tsan_get_report_data(void *report, const char **description, int *count, int *stack_count, int *mop_count, int *loc_count,
                           int *mutex_count, int *thread_count, int *unique_tid_count, void **sleep_trace, unsigned long trace_size);
__attribute__((no_sanitize("thread"))) void __tsan_on_report(void *rep) {
  const char *d = 0; int c, sc, mc, lc, mu, tc, ut; void *sl[1];
  __tsan_get_report_data(rep, &d, &c, &sc, &mc, &lc, &mu, &tc, &ut, sl, 1);
  if (!d || d[0] != 'd' || d[1] != 'a' || d[2] != 't' || d[3] != 'a' || d[4] != '-' || d[5] != 'r') return;   /* data races only, see h_C13.c */
  if (!g_race) { int i = 0; for (; d[i] && i < (int)sizeof g_race_desc - 1; i++) g_race_desc[i] = d[i] == ' ' ? '-' : d[i]; g_race_desc[i] = 0; }
  g_race++;
}
/* The driver exports TSAN_OPTIONS=halt_on_error=1:exitcode=66 (a report kills the worker and the engine files it as
 * crash|tsan:<kind>|<innermost library frame>, without the input class).  This harness wants the class in the key and the
 * other oracles evaluated on the same execution, so the TSan build re-executes itself once with options appended (later
 * values win): keep running after a report (the hook above hands it to the oracle), do not fold the exit status, and do not
 * suppress a race whose stacks/addresses equal an earlier one (that suppression is per PROCESS and would hide the race in
 * every execution of a worker after the first).  If the exec fails the engine's crash attribution still applies. */
static void tsan_reexec(char **argv) {
  if (getenv("H_TSAN_REEXEC")) return;
  const char *o = getenv("TSAN_OPTIONS"); char buf[1200];
  snprintf(buf, sizeof buf, "%s%shalt_on_error=0:exitcode=0:suppress_equal_stacks=0:suppress_equal_addresses=0:report_thread_leaks=0:history_size=4", o ? o : "", o && *o ? ":" : "");
  setenv("TSAN_OPTIONS", buf, 1); setenv("H_TSAN_REEXEC", "1", 1);
  execv("/proc/self/exe", argv);
}
#endif
/* The ThreadSanitizer build judges ONLY the race oracle.  Its inputs are a subset of what the ASan build judges with every
 * other oracle, and behaviour after an out-of-range slice is not reproducible without ASan's redzones (heap reuse differs
 * between a long-lived worker and a fresh replay process), which would turn a genuine finding into a replay divergence. */
#define JUDGE(ok, ...) vx_check(H_TSAN ? 1 : (ok), __VA_ARGS__)
static void race_reset(void) { g_race = 0; g_race_desc[0] = 0; }
static void race_check(const char *fn, const char *cl) {
  if (!H_TSAN) return;
  char key[200]; snprintf(key, sizeof key, "race|tsan:%s|%s|%s", g_race ? g_race_desc : "none", fn, cl);
  vx_check(g_race == 0, key, "ThreadSanitizer reported %d %s report(s) while %s ran (stacks: worker stderr / replay)", g_race, g_race_desc, fn);
  race_reset();
}

/* ------------------------------------------------------------------ alphabet */
static const int NS[] = {3, 4, 5, 8, 13, 30, 80}, DS[] = {1, 2, 3, 6};
static const int TH_Q[] = {1, 2, 3, 8};
/* selection enumerates EVERY size 1..n, so n = 80 (80 sizes, up to 8 threads per greedy step) is left to the thorough tier there */
static int pick_n(int selection) { if (H_TSAN) { static const int t[] = {3, 5, 13}; return t[vx_choose("n", 3)]; } return NS[vx_choose("n", selection && !vx_thorough() ? 6 : 7)]; }
static int pick_d(void) { if (H_TSAN) return vx_choose("d", 2) ? 3 : 1; return DS[vx_choose("d", 4)]; }
static int pick_fam(void) { return vx_choose("fam", H_TSAN ? 1 : vx_thorough() ? 2 : 1); }
/* thorough: every count 1..8, except for the 80-object selections (80 sizes each), which keep {1,2,3,8} */
static int pick_th(int heavy) { if (H_TSAN) { static const int t[] = {2, 3, 8}; return t[vx_choose("threads", 3)]; } return vx_thorough() && !heavy ? 1 + vx_choose("threads-1", 8) : TH_Q[vx_choose("threads", 4)]; }
static matrix *gen(int fam, int r, int c, double scale) {
  double *b = malloc(sizeof(double) * (size_t)(r * c + 1)); vg_fill(fam, r, c, b);
  for (int i = 0; i < r * c; i++) b[i] *= scale;
  matrix *m = hm_new(r, c, b); free(b); return m;
}
static const char *thcls(int n, int th) { return th == 1 ? "threads=1" : n < th ? "rows<threads" : n % th == 0 ? "rows%threads=0" : "rows%threads!=0"; }
static const char *MET[3] = {"euclidean", "manhattan", "cosine"};

/* the value the library's selection routines call "distance" for metric 0/1/2 (2 is the cosine of the angle) */
static ld ref_metric(int metric, const double *a, const double *b, int c) {
  ld s = 0, da = 0, db = 0;
  if (metric == 0) { for (int j = 0; j < c; j++) s += ((ld)a[j] - b[j]) * ((ld)a[j] - b[j]); return sqrtl(s); }
  if (metric == 1) { for (int j = 0; j < c; j++) s += fabsl((ld)a[j] - b[j]); return s; }
  for (int j = 0; j < c; j++) { s += (ld)a[j] * b[j]; da += (ld)a[j] * a[j]; db += (ld)b[j] * b[j]; }
  return s / (sqrtl(da) * sqrtl(db));
}
static int valid_selection(const uivector *s, int want, int n) {
  if ((int)s->size != want) return 0;
  for (size_t i = 0; i < s->size; i++) { if (s->data[i] >= (size_t)n) return 0; for (size_t j = 0; j < i; j++) if (s->data[j] == s->data[i]) return 0; }
  return 1;
}
static int uiv_equal(const uivector *a, const uivector *b) { if (a->size != b->size) return 0; for (size_t i = 0; i < a->size; i++) if (a->data[i] != b->data[i]) return 0; return 1; }
static uint64_t uiv_hash(const uivector *a, uint64_t h) { return vx_hash(a->data, sizeof(size_t) * a->size, vx_hash(&a->size, sizeof a->size, h)); }
#define TIE 1e-9L   /* DESIGN section 3 rule 3: candidates within 1e-9 * scale (scale = 1 here) of the optimum are accepted */

/* judge one max-min sequence; returns 1 if some step was a near-tie (then the sequence is not unique) */
static int judge_maxmin(const char *fn, const matrix *m, int metric, const uivector *s, double scale, const char *cl) {
  int n = (int)m->row, d = (int)m->col, near_tie = 0; char key[200]; ld tie = TIE * scale;
  ld *cen = calloc((size_t)d, sizeof(ld));
  for (int i = 0; i < n; i++) for (int j = 0; j < d; j++) cen[j] += m->data[i][j];
  for (int j = 0; j < d; j++) cen[j] /= n;
  ld best = -1, second = -1, own = -1;
  for (int i = 0; i < n; i++) {
    ld s2 = 0; for (int j = 0; j < d; j++) s2 += (m->data[i][j] - cen[j]) * (m->data[i][j] - cen[j]);
    s2 = sqrtl(s2); if (s2 > best) { second = best; best = s2; } else if (s2 > second) second = s2;
    if ((size_t)i == s->data[0]) own = s2;
  }
  if (best - second <= tie) near_tie = 1;
  snprintf(key, sizeof key, "maxdis-first|%s|%s", fn, cl);
  JUDGE(own >= best - tie, key, "%s(%d x %d): first selected object %zu lies %.12Lg from the centroid, the farthest object lies %.12Lg", fn, n, d, s->data[0], own, best);
  ld *mind = malloc(sizeof(ld) * (size_t)n); char *sel = calloc((size_t)n, 1);
  for (int i = 0; i < n; i++) mind[i] = ref_metric(metric, m->data[i], m->data[s->data[0]], d);
  sel[s->data[0]] = 1;
  int badstep = -1; ld badown = 0, badbest = 0;
  for (size_t t = 1; t < s->size; t++) {
    best = -2; second = -2;   /* cosine values live in [-1,1] */
    for (int i = 0; i < n; i++) if (!sel[i]) { if (mind[i] > best) { second = best; best = mind[i]; } else if (mind[i] > second) second = mind[i]; }
    size_t c = s->data[t];
    if (second > -2 && best - second <= tie) near_tie = 1;
    if (!(mind[c] >= best - tie) && badstep < 0) { badstep = (int)t; badown = mind[c]; badbest = best; }
    sel[c] = 1;
    for (int i = 0; i < n; i++) { ld v = ref_metric(metric, m->data[i], m->data[c], d); if (v < mind[i]) mind[i] = v; }
  }
  snprintf(key, sizeof key, "maxdis-greedy|%s|%s", fn, cl);
  JUDGE(badstep < 0, key, "%s(%d x %d, %s): element %d of the selection has minimum %s value %.12Lg to those already chosen; another remaining object has %.12Lg", fn, n, d, MET[metric], badstep, MET[metric], badown, badbest);
  free(cen); free(mind); free(sel);
  return near_tie;
}

/* ------------------------------------------------------------------ selection methods */
static void op_select(void) {
  int method = vx_choose("method", 3), n = pick_n(1), d = pick_d(), fam = pick_fam();
  int metric = method == 2 ? 0 : vx_choose("metric", 3);
  int want = 1 + vx_choose("size-1", n), th = pick_th(n == 80);
  int seed = method == 2 ? vx_choose("seed", H_TSAN ? 1 : 2) : 0;
  matrix *m = gen(fam, n, d, 1.0); const char *tc = thcls(n, th); char key[200], cl[96];
  snprintf(cl, sizeof cl, "%s,%s", MET[metric], want == n ? "select-all" : want == 1 ? "select-1" : "select-some");
  uint64_t h = 10 + (uint64_t)method;
  if (method == 0) {            /* most descriptive compound */
    uivector *s1, *st; initUIVector(&s1); initUIVector(&st);
    MDC(m, (size_t)want, metric, s1, 1);
    race_reset(); MDC(m, (size_t)want, metric, st, (size_t)th); vx_transition(2); race_check("MDC", tc);
    snprintf(key, sizeof key, "selection-valid|MDC|%s", cl);
    JUDGE(valid_selection(st, want, n), key, "MDC(%d x %d, select %d, %s, %d threads): %zu indices returned, not %d distinct ones below %d", n, d, want, MET[metric], th, st->size, want, n);
    snprintf(key, sizeof key, "thread-independence|MDC|%s", tc);
    JUDGE(uiv_equal(s1, st), key, "MDC(%d x %d, select %d, %s): %d threads and 1 thread select different objects", n, d, want, MET[metric], th);
    h = uiv_hash(st, h); DelUIVector(&s1); DelUIVector(&st);
  } else if (method == 1) {     /* max-min dissimilarity, both implementations */
    /* the same objects far from the origin (+1e7 on every coordinate): distances are differences, so nothing changes for an
     * implementation that subtracts coordinates; the centroid of 1e7-sized numbers carries ~1e-8 of rounding, hence tie scale 100 */
    double tsc = 1.0;
    int far = (!H_TSAN && (n <= 13 || vx_thorough())) ? vx_choose("offset", 3) : 0;
    if (far == 1) { tsc = 100.0; for (size_t i = 0; i < m->row; i++) for (size_t j = 0; j < m->col; j++) m->data[i][j] += 1e7; }
    /* ... and in units 4e9 times smaller (pairwise distances beyond the library's missing-value code 99999999): a change of unit
     * does not change a max-min selection; every comparison scales with the data, so does the tie allowance */
    if (far == 2) { tsc = 4e9; for (size_t i = 0; i < m->row; i++) for (size_t j = 0; j < m->col; j++) m->data[i][j] *= 4e9; }
    uivector *a1, *at, *f1, *ft; initUIVector(&a1); initUIVector(&at); initUIVector(&f1); initUIVector(&ft);
    MaxDis(m, (size_t)want, metric, a1, 1); MaxDis_Fast(m, (size_t)want, metric, f1, 1);
    race_reset(); MaxDis(m, (size_t)want, metric, at, (size_t)th); vx_transition(1); race_check("MaxDis", tc);
    MaxDis_Fast(m, (size_t)want, metric, ft, (size_t)th); vx_transition(3); race_check("MaxDis_Fast", tc);
    int va = valid_selection(at, want, n), vf = valid_selection(ft, want, n), tie = 0;
    snprintf(key, sizeof key, "selection-valid|MaxDis|%s", cl);
    JUDGE(va, key, "MaxDis(%d x %d, select %d, %s, %d threads): %zu indices returned, not %d distinct ones below %d", n, d, want, MET[metric], th, at->size, want, n);
    snprintf(key, sizeof key, "selection-valid|MaxDis_Fast|%s", cl);
    JUDGE(vf, key, "MaxDis_Fast(%d x %d, select %d, %s, %d threads): %zu indices returned, not %d distinct ones below %d", n, d, want, MET[metric], th, ft->size, want, n);
    if (va) tie |= judge_maxmin("MaxDis", m, metric, at, tsc, MET[metric]);
    if (vf) tie |= judge_maxmin("MaxDis_Fast", m, metric, ft, tsc, MET[metric]);
    if (va && vf && !tie) { snprintf(key, sizeof key, "maxdis-vs-fast|MaxDis,MaxDis_Fast|%s", cl); JUDGE(uiv_equal(at, ft), key, "(%d x %d, select %d, %s): the two max-min implementations return different sequences", n, d, want, MET[metric]); }
    snprintf(key, sizeof key, "thread-independence|MaxDis|%s", tc); JUDGE(uiv_equal(a1, at), key, "MaxDis(%d x %d, select %d, %s): %d threads and 1 thread differ", n, d, want, MET[metric], th);
    snprintf(key, sizeof key, "thread-independence|MaxDis_Fast|%s", tc); JUDGE(uiv_equal(f1, ft), key, "MaxDis_Fast(%d x %d, select %d, %s): %d threads and 1 thread differ", n, d, want, MET[metric], th);
    h = uiv_hash(ft, uiv_hash(at, h + (uint64_t)tie)); DelUIVector(&a1); DelUIVector(&at); DelUIVector(&f1); DelUIVector(&ft);
  } else {                      /* k-means++ seeding */
    uivector *s1, *st; initUIVector(&s1); initUIVector(&st);
    snprintf(g_tick, sizeof g_tick, "nonterm|KMeansppCenters|%s", want == n ? "select-all" : "select-some");
    srand_((uint32_t)(seed + 1)); vx_tick_reset(); g_draw_hash = 0; KMeansppCenters(m, (size_t)want, s1, 1); uint64_t dh1 = g_draw_hash;
    race_reset(); srand_((uint32_t)(seed + 1)); vx_tick_reset(); g_draw_hash = 0; KMeansppCenters(m, (size_t)want, st, th); vx_transition(2); race_check("KMeansppCenters", tc);
    snprintf(key, sizeof key, "thread-independence|KMeansppCenters:sampling-weights|%s", tc);
    JUDGE(dh1 == g_draw_hash, key, "KMeansppCenters(%d x %d, %d centres, seed %d): the cumulative squared distances handed to randDouble differ between %d threads and 1 thread", n, d, want, seed + 1, th);
    snprintf(key, sizeof key, "selection-valid|KMeansppCenters|%s", want == n ? "select-all" : want == 1 ? "select-1" : "select-some");
    JUDGE(valid_selection(st, want, n), key, "KMeansppCenters(%d x %d, %d centres, seed %d, %d threads): %zu indices returned, not %d distinct ones below %d", n, d, want, seed + 1, th, st->size, want, n);
    snprintf(key, sizeof key, "thread-independence|KMeansppCenters|%s", tc);
    JUDGE(uiv_equal(s1, st), key, "KMeansppCenters(%d x %d, %d centres, seed %d): %d threads and 1 thread differ", n, d, want, seed + 1, th);
    h = uiv_hash(st, h); DelUIVector(&s1); DelUIVector(&st);
  }
  vx_outcome(h); DelMatrix(&m);
}


/* ------------------------------------------------------------------ reused outputs (k-means)
 * KMeans documents cluster_labels and _centroids_ as outputs and (re)sizes both itself (UIVectorResize / ResizeMatrix), then
 * assigns every label and every centroid cell: the result must not depend on what the two objects held before the call --
 * nothing (initUIVector / initMatrix), the result of the same call, the result for another k, or objects of another size.
 * Same seed, same thread count (1): compared bit for bit with the result obtained with fresh outputs.
 * The selection routines (MDC, MaxDis, MaxDis_Fast, KMeansppCenters) are NOT judged this way: their "selections" vector is
 * filled with UIVectorAppend ("initialised uivector ... will be filled up"), and MaxDis / KMeansppCenters consult its current
 * content (UIVectorHasValue) as the set of objects already chosen, so a non-empty vector is an input, not a stale output. */
static int m_same(const matrix *a, const matrix *b) {
  if (a->row != b->row || a->col != b->col) return 0;
  for (size_t i = 0; i < a->row; i++) for (size_t j = 0; j < a->col; j++) { double x = a->data[i][j], y = b->data[i][j]; if (!(x == y || (x != x && y != y))) return 0; }
  return 1;
}
static matrix *m_dup(const matrix *a) { matrix *m; NewMatrix(&m, a->row, a->col); for (size_t i = 0; i < a->row; i++) memcpy(m->data[i], a->data[i], sizeof(double) * a->col); return m; }
static matrix *m_junk(int r, int c) { matrix *m; NewMatrix(&m, (size_t)r, (size_t)c); for (int i = 0; i < r; i++) for (int j = 0; j < c; j++) m->data[i][j] = 1e3 + 7.0 * i - 3.0 * j + 0.25; return m; }
static uivector *u_junk(int n) { uivector *u; NewUIVector(&u, (size_t)n); for (int i = 0; i < n; i++) u->data[i] = (size_t)(1000 + i); return u; }
static void reuse_kmeans(const char *cls, const char *how, matrix *m, int k, int init, int seed, uivector *lo, matrix *co, const uivector *wl, const matrix *wc) {
  char key[96];
  srand_((uint32_t)(seed + 1)); vx_tick_reset(); KMeans(m, (size_t)k, init, lo, co, 1); vx_transition(1);
  int okl = uiv_equal(lo, wl), okc = m_same(co, wc);
  snprintf(key, sizeof key, "reuse|KMeans|%s", cls);
  vx_check(okl && okc, key, "KMeans(%zu x %zu, k=%d, %s, seed %d, 1 thread) into outputs that %s: %s differ from the result with fresh outputs (%zu labels, fresh %zu; centroids %zux%zu, fresh %zux%zu, max difference %g)",
           m->row, m->col, k, init == 0 ? "random" : init == 1 ? "kmeans++" : init == 2 ? "MDC" : "MaxDis", seed + 1, how, !okl ? "the labels" : "the centroids", lo->size, wl->size, co->row, co->col, wc->row, wc->col, okc ? 0.0 : hm_maxdiff(co, wc));
}

/* ------------------------------------------------------------------ k-means */
static const char *INIT[4] = {"random", "kmeans++", "MDC", "MaxDis"};
static void op_kmeans(void) {
  int init = vx_choose("init", 4), n = pick_n(0), d = pick_d(), fam = pick_fam();
  int kmax = n < 6 ? n : 6, k = 1 + vx_choose("k-1", kmax), th = pick_th(0);
  int seed = init < 2 ? vx_choose("seed", H_TSAN ? 1 : vx_thorough() ? 3 : 2) : 0;
  double scale = vx_choose("scale", vx_thorough() || n <= 8 ? 2 : 1) ? 1e-4 : 1.0;   /* quick: the small-scale copy only for n <= 8 */
  matrix *m = gen(fam, n, d, scale); const char *tc = thcls(n, th); char key[200], fn[48];
  /* a common location far from the origin (clusters are translation invariant; a stopping rule or distance that is relative
   * to the coordinates is not): unit-scale data only, quick tier for n <= 8 */
  if (scale == 1.0 && (vx_thorough() || n <= 8) && vx_choose("offset", 2)) for (size_t i = 0; i < m->row; i++) for (size_t j = 0; j < m->col; j++) m->data[i][j] += 2e4;
  snprintf(fn, sizeof fn, "KMeans:%s-init", INIT[init]);
  uivector *l1, *lt; matrix *c1, *ct; initUIVector(&l1); initUIVector(&lt); initMatrix(&c1); initMatrix(&ct);
  snprintf(g_tick, sizeof g_tick, "nonterm|%s|k=%d", fn, k);
  srand_((uint32_t)(seed + 1)); vx_tick_reset(); KMeans(m, (size_t)k, init, l1, c1, 1);
  race_reset(); srand_((uint32_t)(seed + 1)); vx_tick_reset(); g_copies = 0; g_lastO_r = g_lastO_c = 0;
  KMeans(m, (size_t)k, init, lt, ct, (size_t)th); vx_transition(2);
  long iters = g_copies / 2; race_check(fn, tc);
  double maxabs = hm_maxabs(m);
  /* class: the stopping rule compares centroids with an absolute 1e-3, and the "previous" centroids start at 0 */
  const char *cl = maxabs < 1e-3 ? "maxabs<1e-3" : iters == 0 ? "no-iteration-run" : "general";
  if (cl[0] != 'g') snprintf(fn, sizeof fn, "KMeans");   /* these two classes do not depend on the initialiser: one key per class */
  int lab_ok = (int)lt->size == n; for (size_t i = 0; lab_ok && i < lt->size; i++) if (lt->data[i] >= (size_t)k) lab_ok = 0;
  snprintf(key, sizeof key, "labels-range|%s|%s", fn, cl);
  JUDGE(lab_ok, key, "KMeans(%d x %d, k=%d, %s, seed %d, %d threads): %zu labels, one is >= k or the count is not %d", n, d, k, INIT[init], seed + 1, th, lt->size, n);
  int shape_ok = (int)ct->row == k && (int)ct->col == d;
  snprintf(key, sizeof key, "centroid-shape|%s|%s", fn, cl);
  JUDGE(shape_ok, key, "KMeans(%d x %d, k=%d): centroid matrix is %zu x %zu", n, d, k, ct->row, ct->col);
  uint64_t h = 100 + (uint64_t)init;
  if (lab_ok && shape_ok) {
    /* each returned centroid is the mean of the objects carrying its label */
    double worst = 0; int wc = -1, empty = 0;
    for (int c = 0; c < k; c++) {
      int cnt = 0; for (int i = 0; i < n; i++) if ((int)lt->data[i] == c) cnt++;
      if (!cnt) { empty++; continue; }
      for (int j = 0; j < d; j++) {
        ld s = 0; for (int i = 0; i < n; i++) if ((int)lt->data[i] == c) s += m->data[i][j];
        double e = fabs(ct->data[c][j] - (double)(s / cnt)) / (64.0 * DEPS * (cnt + 2) * maxabs);
        if (!(e <= worst)) { worst = e; wc = c; }
      }
    }
    snprintf(key, sizeof key, "centroid-mean|%s|%s", fn, cl);
    JUDGE(worst <= 1.0, key, "KMeans(%d x %d, k=%d, %s, seed %d, %d threads, data scale %g, %ld iterations): centroid %d is not the mean of the objects labelled %d (%.3g x the rounding allowance)", n, d, k, INIT[init], seed + 1, th, scale, iters, wc, wc, worst);
    /* each object carries the label of a nearest centroid, up to the documented convergence tolerance.
     * Stopped before the cap: own-centroid distance <= nearest + 2 sqrt(d) 1e-3 w.r.t. the RETURNED centroids.
     * Stopped by the cap (101 iterations): the statement promises nothing about the returned centroids; the run is
     * reported only if the labels are ALSO not a nearest-centroid labelling of the centroids the last labelling step was
     * given (observed at the MatrixCopy seam) -- a correct implementation passes that at any iteration. */
    {
      double allow = 2.0 * sqrt((double)d) * 1e-3, worstx = -INFINITY; int wi = -1, wrongO = 0;
      for (int i = 0; i < n; i++) {
        ld best = -1, own = 0; for (int c = 0; c < k; c++) { ld dd = ref_metric(0, m->data[i], ct->data[c], d); if (best < 0 || dd < best) best = dd; if ((int)lt->data[i] == c) own = dd; }
        if ((double)(own - best) > worstx) { worstx = (double)(own - best); wi = i; }
        if (g_lastO_r == k && g_lastO_c == d) { best = -1; own = 0; for (int c = 0; c < k; c++) { ld dd = ref_metric(0, m->data[i], g_lastO[c], d); if (best < 0 || dd < best) best = dd; if ((int)lt->data[i] == c) own = dd; } if (own > best + TIE) wrongO++; }
      }
      int capped = iters > 100, judgedO = g_lastO_r == k && g_lastO_c == d;
      snprintf(key, sizeof key, "nearest-centroid|%s|%s%s", fn, cl, capped ? ",iteration-cap" : "");
      JUDGE(capped ? !(worstx > allow && judgedO && wrongO > 0) : worstx <= allow, key, "KMeans(%d x %d, k=%d, %s, seed %d, %ld iterations%s): object %d is %.6g farther from its own centroid than from the nearest one (allowance %.3g); %d object(s) do not carry a nearest label even w.r.t. the centroids the last labelling step used", n, d, k, INIT[init], seed + 1, iters, capped ? " = cap" : "", wi, worstx, allow, wrongO);
      vx_log("KMeans n=%d d=%d k=%d init=%s th=%d iters=%ld empty=%d: centroid-mean %.3g x allowance, nearest excess %.3g (allow %.3g), wrong w.r.t. labelling centroids %d\n", n, d, k, INIT[init], th, iters, empty, worst, worstx, allow, wrongO);
    }
    h = hm_hash(ct, uiv_hash(lt, h)) + (uint64_t)(iters > 100);
  }
  snprintf(key, sizeof key, "thread-independence|%s|%s", fn, tc);
  JUDGE(uiv_equal(l1, lt) && hm_maxdiff(c1, ct) <= 64.0 * DEPS * (n + 2) * maxabs, key, "KMeans(%d x %d, k=%d, %s, seed %d): labels/centroids with %d threads differ from 1 thread (max centroid difference %g)", n, d, k, INIT[init], seed + 1, th, hm_maxdiff(c1, ct));
  /* ---- reused outputs: on the 1-thread member of every (initialiser, data set, k, seed, scale) -- thread counts do not enter.
   * lt/ct hold the fresh 1-thread result: the same call again into them; then into objects filled by KMeans for ANOTHER k on the
   * same data (centroid rows differ, label count equal); hand-filled objects with d+1 columns and n-1 labels; with k+2 rows,
   * d+3 columns and n+5 labels */
  if (!H_TSAN && th == 1 && lab_ok && shape_ok) {
    uivector *wl, *lo; matrix *wc = m_dup(ct), *co; initUIVector(&wl); for (size_t i = 0; i < lt->size; i++) UIVectorAppend(wl, lt->data[i]);
    snprintf(g_tick, sizeof g_tick, "nonterm|KMeans:reused-outputs|k=%d", k);
    reuse_kmeans("same-shape", "hold the result of the same call", m, k, init, seed, lt, ct, wl, wc);
    int k2 = k < kmax ? k + 1 : k - 1;
    initUIVector(&lo); initMatrix(&co); srand_((uint32_t)(seed + 1)); vx_tick_reset(); KMeans(m, (size_t)k2, init, lo, co, 1);
    reuse_kmeans("one-dim-differs", "hold the result for another number of clusters", m, k, init, seed, lo, co, wl, wc); DelUIVector(&lo); DelMatrix(&co);
    lo = u_junk(n - 1); co = m_junk(k, d + 1);
    reuse_kmeans("one-dim-differs", "held k centroids of another dimension and labels of another number of objects", m, k, init, seed, lo, co, wl, wc); DelUIVector(&lo); DelMatrix(&co);
    lo = u_junk(n + 5); co = m_junk(k + 2, d + 3);
    reuse_kmeans("both-dims-differ", "held a centroid matrix with other numbers of rows and columns and labels of another number of objects", m, k, init, seed, lo, co, wl, wc); DelUIVector(&lo); DelMatrix(&co);
    DelUIVector(&wl); DelMatrix(&wc);
  }
  vx_outcome(h);
  DelUIVector(&l1); DelUIVector(&lt); DelMatrix(&c1); DelMatrix(&ct); DelMatrix(&m);
}

static void body(void) {
  if (vx_choose("op", 2) == 0) op_select(); else op_kmeans();
}

int main(int argc, char **argv) {
#if H_TSAN
  tsan_reexec(argv);
#endif
  vg_seed(getenv("VERIF_SEED") ? atol(getenv("VERIF_SEED")) : 0);
  vx_describe("build", H_TSAN ? "clang ThreadSanitizer, small subset, free-running threads" : "gcc ASan+UBSan");
  vx_describe("alphabet", "n in {3,4,5,8,13,30,80} x d in {1,2,3,6} x general-position families (selection, quick tier: n <= 30); selection: {MDC, MaxDis+MaxDis_Fast} x 3 metrics x ALL sizes 1..n (MaxDis also with every coordinate + 1e7 and with all coordinates x 4e9, n <= 13 in the quick tier), KMeansppCenters x ALL sizes 1..n x seeds; "
              "k-means: k = 1..min(6,n) x initialiser {random, kmeans++, MDC, MaxDis} x seeds (random initialisers) x data scale {1, 1e-4}; thread counts {1,2,3,8} (thorough: 1..8; {1,2,3,8} for the 80-object selections)");
  vx_describe("oracle", "distinct in-range indices of the requested number; first = farthest from centroid and every next maximises the minimum library-metric value to the chosen ones "
              "(long double, candidates within 1e-9 accepted); MaxDis == MaxDis_Fast when no step is a near-tie; labels < k; centroid = mean of its members to 64 eps (members+2) max|x|; "
              "own-centroid distance <= nearest + 2 sqrt(d) 1e-3 when fewer than 101 iterations ran; results equal to the 1-thread run; "
              "KMeans into reused label / centroid objects (same call, another k, other sizes) = result with fresh outputs, bit for bit (1-thread member of every k-means input)");
  vx_set_shard_depth(7);
  vx_expect_outcomes(H_TSAN ? 100 : 1000);
  return vx_main(argc, argv, "C17", body);
}
