/* C18 -- model fitting terminates with finite leading components on degenerate data.
 *
 * Complete small scopes with exact arithmetic (integer / dyadic entries, so cancellations are exact):
 * every tiny matrix over {0,1,2} (and their 2^-20 perturbations, indexed) -> PCA / PLS / CPCA,
 * duplicated-point sets -> k-means with every initialiser, collinear X -> MLR based validation,
 * degenerate objectives -> Nelder-Mead.  Non-termination is decided by a deterministic iteration tick
 * (link-time wrappers of the per-iteration kernels), never by the clock.
 */
#include "hcommon.h"
#include "pca.h"
#include "pls.h"
#include "cpca.h"
#include "mlr.h"
#include "clustering.h"
#include "modelvalidation.h"
#include "optimization.h"
#include <pthread.h>

/* ---------------------------------------------------------------- tick seams */
static char TICKKEY[128] = "nonterm|?";
void __real_MT_DVectorMatrixDotProduct(matrix *, dvector *, dvector *);
void __wrap_MT_DVectorMatrixDotProduct(matrix *m, dvector *v, dvector *p) { vx_tick(TICKKEY); __real_MT_DVectorMatrixDotProduct(m, v, p); }
double __real_calcConvergence(dvector *, dvector *);
double __wrap_calcConvergence(dvector *a, dvector *b) { vx_tick(TICKKEY); return __real_calcConvergence(a, b); }
void __real_srand_(uint32_t); double __real_rand_(void); int __real_randInt(int, int); double __real_randDouble(double, double);
void __wrap_srand_(uint32_t s) { __real_srand_(s); }
static __thread int in_worker;
/* draws made inside one of the library's worker threads (the fold generators run there): the explorer's tick longjmps and
 * belongs to the main thread, so a worker counts on its own and, past the same ceiling, stops the process in a function whose
 * name says what happened; the supervisor attributes the abort to the path and the replay reproduces it */
static long wticks;
static __attribute__((noinline)) void nonterminating_loop_in_worker_thread(void) { fprintf(stderr, "h_C18: more than %ld random draws inside one worker thread (%s)\n", vx_tick_ceiling, TICKKEY); abort(); }
static void wtick(void) { static int off = -1; if (off < 0) off = getenv("C18_NO_WTICK") != NULL;   /* calibration aid for the wall-clock rule, never set by run_check */
  if (!off && __atomic_add_fetch(&wticks, 1, __ATOMIC_RELAXED) > vx_tick_ceiling) nonterminating_loop_in_worker_thread(); }
double __wrap_rand_(void) { if (!in_worker) vx_tick(TICKKEY); else wtick(); return __real_rand_(); }
int __wrap_randInt(int a, int b) { if (!in_worker) vx_tick(TICKKEY); else wtick(); return __real_randInt(a, b); }
double __wrap_randDouble(double a, double b) { if (!in_worker) vx_tick(TICKKEY); else wtick(); return __real_randDouble(a, b); }
int __real_pthread_create(pthread_t *, const pthread_attr_t *, void *(*)(void *), void *);
struct tramp { void *(*fn)(void *); void *arg; };
static void *tramp_fn(void *p) { struct tramp t = *(struct tramp *)p; free(p); in_worker = 1; return t.fn(t.arg); }
int __wrap_pthread_create(pthread_t *t, const pthread_attr_t *a, void *(*fn)(void *), void *arg) {
  if (!in_worker) vx_tick(TICKKEY);            /* loops that spawn a pool per iteration (MDC, k-means++) */
  struct tramp *tr = malloc(sizeof *tr); tr->fn = fn; tr->arg = arg;
  return __real_pthread_create(t, a, tramp_fn, tr);
}
void __wrap_GetNProcessor(size_t *on, size_t *mx) { if (on) *on = 1; if (mx) *mx = 1; }   /* the MT_ kernels run inline: no thread pool per NIPALS iteration */
static void arm(const char *api, const char *cls) { snprintf(TICKKEY, sizeof TICKKEY, "nonterm|%s|%s", api, cls); vx_tick_reset(); wticks = 0; }

/* ---------------------------------------------------------------- helpers */
static matrix *from_digits(long code, int r, int c, int base, int pert) {
  matrix *m; NewMatrix(&m, (size_t)r, (size_t)c);
  for (int i = 0; i < r; i++) for (int j = 0; j < c; j++) { m->data[i][j] = (double)(code % base); code /= base; }
  if (pert) { /* indexed 2^-20 perturbations: +e on one diagonal-ish cell, -e on another */
    double e = 1.0 / 1048576.0; int k = pert - 1;
    m->data[k % r][k % c] += e; m->data[(k + 1) % r][(2 * k + 1) % c] -= e;
  }
  return m;
}
#include "preprocessing.h"
static rmat *center_scale(matrix *m, int scaling, ld *ss) {
  /* the preprocessed matrix the fit itself works on, through the public MatrixPreprocess (its statistics are the
   * subject of C10/C11; here they only define E, the matrix whose rank and identities are judged) */
  matrix *E; dvector *avg, *scl; initDVector(&avg); initDVector(&scl); NewMatrix(&E, m->row, m->col);
  MatrixPreprocess(m, scaling, avg, scl, E);
  rmat *e = rm_from(E); ld tot = 0;
  for (int i = 0; i < e->r * e->c; i++) tot += e->a[i] * e->a[i];
  *ss = tot; DelMatrix(&E); DelDVector(&avg); DelDVector(&scl); return e;
}
static int num_rank(const rmat *e, ld ss) {
  int n = e->r < e->c ? e->r : e->c; if (n == 0 || ss == 0) return 0;
  ld *s = calloc((size_t)n, sizeof(ld)); rm_singular_values(e, s); int r = 0;
  for (int i = 0; i < n; i++) if (s[i] * s[i] > 1e-9L * ss) r++;
  free(s); return r;
}
static const char *rank_class(int rank, int npc, int maxrank) { return rank == 0 ? "rank0" : npc > rank ? "npc>rank" : rank < maxrank ? "rank-deficient,npc<=rank" : "full-rank"; }

/* ---------------------------------------------------------------- PCA */
static void b_pca(void) {
  static const int R[4] = {2, 3, 2, 3}, C[4] = {2, 2, 3, 3};
  int shp = vx_choose("shape", 4), r = R[shp], c = C[shp];
  long ncode = 1; for (int i = 0; i < r * c; i++) ncode *= 3;
  int scaling = vx_choose("scaling", 3) - 1;
  long code = vx_choose("matrix", (int)ncode);
  int pert = (shp == 3 && !vx_thorough()) ? 0 : vx_choose_dev("perturb", 4), npc = 1 + vx_choose("npc-1", c + 2);   /* quick: 3x3 exact only */
  matrix *m = from_digits(code, r, c, 3, pert);
  /* uncentred fits also over {-2,1,2} (digit 0 -> -2): a dominant column orthogonal to the constant columns, e.g. (2,-2) beside
   * (1,1), exists there, so the first component can remove it exactly and leave a residual of constant columns behind a null one */
  if (scaling == -1 && vx_choose("alphabet", 2)) for (int i = 0; i < r; i++) for (int j = 0; j < c; j++) if (m->data[i][j] < 0.5) m->data[i][j] -= 2.0;
  ld ss; rmat *e = center_scale(m, scaling, &ss); int maxrank = (scaling >= 0 ? (r - 1 < c ? r - 1 : c) : (r < c ? r : c)); int rank = num_rank(e, ss);
  const char *cls = rank_class(rank, npc, maxrank);
  PCAMODEL *mod; NewPCAModel(&mod);
  arm("PCA", cls);
  PCA(m, scaling, (size_t)npc, mod, NULL);
  vx_transition(1);
  if (vx_replaying()) { vx_log("E rank %d ss %Lg; scores/loadings/varexp:\n", rank, ss); for (size_t i = 0; i < mod->scores->row; i++) { for (size_t a = 0; a < mod->scores->col; a++) vx_log(" %g", mod->scores->data[i][a]); vx_log("\n"); } for (size_t i = 0; i < mod->loadings->row; i++) { for (size_t a = 0; a < mod->loadings->col; a++) vx_log(" %g", mod->loadings->data[i][a]); vx_log("\n"); } for (size_t a = 0; a < mod->varexp->size; a++) vx_log(" varexp %g", mod->varexp->data[a]); vx_log("\n"); }
  char key[128];
  int k = (int)mod->loadings->col < rank ? (int)mod->loadings->col : rank; if (npc < k) k = npc;
  /* defined components: finite, unit loadings, mutually orthogonal, residual orthogonal to them */
  int fin = 1; for (int a = 0; a < k; a++) { for (int i = 0; i < r; i++) if (!isfinite(mod->scores->data[i][a])) fin = 0; for (int j = 0; j < c; j++) if (!isfinite(mod->loadings->data[j][a])) fin = 0; }
  snprintf(key, sizeof key, "finite|PCA|%s", cls);
  vx_check(fin, key, "%dx%d code %ld scaling %d npc %d rank %d: a component up to the rank is not finite", r, c, code, scaling, npc, rank);
  if (fin && k > 0) {
    double worst = 0;
    for (int a = 0; a < k; a++) for (int b = a; b < k; b++) { ld d = 0; for (int j = 0; j < c; j++) d += (ld)mod->loadings->data[j][a] * mod->loadings->data[j][b]; double dev = fabs((double)d - (a == b ? 1.0 : 0.0)); if (dev > worst) worst = dev; }
    snprintf(key, sizeof key, "orthonormal|PCA|%s", cls);
    vx_check(worst <= 1e-8, key, "%dx%d code %ld scaling %d npc %d rank %d: loadings of the defined components deviate from orthonormal by %g", r, c, code, scaling, npc, rank, worst);
    /* E = T P' + R with R p_a = 0 */
    rmat *res = rm_copy(e);
    for (int a = 0; a < k; a++) for (int i = 0; i < r; i++) for (int j = 0; j < c; j++) RM(res, i, j) -= (ld)mod->scores->data[i][a] * mod->loadings->data[j][a];
    double wr = 0; for (int a = 0; a < k; a++) for (int i = 0; i < r; i++) { ld d = 0; for (int j = 0; j < c; j++) d += RM(res, i, j) * mod->loadings->data[j][a]; if (fabs((double)d) > wr) wr = fabs((double)d); }
    snprintf(key, sizeof key, "residual|PCA|%s", cls);
    vx_check(wr <= 1e-7 * (1 + (double)sqrtl(ss)), key, "%dx%d code %ld scaling %d npc %d rank %d: residual not orthogonal to defined loadings (%g)", r, c, code, scaling, npc, rank, wr);
    rm_free(res);
  }
  int vok = 1; double beyond = 0; for (size_t a = 0; a < mod->varexp->size; a++) { double v = mod->varexp->data[a]; if (v != v) vok = 0; if ((int)a >= rank && fabs(v) > beyond) beyond = fabs(v); }
  snprintf(key, sizeof key, "varexp|PCA|%s", cls);
  vx_check(vok && beyond <= 1e-6, key, "%dx%d code %ld scaling %d npc %d rank %d: explained variance is NaN or non-zero (%g) beyond the rank", r, c, code, scaling, npc, rank, beyond);
  vx_outcome(hm_hash(mod->scores, (uint64_t)rank * 7 + (uint64_t)npc));
  DelPCAModel(&mod); DelMatrix(&m); rm_free(e);
}

/* ---------------------------------------------------------------- PLS */
static void b_pls(void) {
  int shp = vx_choose("shape", vx_thorough() ? 2 : 1), r = shp == 0 ? 3 : 4, c = 2;
  long ncode = 1; for (int i = 0; i < r * c; i++) ncode *= 3;
  int scal = vx_choose("scaling", 2);
  long code = vx_choose("X", (int)ncode);
  int ycode = vx_choose("y", 1 << r), nlv = 1 + vx_choose("nlv-1", 3), pert = vx_choose_dev("perturb", 3);
  matrix *x = from_digits(code, r, c, 3, pert), *y; NewMatrix(&y, (size_t)r, 1);
  for (int i = 0; i < r; i++) y->data[i][0] = (ycode >> i) & 1;
  int yconst = (ycode == 0 || ycode == (1 << r) - 1);
  ld ss; rmat *e = center_scale(x, scal, &ss); int rank = num_rank(e, ss);
  /* number of defined latent variables: 0 if y is constant or X'y = 0, else at least 1 */
  ld xty = 0; { ld ym = 0; for (int i = 0; i < r; i++) ym += y->data[i][0]; ym /= r; for (int j = 0; j < c; j++) { ld d = 0; for (int i = 0; i < r; i++) d += RM(e, i, j) * (y->data[i][0] - ym); xty += d * d; } }
  const char *cls = yconst ? "constant-y" : rank == 0 ? "rank0-X" : xty < 1e-18L ? "X'y=0" : nlv > rank ? "nlv>rank" : "regular";
  PLSMODEL *mod; NewPLSModel(&mod);
  arm("PLS", cls);
  PLS(x, y, (size_t)nlv, scal, 0, mod, NULL);
  vx_transition(1);
  char key[128];
  if (vx_replaying()) { vx_log("X:\n"); for (int i = 0; i < r; i++) vx_log(" %g %g | y %g | E %Lg %Lg\n", x->data[i][0], x->data[i][1], y->data[i][0], RM(e, i, 0), RM(e, i, 1)); for (size_t i = 0; i < mod->xscores->row; i++) { for (size_t a = 0; a < mod->xscores->col; a++) vx_log(" t%g", mod->xscores->data[i][a]); vx_log("\n"); } }
  int defined = (yconst || rank == 0 || xty < 1e-18L) ? 0 : 1;     /* the first latent variable is defined in the regular case */
  if (defined && mod->xscores->col >= 1) {
    int fin = 1; for (int i = 0; i < r; i++) if (!isfinite(mod->xscores->data[i][0])) fin = 0; for (int j = 0; j < c; j++) if (!isfinite(mod->xloadings->data[j][0]) || !isfinite(mod->xweights->data[j][0])) fin = 0;
    if (mod->b->size >= 1 && !isfinite(mod->b->data[0])) fin = 0;
    snprintf(key, sizeof key, "finite|PLS|%s", cls);
    vx_check(fin, key, "%dx%d X code %ld y code %d nlv %d: first latent variable not finite", r, c, code, ycode, nlv);
    /* t1 = E w1 / (w'w) direction: t proportional to E * (E'y) */
    if (fin) { ld num = 0, na = 0, nb = 0; ld ym = 0; for (int i = 0; i < r; i++) ym += y->data[i][0]; ym /= r;
      for (int i = 0; i < r; i++) { ld t = 0; for (int j = 0; j < c; j++) { ld w = 0; for (int q = 0; q < r; q++) w += RM(e, q, j) * (y->data[q][0] - ym); t += RM(e, i, j) * w; } num += t * mod->xscores->data[i][0]; na += t * t; nb += (ld)mod->xscores->data[i][0] * mod->xscores->data[i][0]; }
      double cosang = (na > 0 && nb > 0) ? fabs((double)(num / sqrtl(na * nb))) : 1.0;
      snprintf(key, sizeof key, "direction|PLS|%s", cls);
      vx_check(cosang >= 1 - 1e-6, key, "%dx%d X code %ld y code %d: first x-score is not along X X'y (|cos| = %.9f)", r, c, code, ycode, cosang); }
  }
  vx_outcome(hm_hash(mod->xscores, (uint64_t)(rank * 5 + nlv)));
  DelPLSModel(&mod); DelMatrix(&x); DelMatrix(&y); rm_free(e);
}

/* ---------------------------------------------------------------- PLS2 with responses exhausted before nlv */
static void b_pls2(void) {
  /* X: orthogonal integer columns (Hadamard rows) with per-column scale, Y = X B exactly (2 responses): in exact
   * arithmetic the Y residual is exhausted after at most 2 latent variables; in floating point it may be exactly
   * zero (NaN measure) or rounding noise (finite, non-converging measure) */
  static const double H[3][4] = {{1, 1, -1, -1}, {1, -1, 1, -1}, {1, -1, -1, 1}};
  int c = 2 + vx_choose("cols-2", 2), sc = vx_choose("colscale", 4), nlv = 1 + vx_choose("nlv-1", 3), scal = vx_choose("scaling", 2) - 1;
  int bcode = vx_choose("B", 729), rep = 1 + vx_choose("rowrep-1", 2);
  int r = 4 * rep;
  matrix *x, *y; NewMatrix(&x, (size_t)r, (size_t)c); NewMatrix(&y, (size_t)r, 2);
  static const double CS[4][3] = {{1, 1, 1}, {1, 2, 3}, {3, 1, 2}, {1, 1, 2}};
  for (int i = 0; i < r; i++) for (int j = 0; j < c; j++) x->data[i][j] = H[j][i % 4] * CS[sc][j];
  int code = bcode; double B[3][2];
  for (int j = 0; j < 3; j++) for (int k = 0; k < 2; k++) { B[j][k] = (double)(code % 3) - 1.0; code /= 3; }
  int nz = 0; for (int i = 0; i < r; i++) for (int k = 0; k < 2; k++) { double v = 0; for (int j = 0; j < c; j++) v += x->data[i][j] * B[j][k]; y->data[i][k] = v; if (v != 0) nz = 1; }
  const char *cls = !nz ? "zero-Y" : "Y-exactly-linear-in-orthogonal-X";
  PLSMODEL *mod; NewPLSModel(&mod);
  arm("PLS", cls);
  PLS(x, y, (size_t)nlv, scal, scal, mod, NULL);
  vx_transition(1);
  char key[128];
  if (nz && mod->xscores->col >= 1) { int fin = 1; for (int i = 0; i < r; i++) if (!isfinite(mod->xscores->data[i][0])) fin = 0;
    snprintf(key, sizeof key, "finite|PLS|%s", cls); vx_check(fin, key, "cols %d colscale %d B code %d nlv %d scaling %d: first latent variable not finite", c, sc, bcode, nlv, scal); }
  vx_outcome(hm_hash(mod->xscores, (uint64_t)(c * 7 + nlv)));
  DelPLSModel(&mod); DelMatrix(&x); DelMatrix(&y);
}

/* ---------------------------------------------------------------- CPCA */
static void b_cpca(void) {
  int w1 = 1 + vx_choose("width1-1", 2), w2 = 1 + vx_choose("width2-1", 2), r = 3;
  int scaling = vx_choose("scaling", 2);
  int c1 = vx_choose("block1", 1 << (r * w1)), c2 = vx_choose("block2", 1 << (r * w2)), npc = 1 + vx_choose("npc-1", 3);
  tensor *t; NewTensor(&t, 2); NewTensorMatrix(t, 0, (size_t)r, (size_t)w1); NewTensorMatrix(t, 1, (size_t)r, (size_t)w2);
  for (int i = 0; i < r; i++) { for (int j = 0; j < w1; j++) t->m[0]->data[i][j] = (c1 >> (i * w1 + j)) & 1; for (int j = 0; j < w2; j++) t->m[1]->data[i][j] = (c2 >> (i * w2 + j)) & 1; }
  /* concatenated reference for the rank */
  matrix *cat; NewMatrix(&cat, (size_t)r, (size_t)(w1 + w2)); for (int i = 0; i < r; i++) { for (int j = 0; j < w1; j++) cat->data[i][j] = t->m[0]->data[i][j]; for (int j = 0; j < w2; j++) cat->data[i][w1 + j] = t->m[1]->data[i][j]; }
  ld ss; rmat *e = center_scale(cat, scaling, &ss); int rank = num_rank(e, ss);
  const char *cls = rank == 0 ? "rank0" : npc > rank ? "npc>rank" : "regular";
  CPCAMODEL *mod; NewCPCAModel(&mod);
  arm("CPCA", cls);
  CPCA(t, scaling, (size_t)npc, mod);
  vx_transition(1);
  char key[128]; int k = npc < rank ? npc : rank; if ((int)mod->super_scores->col < k) k = (int)mod->super_scores->col;
  int fin = 1; for (int a = 0; a < k; a++) for (int i = 0; i < r; i++) if (!isfinite(mod->super_scores->data[i][a])) fin = 0;
  snprintf(key, sizeof key, "finite|CPCA|%s", cls);
  vx_check(fin, key, "blocks %dx%d/%dx%d codes %d/%d scaling %d npc %d rank %d: super score up to the rank not finite", r, w1, r, w2, c1, c2, scaling, npc, rank);
  /* defined components: block scores finite and super score = block scores x super weights */
  { int bfin = 1; double wsw = 0;
    for (int a = 0; a < k && a < (int)mod->block_scores->order; a++) { matrix *B = mod->block_scores->m[a];
      for (size_t i = 0; i < B->row; i++) { double s = 0; for (size_t b = 0; b < B->col; b++) { if (!isfinite(B->data[i][b])) bfin = 0; s += B->data[i][b] * mod->super_weights->data[b][a]; } double dev = fabs(s - mod->super_scores->data[i][a]); if (!(dev <= wsw)) wsw = dev; } }
    snprintf(key, sizeof key, "finite|CPCA-block-scores|%s", cls);
    vx_check(bfin, key, "codes %d/%d scaling %d npc %d rank %d: a block score of a defined component is not finite", c1, c2, scaling, npc, rank);
    snprintf(key, sizeof key, "superscore=blockscores*weights|CPCA|%s", cls);
    if (bfin) vx_check(wsw <= 1e-7 * (1 + (double)sqrtl(ss)), key, "codes %d/%d scaling %d npc %d rank %d: super score differs from block scores x super weights by %g", c1, c2, scaling, npc, rank, wsw); }
  int vok = 1; for (size_t a = 0; a < mod->total_expvar->size; a++) if (mod->total_expvar->data[a] != mod->total_expvar->data[a] && (int)a < rank) vok = 0;
  snprintf(key, sizeof key, "varexp|CPCA|%s", cls);
  vx_check(vok, key, "codes %d/%d scaling %d npc %d rank %d: total explained variance of a defined component is NaN", c1, c2, scaling, npc, rank);
  vx_outcome(hm_hash(mod->super_scores, (uint64_t)(rank * 5 + npc)));
  DelCPCAModel(&mod); DelTensor(&t); DelMatrix(&cat); rm_free(e);
}

/* ---------------------------------------------------------------- k-means / selection on duplicated points */
static void b_kmeans(void) {
  /* multiset of n <= 5 points drawn from a 3-point lattice in the plane: counts (a,b,c), a+b+c = n */
  int n = 1 + vx_choose("n-1", 5), a = vx_choose("count0", n + 1), b = vx_choose("count1", n - a + 1), c = n - a - b;
  int k = 1 + vx_choose("k-1", 4), init = vx_choose("initialiser", 4), seed = vx_choose("seed", 2);
  vx_require(k <= n + 2);          /* also more clusters than objects: must still return */
  static const double P[3][2] = {{0, 0}, {1, 0}, {0, 2}};
  matrix *m; NewMatrix(&m, (size_t)n, 2); int cnt[3] = {a, b, c}, row = 0, distinct = 0;
  for (int p = 0; p < 3; p++) { if (cnt[p]) distinct++; for (int q = 0; q < cnt[p]; q++) { m->data[row][0] = P[p][0]; m->data[row][1] = P[p][1]; row++; } }
  const char *cls = k > n ? "k>objects" : k > distinct ? "k>distinct-points" : "k<=distinct-points";
  static const char *IN[4] = {"random", "kmeans++", "MDC", "MaxDis"};
  char api[64]; snprintf(api, sizeof api, "KMeans(%s)", IN[init]);
  uivector *lab; initUIVector(&lab); matrix *cen; initMatrix(&cen);
  srand_((uint32_t)(seed + 1));
  arm(api, cls);
  KMeans(m, (size_t)k, init, lab, cen, 1);
  vx_transition(1);
  char key[128]; snprintf(key, sizeof key, "labels|%s|%s", api, cls);
  int ok = (int)lab->size == n; for (int i = 0; ok && i < n; i++) if (lab->data[i] >= (size_t)k) ok = 0;
  vx_check(ok, key, "n=%d counts %d/%d/%d k=%d: a label is out of range or missing", n, a, b, c, k);
  vx_outcome(vx_hash(lab->data, sizeof(size_t) * lab->size, (uint64_t)(init * 16 + k)));
  DelUIVector(&lab); DelMatrix(&cen); DelMatrix(&m);
}

/* ---------------------------------------------------------------- MLR based validation on collinear X */
static void b_mlrcv(void) {
  int which = vx_choose("validation", 2), n = 4 + vx_choose("n-4", 3), kind = vx_choose("X-kind", 3), groups = 1 + vx_choose("groups-1", n), nth = 1 + vx_choose("nthreads-1", 2);
  int learner = vx_choose("learner", 3);              /* MLR on every design; PLS and LDA only for the single-group request (empty training set) */
  if (which == 0) vx_require(groups == 1);           /* leave-one-out has no group parameter */
  if (learner != 0) vx_require(which == 1 && groups == 1 && kind == 2);
  matrix *x, *y, *pred; NewMatrix(&x, (size_t)n, 2); NewMatrix(&y, (size_t)n, 1); initMatrix(&pred);
  for (int i = 0; i < n; i++) { x->data[i][0] = i % 3; x->data[i][1] = kind == 0 ? 2 * x->data[i][0] : kind == 1 ? 1.0 : (double)((i * i) % 4); y->data[i][0] = learner == 2 ? (double)(i % 2) : (double)((i * 5) % 7); }
  const char *cls = kind == 0 ? "collinear-columns" : kind == 1 ? "constant-column" : "regular";
  static const char *LN[3] = {"MLR", "PLS", "LDA"};
  char api[64]; snprintf(api, sizeof api, "%s(%s)", which == 0 ? "LeaveOneOut" : "BootstrapRandomGroupsCV", LN[learner]);
  MODELINPUT in = initModelInput(); in.mx = x; in.my = y; in.nlv = learner == 1 ? 1 : 0;
  arm(api, cls);
  AlgorithmType at = learner == 0 ? _MLR_ : learner == 1 ? _PLS_ : _LDA_;
  if (which == 0) LeaveOneOut(&in, at, pred, NULL, (size_t)nth, NULL, 0);
  else BootstrapRandomGroupsCV(&in, (size_t)groups, 2, at, pred, NULL, (size_t)nth, NULL, 0);
  vx_transition(1);
  char key[128]; snprintf(key, sizeof key, "shape|%s|%s", api, cls);
  /* a single group leaves no object to train on: the routine may refuse (output untouched) or return one row per object */
  int refused = which == 1 && groups == 1 && pred->row == 0;
  vx_check(refused || ((int)pred->row == n && pred->col == 1), key, "n=%d groups=%d: prediction matrix is %zux%zu", n, groups, pred->row, pred->col);
  if (kind == 2 && which == 0) { snprintf(key, sizeof key, "finite|%s|%s", api, cls); vx_check(hm_allfinite(pred), key, "n=%d: prediction of a regular problem is not finite", n); }
  vx_outcome(hm_hash(pred, (uint64_t)(which * 100 + n * 10 + kind + 1000 * learner)));
  DelMatrix(&pred); DelMatrix(&x); DelMatrix(&y);
}

/* ---------------------------------------------------------------- simplex on degenerate objectives */
static int OBJ;
static double objective(dvector *x) {
  vx_tick(TICKKEY);
  double s = 0;
  for (size_t i = 0; i < x->size; i++) { double v = x->data[i]; s += OBJ == 0 ? 0 : OBJ == 1 ? v : OBJ == 2 ? fabs(v) : (v - 1) * (v - 1); }
  return OBJ == 0 ? 3.0 : s;
}
static void b_simplex(void) {
  int dim = 1 + vx_choose("dim-1", 3); OBJ = vx_choose("objective", 4); int st = vx_choose("start", 3), sp = vx_choose("step", 3), it = vx_choose("iterations", 3);
  static const double START[3] = {0.0, 1.0, -3.5}, STEP[3] = {1.0, 1e-3, 0.0}; static const size_t IT[3] = {0, 10, 2000};
  static const char *ON[4] = {"constant", "linear", "abs", "quadratic"};
  dvector *x0, *step, *best; NewDVector(&x0, (size_t)dim); NewDVector(&step, (size_t)dim); initDVector(&best);
  for (int i = 0; i < dim; i++) { x0->data[i] = START[st] + 0.25 * i; step->data[i] = STEP[sp]; }
  char cls[64]; snprintf(cls, sizeof cls, "%s,step%s", ON[OBJ], sp == 2 ? "=0" : ">0");
  arm("NelderMeadSimplex", cls);
  vx_tick_ceiling = 200000;
  double f = NelderMeadSimplex(objective, x0, step, 1e-10, IT[it], best);
  vx_transition(1);
  char key[128];
  if ((int)best->size == dim && OBJ != 1) {   /* a linear objective is unbounded below: only termination is judged */
    double fb = objective(best);
    snprintf(key, sizeof key, "value|NelderMeadSimplex|%s", cls);
    vx_check(f == fb || (f != f && fb != fb) || fabs(f - fb) <= 1e-12 * (1 + fabs(fb)), key, "dim %d: reported minimum %g but f(best) = %g", dim, f, fb);
  }
  uint64_t h = vx_hash_doubles(&f, 1, (uint64_t)(dim * 64 + OBJ * 16 + st * 4 + sp)); vx_outcome(h);
  DelDVector(&x0); DelDVector(&step); DelDVector(&best);
}

static void body(void) {
  vx_tick_ceiling = 100000;
  switch (vx_choose("family", 7)) {
    case 0: b_pca(); break;
    case 1: b_pls(); break;
    case 2: b_cpca(); break;
    case 3: b_kmeans(); break;
    case 4: b_mlrcv(); break;
    case 5: b_pls2(); break;
    default: b_simplex(); break;
  }
}

int main(int argc, char **argv) {
  vx_describe("alphabet", "PCA: every matrix over {0,1,2} (uncentred fits also over {-2,1,2}) of shape 2x2, 3x2, 2x3, 3x3 x scaling {-1,0,1} x npc 1..cols+2 x {exact, 3 indexed 2^-20 perturbations (3x3: thorough only)}; PLS2: orthogonal integer X (4 or 8 rows, 2-3 columns, 4 column scalings) with 2 responses Y = X B for every B over {-1,0,1}^(3x2), nlv 1..3, scaling {-1,0}; PLS: every X over {0,1,2} of shape 3x2 (thorough: + 4x2) x every y in {0,1}^n x nlv 1..3 x scaling {0,1}; CPCA: 2 blocks of every 3x1 / 3x2 matrix over {0,1} x scaling {0,1} x npc 1..3; KMeans: every multiset of <= 5 points from a 3-point lattice x k 1..4 x 4 initialisers x 2 seeds; MLR LOO / bootstrap validation on collinear, constant-column and regular X, every group count 1..n (and PLS, LDA for the single-group request); Nelder-Mead on constant, linear, |x| and quadratic objectives, zero and non-zero steps, 0/10/2000 iterations");
  vx_describe("oracle", "the call returns before the iteration tick ceiling (1e5 kernel calls; converging fits of these sizes need < 1e4); components up to the numerical rank (singular value^2 > 1e-9 of total) are finite, orthonormal, residual-orthogonal; explained variance beyond the rank is 0 and never NaN");
  vx_set_shard_depth(3);
  vx_set_dev_bound(1, 1);
  vx_expect_outcomes(500);
  vx_timeout_is_violation("nonterm|wallclock|execution-does-not-return", 30);   /* termination IS the property here */
  return vx_main(argc, argv, "C18", body);
}
