/* C19 -- natural cubic spline, trapezoid area and Nelder-Mead simplex minimiser meet their numerical contracts.
 *
 * op 0  spline      knots {3,4,5,8,40} x spacing scale {1e-4,1e-3,1e-2,1,1e2,1e4} x {uniform, irregular (ratios <= 8)} x
 *                   ordinates {line, parabola, general, alternating} x origin {0, negative}: coefficient table identities
 *                   (interpolation, C0, C1, C2 at interior knots, natural ends), cubic_spline_predict at every knot, every
 *                   midpoint and 1 ulp inside each end of every piece against a long-double reference spline (second
 *                   derivative formulation, dense pivoted solve), straight lines reproduced, unit change x -> s x
 * op 1  interpolate interpolate() and curve_area(xy, npoints>0) on the same families
 * op 2  area, complete small scope: EVERY polyline of 2..4 (thorough 5) vertices with gaps in {1/2,1,3} and ordinates in
 *                   {-1,0,1/2,2}: exact integral, additivity at EVERY split vertex (all arithmetic is exact in double)
 * op 3  area, indexed dyadic polylines of 2..12 vertices at x scales 2^-10, 1, 2^10
 * op 4  simplex     strictly convex quadratics, dim 2..6, kappa {1,10,100}, 4 start x 3 step families, budgets 4000 dim, 90 % of
 *                   it, and 0,1,2,3,5,8,13,25,60 iterations; Rosenbrock chain and a cusp function for the two clauses that hold
 *                   for any objective
 *
 * Key classes:  dx<1e-2  := the evaluation point lies strictly to the right of an interior knot by less than 1e-2, the
 * ABSOLUTE tolerance of the library's piece lookup (interpolate.c:91); everything else carries no class suffix. */
#include "hcommon.h"
#include "interpolate.h"
#include "optimization.h"
#include <stdarg.h>
#include <unistd.h>

#define CSAFE 1e3
#define KMAX 40

/* same local work-arounds as h_C12.c (see notes/C19.md): input class in sanitizer crash keys; no allocation stacks */
static char CRASHCLS[120];
void __asan_on_error(void) {
  if (!CRASHCLS[0]) return;
  char b[220]; int n = snprintf(b, sizeof b, "    #0 0x0 in %s /src/(input-class-tag-written-by-h_C19)\n", CRASHCLS);
  if (n > 0) { ssize_t w = write(2, b, (size_t)n); (void)w; }
}
const char *__asan_default_options(void) { return "malloc_context_size=0"; }
static void arm(const char *fn, const char *cls) { snprintf(CRASHCLS, sizeof CRASHCLS, "%s%s%s", fn, cls[0] ? "|" : "", cls); }
static void disarm(void) { CRASHCLS[0] = 0; }

#define MAXMK 160
static struct { char key[140]; double maxpass, minfail; } MK[MAXMK];
static int nMK; static const char *MFILE; static int mfile_init;
static void margin_note(const char *key, double ratio) {
  static int all; if (!mfile_init) { MFILE = getenv("VERIF_MARGINS"); all = getenv("VERIF_MARGINS_ALL") != NULL; mfile_init = 1; }
  if (!MFILE) return;
  if (all) { FILE *o = fopen(MFILE, "a"); if (o) { fprintf(o, "%s\t%.3e\n", key, ratio); fclose(o); } return; }
  int k; for (k = 0; k < nMK; k++) if (!strcmp(MK[k].key, key)) break;
  if (k == nMK) { if (nMK >= MAXMK) return; snprintf(MK[k].key, sizeof MK[k].key, "%s", key); MK[k].maxpass = -1; MK[k].minfail = INFINITY; nMK++; }
  int upd = 0;
  if (ratio <= 1) { if (ratio > MK[k].maxpass) { MK[k].maxpass = ratio; upd = 1; } }
  else { double r = ratio == ratio ? ratio : 1e308; if (r < MK[k].minfail) { MK[k].minfail = r; upd = 1; } }
  if (upd) { FILE *o = fopen(MFILE, "a"); if (o) { fprintf(o, "%s\t%.3e\n", key, ratio); fclose(o); } }
}
static int judge(double err, double tol, const char *key, const char *fmt, ...) __attribute__((format(printf, 4, 5)));
static int judge(double err, double tol, const char *key, const char *fmt, ...) {
  int ok = err <= tol;
  margin_note(key, tol > 0 ? err / tol : (ok ? 0 : INFINITY));
  if (ok) { vx_check(1, key, " "); return 1; }
  char msg[700]; va_list ap; va_start(ap, fmt); vsnprintf(msg, sizeof msg, fmt, ap); va_end(ap);
  vx_check(0, key, "%s :: measured %.3g allowed %.3g", msg, err, tol);
  return 0;
}

/* ====================================================================================================== spline */
static const int NKS[5] = {3, 4, 5, 8, 40};
static const double SCALES[6] = {1e-4, 1e-3, 1e-2, 1.0, 1e2, 1e4};
static const double UNITS[3] = {1e-3, 7.0, 1e3};

typedef struct { int nk; double x[KMAX], y[KMAX]; double hmin, hmax, xabs, yabs; int ord; double lp, lq; char tag[100]; } knots;

/* draws: knots, scale, spacing kind, ordinates, origin */
static void gen_knots(knots *K, int few_nk) {
  int nki = vx_choose("knots", few_nk ? 3 : 5), sci = vx_choose("scale", 6), sp = vx_choose("spacing", vx_thorough() ? 4 : 2), ord = vx_choose("ordinates", 4), org = vx_choose("origin", 2);
  int nk = few_nk ? (nki == 0 ? 3 : nki == 1 ? 5 : 8) : NKS[nki]; double sc = SCALES[sci];
  K->nk = nk; K->ord = ord;
  double x = org ? -0.5 * nk * sc : 0.0;
  for (int i = 0; i < nk; i++) {
    K->x[i] = x;
    double g = sp == 0 ? 1.0 : 1.0 + 7.0 * (vg_val(1200 + sp, i, 0) + 0.5);         /* irregular: gaps in [1,8) x scale, ratio <= 8 */
    x += g * sc;
  }
  K->lp = 0.75; K->lq = -1.5 / sc;                                                  /* the line p + q x has slope of order 1 per spacing */
  for (int i = 0; i < nk; i++) {
    double t = (K->x[i] - K->x[0]) / sc;
    switch (ord) {
      case 0: K->y[i] = K->lp + K->lq * K->x[i]; break;                            /* straight line */
      case 1: K->y[i] = 0.5 + 0.25 * t - 0.03125 * t * t; break;                   /* parabola */
      case 2: K->y[i] = vg_val(1300 + sp, i, 1); break;                            /* general position */
      default: K->y[i] = (i % 2 ? -1.0 : 1.0) * (1.0 + 0.25 * vg_val(1310, i, 2)); /* alternating */
    }
  }
  K->hmin = INFINITY; K->hmax = 0; K->xabs = 0; K->yabs = 0;
  for (int i = 0; i < nk; i++) { if (fabs(K->x[i]) > K->xabs) K->xabs = fabs(K->x[i]); if (fabs(K->y[i]) > K->yabs) K->yabs = fabs(K->y[i]); if (i) { double h = K->x[i] - K->x[i - 1]; if (h < K->hmin) K->hmin = h; if (h > K->hmax) K->hmax = h; } }
  snprintf(K->tag, sizeof K->tag, "knots=%d scale=%g spacing=%d ordinates=%d origin=%d", nk, sc, sp, ord, org);
}

/* reference natural spline: second derivatives M by a dense pivoted solve in long double */
typedef struct { int nk; ld x[KMAX], y[KMAX], M[KMAX]; ld Minf, mag, g1; } refspline;
static void ref_build(refspline *R, int nk, const double *x, const double *y) {
  R->nk = nk; for (int i = 0; i < nk; i++) { R->x[i] = x[i]; R->y[i] = y[i]; }
  rmat *A = rm_new(nk, nk), *b = rm_new(nk, 1), *m = rm_new(nk, 1);
  RM(A, 0, 0) = 1; RM(A, nk - 1, nk - 1) = 1;
  for (int i = 1; i < nk - 1; i++) { ld h0 = R->x[i] - R->x[i - 1], h1 = R->x[i + 1] - R->x[i]; RM(A, i, i - 1) = h0; RM(A, i, i) = 2 * (h0 + h1); RM(A, i, i + 1) = h1; RM(b, i, 0) = 6 * ((R->y[i + 1] - R->y[i]) / h1 - (R->y[i] - R->y[i - 1]) / h0); }
  rm_solve(A, b, m);
  R->Minf = 0; R->g1 = 0; ld ya = 0, hmx = 0;
  for (int i = 0; i < nk; i++) { R->M[i] = RM(m, i, 0); if (fabsl(R->M[i]) > R->Minf) R->Minf = fabsl(R->M[i]); if (fabsl(R->y[i]) > ya) ya = fabsl(R->y[i]); }
  for (int i = 0; i + 1 < nk; i++) { ld h = R->x[i + 1] - R->x[i]; if (h > hmx) hmx = h; ld g = fabsl(R->y[i + 1] - R->y[i]) / h + R->Minf * h; if (g > R->g1) R->g1 = g; }
  R->mag = ya + R->Minf * hmx * hmx;                 /* bound on every term a, b h, c h^2, d h^3 of every piece */
  rm_free(A); rm_free(b); rm_free(m);
}
static int ref_piece(const refspline *R, ld x) { int j = 0; while (j < R->nk - 2 && x >= R->x[j + 1]) j++; return j; }
static ld ref_eval(const refspline *R, ld x) {
  int j = ref_piece(R, x); ld h = R->x[j + 1] - R->x[j], a = R->x[j + 1] - x, b = x - R->x[j];
  return R->M[j] * a * a * a / (6 * h) + R->M[j + 1] * b * b * b / (6 * h) + (R->y[j] / h - R->M[j] * h / 6) * a + (R->y[j + 1] / h - R->M[j + 1] * h / 6) * b;
}
/* the class of one evaluation point: strictly right of an INTERIOR knot by less than the library's absolute 1e-2 */
static int near_right_of_interior_knot(const knots *K, double x) { for (int k = 1; k < K->nk - 1; k++) { double d = x - K->x[k]; if (d > 0 && d < 1.0001e-2) return 1; } return 0; }

static matrix *xy_of(const knots *K) { matrix *xy; NewMatrix(&xy, (size_t)K->nk, 2); for (int i = 0; i < K->nk; i++) { xy->data[i][0] = K->x[i]; xy->data[i][1] = K->y[i]; } return xy; }
static int eval_points(const knots *K, double *p) {
  int n = 0; for (int i = 0; i < K->nk; i++) p[n++] = K->x[i];
  for (int i = 0; i + 1 < K->nk; i++) { p[n++] = K->x[i] + 0.5 * (K->x[i + 1] - K->x[i]); p[n++] = nextafter(K->x[i], INFINITY); p[n++] = nextafter(K->x[i + 1], -INFINITY); }
  return n;
}
static void log_knots(const knots *K) { if (!vx_replaying()) return; vx_log("%s\n", K->tag); for (int i = 0; i < K->nk && i < 12; i++) vx_log("  x[%d] = %.17g  y = %.17g\n", i, K->x[i], K->y[i]); if (K->nk > 12) vx_log("  ... (%d knots)\n", K->nk); }

static void op_spline(void) {
  knots K; gen_knots(&K, 0); int nk = K.nk, np = nk - 1; log_knots(&K);
  refspline R; ref_build(&R, nk, K.x, K.y);
  double ratio = K.hmax / K.hmin, mag = (double)R.mag;
  matrix *xy = xy_of(&K), *S; initMatrix(&S);                         /* convention of tests/testinterpolate.c */
  arm("cubic_spline_interpolation", ""); cubic_spline_interpolation(xy, S); disarm(); vx_transition(1);
  int shp = (int)S->row == np && (int)S->col == 5;
  vx_check(shp, "shape|cubic_spline_interpolation", "%s: table is %zux%zu, expected %dx5", K.tag, S->row, S->col, np);
  if (!shp) { vx_outcome(1); DelMatrix(&xy); DelMatrix(&S); return; }
  if (vx_replaying()) for (int j = 0; j < np && j < 12; j++) vx_log("  S[%d] = x %.10g a %.10g b %.10g c %.10g d %.10g   (reference c %.10Lg)\n", j, S->data[j][0], S->data[j][1], S->data[j][2], S->data[j][3], S->data[j][4], R.M[j] / 2);
  /* --- identities read off the coefficient table ------------------------------------------------------------ */
  int exact = 1; for (int j = 0; j < np; j++) if (S->data[j][0] != K.x[j] || S->data[j][1] != K.y[j]) exact = 0;
  vx_check(exact, "interpolates|cubic_spline_interpolation", "%s: S_j(x_j) = a_j differs from y_j (or the knot column from x_j)", K.tag);
  double e0 = 0, e1 = 0, e2 = 0, en = 0, ec = 0, t2 = 0;
  for (int j = 0; j < np; j++) {
    ld h = (ld)K.x[j + 1] - K.x[j], a = S->data[j][1], b = S->data[j][2], c = S->data[j][3], d = S->data[j][4];
    double v0 = (double)fabsl(a + b * h + c * h * h + d * h * h * h - (ld)K.y[j + 1]); if (!(v0 <= e0)) e0 = v0;          /* continuity of S, and S(x_n) = y_n */
    double cc = (double)fabsl(2 * c - R.M[j]); if (!(cc <= ec)) ec = cc;
    if (j + 1 < np) {
      double v1 = (double)fabsl(b + 2 * c * h + 3 * d * h * h - (ld)S->data[j + 1][2]); if (!(v1 <= e1)) e1 = v1;        /* continuity of S' */
      double v2 = (double)fabsl(2 * c + 6 * d * h - 2 * (ld)S->data[j + 1][3]); if (!(v2 <= e2)) e2 = v2;                 /* continuity of S'' */
      double w = fabs(S->data[j][3]) + fabs(S->data[j + 1][3]); if (w > t2) t2 = w;
    } else { en = (double)fabsl(2 * c + 6 * d * h); if (fabs(S->data[j][3]) > t2) t2 = fabs(S->data[j][3]); }              /* S''(x_n) = 0 */
  }
  double cdenom = (double)R.Minf + K.yabs / (K.hmin * K.hmin);
  judge(e0, CSAFE * DEPS * mag, "C0|cubic_spline_interpolation", "%s: max|S_j(x_j+1) - y_j+1|", K.tag);
  judge(e1, CSAFE * DEPS * ratio * (double)R.g1, "C1|cubic_spline_interpolation", "%s: max jump of S' at an interior knot", K.tag);
  judge(e2, CSAFE * DEPS * t2, "C2|cubic_spline_interpolation", "%s: max jump of S'' at an interior knot", K.tag);
  judge(en, CSAFE * DEPS * t2, "natural-end|cubic_spline_interpolation", "%s: |S''(x_n)|", K.tag);
  vx_check(S->data[0][3] == 0, "natural-start|cubic_spline_interpolation", "%s: S''(x_0)/2 = c_0 = %g", K.tag, S->data[0][3]);
  judge(ec, CSAFE * DEPS * ratio * cdenom, "coef|cubic_spline_interpolation", "%s: max|2 c_j - M_j| against the reference second derivatives", K.tag);
  if (K.ord == 0) {     /* straight lines: c = d = 0 up to the rounding of the ordinates themselves */
    double ecd = 0; for (int j = 0; j < np; j++) { double h = K.x[j + 1] - K.x[j], v = fabs(S->data[j][3]) * h * h + fabs(S->data[j][4]) * h * h * h; if (!(v <= ecd)) ecd = v; }
    judge(ecd, CSAFE * DEPS * ratio * K.yabs, "line-coef|cubic_spline_interpolation", "%s: max(|c|h^2+|d|h^3) on a straight line", K.tag);
  }
  /* --- evaluation ------------------------------------------------------------------------------------------- */
  double P[4 * KMAX]; int npts = eval_points(&K, P);
  dvector *xv = hv_new(npts, P), *yv; initDVector(&yv);
  arm("cubic_spline_predict", ""); cubic_spline_predict(xv, S, yv); disarm(); vx_transition(1);
  int pshp = (int)yv->size == npts; vx_check(pshp, "shape|cubic_spline_predict", "%s: %zu values for %d points", K.tag, yv->size, npts);
  uint64_t h = hm_hash(S, 100);
  if (pshp) {
    double tolv = CSAFE * DEPS * ratio * mag, eg = 0, eb = 0, lg = 0, lb = 0; int wg = -1, wb = -1;
    for (int i = 0; i < npts; i++) {
      double e = fabs(yv->data[i] - (double)ref_eval(&R, P[i])), el = fabs(yv->data[i] - (K.lp + K.lq * P[i]));
      if (near_right_of_interior_knot(&K, P[i])) { if (!(e <= eb)) { eb = e; wb = i; } if (!(el <= lb)) lb = el; } else { if (!(e <= eg)) { eg = e; wg = i; } if (!(el <= lg)) lg = el; }
    }
    judge(eg, tolv, "value|cubic_spline_predict", "%s: point #%d x=%.17g predicted %.12g reference %.12Lg", K.tag, wg, wg >= 0 ? P[wg] : 0, wg >= 0 ? yv->data[wg] : 0, wg >= 0 ? ref_eval(&R, P[wg]) : 0);
    judge(eb, tolv, "value|cubic_spline_predict|dx<1e-2", "%s: point #%d x=%.17g predicted %.12g reference %.12Lg", K.tag, wb, wb >= 0 ? P[wb] : 0, wb >= 0 ? yv->data[wb] : 0, wb >= 0 ? ref_eval(&R, P[wb]) : 0);
    if (K.ord == 0) { double tl = CSAFE * DEPS * ratio * (K.yabs + fabs(K.lq) * K.xabs); judge(lg, tl, "line|cubic_spline_predict", "%s: distance from the straight line", K.tag); judge(lb, tl, "line|cubic_spline_predict|dx<1e-2", "%s: distance from the straight line", K.tag); }
    h = hv_hash(yv, h);
    /* --- units of x: predict(s x) on knots s x_j equals predict(x), library against library --------------------- */
    for (int u = 0; u < 3; u++) {
      double s = UNITS[u]; knots Ks = K; double Ps[4 * KMAX]; char bad[4 * KMAX];
      for (int i = 0; i < nk; i++) Ks.x[i] = s * K.x[i];
      for (int i = 0; i < npts; i++) { Ps[i] = s * P[i]; bad[i] = (char)(near_right_of_interior_knot(&K, P[i]) || near_right_of_interior_knot(&Ks, Ps[i])); }   /* class of the point in either unit */
      matrix *xys = xy_of(&Ks), *Ss; initMatrix(&Ss); dvector *xs = hv_new(npts, Ps), *ys; initDVector(&ys);
      arm("cubic_spline_predict", "units"); cubic_spline_interpolation(xys, Ss); cubic_spline_predict(xs, Ss, ys); disarm(); vx_transition(2);
      /* s x_j is rounded: the knots move by eps|x|, i.e. the spacings change by a relative eps |x|/h */
      double tolu = CSAFE * DEPS * ratio * mag * (2 + K.xabs / K.hmin), eu[2] = {0, 0}; int wu[2] = {-1, -1}, szok = (int)ys->size == npts;
      vx_check(szok, "shape|cubic_spline_predict", "%s unit factor %g: %zu values for %d points", K.tag, s, ys->size, npts);
      if (szok) for (int i = 0; i < npts; i++) { double e = fabs(ys->data[i] - yv->data[i]); int b = bad[i]; if (!(e <= eu[b])) { eu[b] = e; wu[b] = i; } }
      for (int b = 0; b < 2 && szok; b++)
        judge(eu[b], tolu, b ? "units|cubic_spline_predict|dx<1e-2" : "units|cubic_spline_predict", "%s unit factor %g: point #%d x=%.17g gives %.12g, in the other unit %.12g", K.tag, s, wu[b], wu[b] >= 0 ? P[wu[b]] : 0, wu[b] >= 0 ? yv->data[wu[b]] : 0, wu[b] >= 0 ? ys->data[wu[b]] : 0);
      DelMatrix(&xys); DelMatrix(&Ss); DelDVector(&xs); DelDVector(&ys);
    }
  }
  vx_outcome(h);
  DelMatrix(&xy); DelMatrix(&S); DelDVector(&xv); DelDVector(&yv);
}

/* ---- op 1: interpolate() and the spline branch of curve_area() ------------------------------------------------ */
static void op_interp(void) {
  knots K; gen_knots(&K, 1); static const int NPTS[4] = {2, 3, 10, 33}; int npt = NPTS[vx_choose("npoints", 4)]; int nk = K.nk; log_knots(&K);
  refspline R; ref_build(&R, nk, K.x, K.y); double ratio = K.hmax / K.hmin, mag = (double)R.mag;
  matrix *xy = xy_of(&K), *out; initMatrix(&out);                     /* convention of tests/testinterpolate.c */
  arm("interpolate", ""); interpolate(xy, (size_t)npt, out); disarm(); vx_transition(1);
  int shp = (int)out->row == npt && (int)out->col == 2; vx_check(shp, "shape|interpolate", "%s npoints %d: result %zux%zu", K.tag, npt, out->row, out->col);
  if (shp) {
    double ex = 0, eg = 0, eb = 0, span = K.x[nk - 1] - K.x[0]; int bad = 0, wg = -1, wb = -1;
    for (int i = 0; i < npt; i++) {
      double x = out->data[i][0], want = K.x[0] + span * i / (npt - 1), e = fabs(x - want); if (!(e <= ex)) ex = e;   /* equally spaced abscissae from the first to the last knot */
      double ev = fabs(out->data[i][1] - (double)ref_eval(&R, x));
      if (near_right_of_interior_knot(&K, x)) { bad = 1; if (!(ev <= eb)) { eb = ev; wb = i; } } else if (!(ev <= eg)) { eg = ev; wg = i; }
    }
    judge(ex, 4 * DEPS * npt * (K.xabs + span), "abscissae|interpolate", "%s npoints %d: abscissae are not equally spaced from x_0 to x_n", K.tag, npt);
    /* the abscissae are accumulated, so a point meant to sit on a knot may sit eps|x| beside it: the value moves by |S'| eps |x| */
    double tolv = CSAFE * DEPS * ratio * mag * (2 + K.xabs / K.hmin);
    judge(eg, tolv, "value|interpolate", "%s npoints %d: point #%d x=%.17g y=%.12g reference %.12Lg", K.tag, npt, wg, wg >= 0 ? out->data[wg][0] : 0, wg >= 0 ? out->data[wg][1] : 0, wg >= 0 ? ref_eval(&R, out->data[wg][0]) : 0);
    judge(eb, tolv, "value|interpolate|dx<1e-2", "%s npoints %d: point #%d x=%.17g y=%.12g reference %.12Lg", K.tag, npt, wb, wb >= 0 ? out->data[wb][0] : 0, wb >= 0 ? out->data[wb][1] : 0, wb >= 0 ? ref_eval(&R, out->data[wb][0]) : 0);
    uint64_t h = hm_hash(out, 110);
    if (K.ord == 0) {   /* a straight line is reproduced, and the trapezoid rule is exact on it: area = span * (y_0 + y_n)/2 */
      arm("curve_area", "intervals>0"); double ar = curve_area(xy, (size_t)npt); disarm(); vx_transition(1);
      double want = span * 0.5 * (K.y[0] + K.y[nk - 1]), tola = CSAFE * DEPS * ratio * (K.yabs + fabs(K.lq) * K.xabs) * span * (2 + K.xabs / K.hmin);
      judge(fabs(ar - want), tola, bad ? "line-area|curve_area|intervals>0|dx<1e-2" : "line-area|curve_area|intervals>0", "%s npoints %d: area %.12g, exact %.12g", K.tag, npt, ar, want);
      h = vx_hash_doubles(&ar, 1, h);
    }
    vx_outcome(h);
  } else vx_outcome(2);
  DelMatrix(&xy); DelMatrix(&out);
}

/* ====================================================================================================== area */
/* exact arithmetic: every coordinate is a small dyadic rational, so products and sums below are exact in double and in
 * long double; the library must return exactly the integral of the polyline */
static void area_checks(int n, const double *x, const double *y, const char *tag, uint64_t *h) {
  matrix *xy; NewMatrix(&xy, (size_t)n, 2); for (int i = 0; i < n; i++) { xy->data[i][0] = x[i]; xy->data[i][1] = y[i]; }
  ld ex = 0; for (int i = 0; i + 1 < n; i++) ex += ((ld)x[i + 1] - x[i]) * ((ld)y[i] + y[i + 1]) / 2;
  arm("curve_area", "intervals=0"); double a = curve_area(xy, 0); disarm(); vx_transition(1);
  vx_check((ld)a == ex, "integral|curve_area", "%s: area %.17g, exact integral of the polyline %.17Lg", tag, a, ex);
  int unchanged = 1; for (int i = 0; i < n; i++) if (xy->data[i][0] != x[i] || xy->data[i][1] != y[i]) unchanged = 0;
  vx_check(unchanged && (int)xy->row == n, "input-clobbered|curve_area", "%s", tag);
  for (int k = 1; k + 1 < n; k++) {    /* every split vertex: [x_0,x_k] + [x_k,x_n] */
    matrix *l, *r; NewMatrix(&l, (size_t)(k + 1), 2); NewMatrix(&r, (size_t)(n - k), 2);
    for (int i = 0; i <= k; i++) { l->data[i][0] = x[i]; l->data[i][1] = y[i]; } for (int i = k; i < n; i++) { r->data[i - k][0] = x[i]; r->data[i - k][1] = y[i]; }
    double al = curve_area(l, 0), ar = curve_area(r, 0); vx_transition(2);
    vx_check(al + ar == a, "additive|curve_area", "%s: split at vertex %d: %.17g + %.17g != %.17g", tag, k, al, ar, a);
    DelMatrix(&l); DelMatrix(&r);
  }
  *h = vx_hash_doubles(&a, 1, *h); DelMatrix(&xy);
}
static void op_area_small(void) {
  static const double GAP[3] = {0.5, 1.0, 3.0}, ORD[4] = {-1.0, 0.0, 0.5, 2.0}; static const char *yl[5] = {"y0", "y1", "y2", "y3", "y4"}, *gl[4] = {"g0", "g1", "g2", "g3"};
  int n = 2 + vx_choose("vertices-2", vx_thorough() ? 4 : 3); double x[5], y[5]; char tag[120]; int o = 0;
  for (int i = 0; i < n; i++) y[i] = ORD[vx_choose(yl[i], 4)];
  x[0] = -1.5; for (int i = 1; i < n; i++) x[i] = x[i - 1] + GAP[vx_choose(gl[i - 1], 3)];
  o = snprintf(tag, sizeof tag, "polyline"); for (int i = 0; i < n && o < 100; i++) o += snprintf(tag + o, sizeof tag - (size_t)o, " (%g,%g)", x[i], y[i]);
  uint64_t h = 120; area_checks(n, x, y, tag, &h); vx_outcome(h);
}
static void op_area_indexed(void) {
  int n = 2 + vx_choose("vertices-2", 11), fam = vx_choose("fam", vx_thorough() ? 16 : 4), xs = vx_choose("xscale", 3); double x[12], y[12], sc = ldexp(1.0, xs == 0 ? -10 : xs == 1 ? 0 : 10); char tag[120];
  double xx = -4 * sc;
  for (int i = 0; i < n; i++) { x[i] = xx; xx += sc * (1 + (int)floor((vg_val(1400 + fam, i, 0) + 0.5) * 8)) / 8.0; y[i] = ((int)floor((vg_val(1400 + fam, i, 1) + 0.5) * 65) - 32) / 16.0; }
  snprintf(tag, sizeof tag, "dyadic polyline vertices=%d fam=%d xscale=%g", n, fam, sc);
  if (vx_replaying()) for (int i = 0; i < n; i++) vx_log("  (%.17g, %.17g)\n", x[i], y[i]);
  uint64_t h = 130; area_checks(n, x, y, tag, &h); vx_outcome(h);
}

/* ====================================================================================================== simplex */
#define DMAX 6
static struct { int d, kind; double A[DMAX * DMAX], xs[DMAX], c; long evals; } Q;
/* kind 0: strictly convex quadratic (all three clauses of the statement are judged)
 * kind 1: Rosenbrock chain, kind 2: sum of sqrt|x_i - x*_i| (cusps, concave on each side: the simplex shrinks) --
 *         "reports the value of the point it returns" and "never worse than the best initial vertex" hold for ANY
 *         objective, so they are judged on these too; convergence is only promised for quadratics and is not judged */
static double quad(dvector *x) {
  Q.evals++;
  if (Q.kind == 1) { double r = 0; for (int i = Q.d - 1; i > 0; i--) { double a = x->data[i] - x->data[i - 1] * x->data[i - 1], b = 1 - x->data[i - 1]; r += 100 * a * a + b * b; } return r + Q.c; }
  if (Q.kind == 2) { double r = 0; for (int i = 0; i < Q.d; i++) r += sqrt(fabs(x->data[i] - Q.xs[i])); return r + Q.c; }
  double s = 0; for (int i = 0; i < Q.d; i++) { double r = 0; for (int j = 0; j < Q.d; j++) r += Q.A[i * Q.d + j] * (x->data[j] - Q.xs[j]); s += (x->data[i] - Q.xs[i]) * r; }
  return s + Q.c;
}
static void op_simplex(void) {
  static const double KAP[3] = {1, 10, 100};
  int d = 2 + vx_choose("dim-2", 5), kind = vx_choose("objective", 3), ki = vx_choose("kappa", 3), st = vx_choose("start", 4), sp = vx_choose("step", 3), fam = vx_choose("fam", vx_thorough() ? 3 : 1);
  vx_require(kind == 0 || ki == 0);
  /* f(x) = (x-x*)' A (x-x*) + c,  A = Q diag(lambda) Q',  lambda geometric from 1 to kappa: strictly convex, f* = c at x* */
  double Qm[DMAX * DMAX], lam[DMAX]; vg_orth(1500 + fam * 8 + ki, d, Qm);
  for (int i = 0; i < d; i++) lam[i] = pow(KAP[ki], (double)i / (d - 1));
  int neg = kind == 0 ? vx_choose("offset", 2) : 0;                       /* quadratics also with a large negative constant: objective negative on the whole simplex */
  Q.d = d; Q.kind = kind; Q.c = neg ? -40.0 : 0.75 - fam; Q.evals = 0;
  for (int i = 0; i < d; i++) for (int j = i; j < d; j++) { ld s = 0; for (int t = 0; t < d; t++) s += (ld)Qm[i * d + t] * lam[t] * Qm[j * d + t]; Q.A[i * d + j] = Q.A[j * d + i] = (double)s; }
  for (int i = 0; i < d; i++) Q.xs[i] = kind == 1 ? 1.0 : 3 * vg_val(1510 + fam, i, 0);
  double x0[DMAX], stp[DMAX];
  for (int i = 0; i < d; i++) {
    double v = vg_val(1520 + fam, i, st);
    x0[i] = st == 0 ? Q.xs[i] + v : st == 1 ? Q.xs[i] + 20 * v : st == 2 ? 0.0 : 1e3 * v;              /* near, far, origin, very far */
    stp[i] = sp == 0 ? 0.5 : sp == 1 ? 0.05 + 0.1 * fabs(vg_val(1530, i, 0)) : (i % 2 ? -2.0 : 2.0);   /* default (NULL), small irregular, large alternating */
  }
  char tag[140]; snprintf(tag, sizeof tag, "%s dim=%d kappa=%g start=%d step=%d fam=%d", kind == 0 ? "quadratic" : kind == 1 ? "rosenbrock" : "sqrt-cusp", d, KAP[ki], st, sp, fam);
  dvector *xv = hv_new(d, x0), *sv = sp == 0 ? NULL : hv_new(d, stp), *tmp = hv_new(d, x0);
  /* the best vertex of the initial simplex, built as the routine documents it: x0 and x0 + step_j e_j */
  double f0 = quad(tmp), fbest0 = f0;
  for (int j = 0; j < d; j++) { for (int i = 0; i < d; i++) tmp->data[i] = x0[i]; tmp->data[j] += stp[j]; double f = quad(tmp); if (f < fbest0) fbest0 = f; }
  size_t budget = (size_t)(4000 * d);
  dvector *b1, *b2; initDVector(&b1); initDVector(&b2);             /* convention of tests/testoptimization.c */
  char cls[60]; snprintf(cls, sizeof cls, "dim=%d,kappa=%g", d, KAP[ki]);
  arm("NelderMeadSimplex", cls);
  double r1 = NelderMeadSimplex(&quad, xv, sv, 1e-12, budget - budget / 10, b1);
  long ev1 = Q.evals;
  double r2 = NelderMeadSimplex(&quad, xv, sv, 1e-12, budget, b2);
  disarm(); vx_transition(2);
  char key[160];
  int shp = (int)b1->size == d && (int)b2->size == d; vx_check(shp, "shape|NelderMeadSimplex", "%s: best has %zu entries", tag, b2->size);
  if (shp) {
    if (vx_replaying()) { vx_log("%s: f(x0) %.10g best initial vertex %.10g f* %.10g; after %zu iterations %.17g, after %zu iterations %.17g (%ld evaluations in the first run)\n", tag, f0, fbest0, Q.c, budget - budget / 10, r1, budget, r2, ev1); for (int i = 0; i < d; i++) vx_log("  x*[%d] %.10g  best %.10g\n", i, Q.xs[i], b2->data[i]); }
    /* "returns a point whose objective value is the value it reports": the function is pure, so bit-exact */
    double re1 = quad(b1), re2 = quad(b2);
    vx_check(re1 == r1 && re2 == r2, "reported-value|NelderMeadSimplex", "%s: reports %.17g but f(best) = %.17g (short run: %.17g vs %.17g)", tag, r2, re2, r1, re1);
    /* "never worse than the best vertex of the initial simplex" */
    vx_check(r1 <= fbest0 && r2 <= fbest0, "not-worse-than-start|NelderMeadSimplex", "%s: reports %.17g (short run %.17g), best initial vertex %.17g", tag, r2, r1, fbest0);
    /* "converges to the minimiser": judged on outcome, only stagnation away from the optimum fails (DESIGN 6.0):
     * gap above the allowance AND no decrease of f over the last 10 %% of the 4000*dim budget */
    if (kind == 0) {
      double gap = r2 - Q.c, allow = 1e-6 * fmax(1.0, f0 - Q.c); int stagnated = !(r2 < r1);
      margin_note("converges|NelderMeadSimplex", gap / allow);
      snprintf(key, sizeof key, "converges|NelderMeadSimplex|%s", cls);
      vx_check(gap <= allow || !stagnated, key, "%s: f(best) - f* = %.3g > %.3g and no progress in the last 10%% of %zu iterations (f(x0) - f* = %.3g)", tag, gap, allow, budget, f0 - Q.c);
      /* and it gets there within the budget of 4000*dim iterations: on these quadratics (kappa <= 100, dim <= 6) the documented
       * adaptive Nelder-Mead needs < 2000 evaluations and ends 6 orders of magnitude below the allowance (measured worst
       * gap/allowance 5e-6 over both tiers), so a run that is still above it after the whole budget has lost its convergence */
      snprintf(key, sizeof key, "converges-in-budget|NelderMeadSimplex|%s", cls);
      vx_check(gap <= allow, key, "%s: after %zu iterations f(best) - f* = %.3g is still above %.3g (f(x0) - f* = %.3g)", tag, budget, gap, allow, f0 - Q.c);
    }
    vx_check(r2 >= Q.c - 1e-9 * fmax(1.0, fabs(Q.c)), "below-minimum|NelderMeadSimplex", "%s: reports %.17g below the minimum %.17g of the objective", tag, r2, Q.c);
    uint64_t h = hv_hash(b2, 140); h = vx_hash_doubles(&r2, 1, h);
    /* the first two clauses hold for every iteration budget, in particular before anything has converged */
    static const size_t SMALL[9] = {0, 1, 2, 3, 5, 8, 13, 25, 60};
    for (int bi = 0; bi < 9; bi++) {
      dvector *b3; initDVector(&b3);
      arm("NelderMeadSimplex", cls); double r3 = NelderMeadSimplex(&quad, xv, sv, 1e-12, SMALL[bi], b3); disarm(); vx_transition(1);
      if ((int)b3->size == d) {
        double re3 = quad(b3);
        vx_check(re3 == r3, "reported-value|NelderMeadSimplex", "%s after %zu iterations: reports %.17g but f(best) = %.17g", tag, SMALL[bi], r3, re3);
        vx_check(r3 <= fbest0, "not-worse-than-start|NelderMeadSimplex", "%s after %zu iterations: reports %.17g, best initial vertex %.17g", tag, SMALL[bi], r3, fbest0);
        h = vx_hash_doubles(&r3, 1, h);
      } else vx_check(0, "shape|NelderMeadSimplex", "%s after %zu iterations: best has %zu entries", tag, SMALL[bi], b3->size);
      DelDVector(&b3);
    }
    vx_outcome(h);
  } else vx_outcome(3);
  DelDVector(&xv); if (sv) DelDVector(&sv); DelDVector(&tmp); DelDVector(&b1); DelDVector(&b2);
}

static void body(void) {
  int op = vx_choose("op", 5);
  static int only = -2; if (only == -2) only = getenv("C19_ONLY_OP") ? atoi(getenv("C19_ONLY_OP")) : -1;   /* debugging knob for manual runs */
  if (only >= 0) vx_require(op == only);
  switch (op) {
    case 0: op_spline(); break;
    case 1: op_interp(); break;
    case 2: op_area_small(); break;
    case 3: op_area_indexed(); break;
    case 4: op_simplex(); break;
  }
}

int main(int argc, char **argv) {
  vg_seed(getenv("VERIF_SEED") ? atol(getenv("VERIF_SEED")) : 0);
  vx_describe("alphabet", "spline: knots {3,4,5,8,40} x spacing scale {1e-4,1e-3,1e-2,1,1e2,1e4} x {uniform, irregular gaps in [1,8)} x ordinates {line, parabola, general, alternating} x origin {0, negative}; evaluation at every knot, every midpoint, 1 ulp inside both ends of every piece; unit factors {1e-3,7,1e3}; interpolate()/curve_area(n>0) with 2,3,10,33 points; "
              "area: EVERY polyline of 2..4 (thorough 5) vertices over gaps {1/2,1,3} x ordinates {-1,0,1/2,2}, indexed dyadic polylines of 2..12 vertices at x scales 2^-10,1,2^10, every split vertex; simplex: quadratics dim 2..6, kappa {1,10,100} (plus Rosenbrock and a cusp function for the value/not-worse clauses), 4 starts x 3 steps (one of them NULL), budgets 4000 dim, 0.9 of it and 0..60 iterations, xtol 1e-12");
  vx_describe("oracle", "table: a_j=y_j exactly, S/S'/S'' continuous at interior knots, S''=0 at both ends, 2c=M of a long-double reference; predict = reference spline (tol 1e3 eps ratio (|y|+|M|h^2)); lines reproduced; predict(s x | s knots) = predict(x | knots); curve_area = exact rational integral, additive at every split; simplex: reported value == f(best) bit-exact, <= best initial vertex, stagnation away from the optimum only");
  vx_set_shard_depth(3);
  vx_expect_outcomes(1500);
  return vx_main(argc, argv, "C19", body);
}
