/* engine self test: a toy body with a planted oracle failure, a planted out-of-bounds write and pruning */
#include "vx.h"
#include <stdlib.h>
#include <stdio.h>
static void body(void) {
  int a = vx_choose("a", 5), b = vx_choose("b", 4), c = vx_choose_dev("c", 3), d = vx_choose_dev("d", 3);
  vx_require(!(a == 1 && b == 1));
  vx_transition(1);
  vx_outcome(vx_hash(&a, sizeof a, (uint64_t)b));
  vx_check(!(a == 3 && b == 2 && c == 1), "planted|abc", "a=%d b=%d c=%d d=%d", a, b, c, d);
  if (a == 4 && b == 3 && c == 0 && d == 2) { volatile char *p = malloc(4); p[4 + a] = 1; free((void *)p); }
  if (a == 2 && b == 0 && c == 2 && d == 0) { for (int i = 0; i < 300000; i++) vx_tick("planted|hang"); }
}
int main(int argc, char **argv) {
  vx_describe("alphabet", "a in 0..4, b in 0..3, c,d deviation choices in 0..2");
  vx_expect_outcomes(10);
  return vx_main(argc, argv, "SELFTEST", body);
}
