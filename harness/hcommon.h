/* helpers shared by the harnesses: library <-> reference conversions, hashing, comparisons.
 * Includes libscientific headers, therefore must never include <signal.h>. */
#ifndef HCOMMON_H
#define HCOMMON_H
#include <stdio.h>
#include <stdlib.h>
#include <string.h>
#include <math.h>
#include <float.h>
#include "vx.h"
#include "vnum.h"
#include "matrix.h"
#include "vector.h"
#include "tensor.h"
#include "numeric.h"

#define DEPS 2.220446049250313e-16

static inline matrix *hm_new(int r, int c, const double *rowmajor) {
  matrix *m; NewMatrix(&m, (size_t)r, (size_t)c);
  if (rowmajor) for (int i = 0; i < r; i++) for (int j = 0; j < c; j++) m->data[i][j] = rowmajor[(size_t)i * (size_t)c + (size_t)j];
  return m;
}
static inline matrix *hm_from_rm(const rmat *a) {
  matrix *m; NewMatrix(&m, (size_t)a->r, (size_t)a->c);
  for (int i = 0; i < a->r; i++) for (int j = 0; j < a->c; j++) m->data[i][j] = (double)RM(a, i, j);
  return m;
}
static inline rmat *rm_from(const matrix *m) {
  rmat *a = rm_new((int)m->row, (int)m->col);
  for (size_t i = 0; i < m->row; i++) for (size_t j = 0; j < m->col; j++) RM(a, i, j) = m->data[i][j];
  return a;
}
static inline rmat *rm_from_dv(const dvector *v) { rmat *a = rm_new((int)v->size, 1); for (size_t i = 0; i < v->size; i++) RM(a, i, 0) = v->data[i]; return a; }
static inline dvector *hv_new(int n, const double *d) { dvector *v; NewDVector(&v, (size_t)n); if (d) for (int i = 0; i < n; i++) v->data[i] = d[i]; return v; }
static inline uint64_t hm_hash(const matrix *m, uint64_t h) {
  h = vx_hash(&m->row, sizeof m->row, h); h = vx_hash(&m->col, sizeof m->col, h);
  for (size_t i = 0; i < m->row; i++) h = vx_hash_doubles(m->data[i], m->col, h);
  return h;
}
static inline uint64_t hv_hash(const dvector *v, uint64_t h) { h = vx_hash(&v->size, sizeof v->size, h); return vx_hash_doubles(v->data, v->size, h); }
/* max |m - ref| ; INFINITY on shape mismatch or NaN */
static inline double hm_maxdiff_rm(const matrix *m, const rmat *ref) {
  if ((int)m->row != ref->r || (int)m->col != ref->c) return INFINITY;
  double s = 0;
  for (int i = 0; i < ref->r; i++) for (int j = 0; j < ref->c; j++) { double d = fabs(m->data[i][j] - (double)RM(ref, i, j)); if (d != d) return INFINITY; if (d > s) s = d; }
  return s;
}
static inline double hm_maxdiff(const matrix *a, const matrix *b) {
  if (a->row != b->row || a->col != b->col) return INFINITY;
  double s = 0;
  for (size_t i = 0; i < a->row; i++) for (size_t j = 0; j < a->col; j++) { double d = fabs(a->data[i][j] - b->data[i][j]); if (d != d) return INFINITY; if (d > s) s = d; }
  return s;
}
static inline double hv_maxdiff(const dvector *a, const dvector *b) {
  if (a->size != b->size) return INFINITY;
  double s = 0; for (size_t i = 0; i < a->size; i++) { double d = fabs(a->data[i] - b->data[i]); if (d != d) return INFINITY; if (d > s) s = d; } return s;
}
static inline int hm_allfinite(const matrix *m) { for (size_t i = 0; i < m->row; i++) for (size_t j = 0; j < m->col; j++) if (!isfinite(m->data[i][j])) return 0; return 1; }
static inline int hv_allfinite(const dvector *v) { for (size_t i = 0; i < v->size; i++) if (!isfinite(v->data[i])) return 0; return 1; }
static inline double hm_maxabs(const matrix *m) { double s = 0; for (size_t i = 0; i < m->row; i++) for (size_t j = 0; j < m->col; j++) { double d = fabs(m->data[i][j]); if (d > s) s = d; } return s; }
#endif
