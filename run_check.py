#!/usr/bin/python3
"""Driver for the libscientific property checks (DESIGN.md section 5).

  run_check.py <ID> [--tier quick|thorough] [--keep]

1. (re)builds the library objects of /repo's *current working tree* (all sources but the
   1.4 MB data file datasets.c) for the sanitizer variants the property's harnesses need,
2. builds and runs every harness registered for the property in checks.py,
3. writes /verif/evidence/<ID>.json from what the harnesses measured,
4. prints KNOWN-FINDING lines for violations listed open in KNOWN_FINDINGS.txt and a
   VIOLATION line (exit 1) for any other violation; harness errors exit 2.
Standard library only; use /usr/bin/python3.
"""
import sys, os, json, hashlib, subprocess, time, shutil, glob, re
from concurrent.futures import ThreadPoolExecutor

VERIF = os.path.dirname(os.path.abspath(__file__))
REPO = os.environ.get("VERIF_REPO", "/repo")
SRC = os.path.join(REPO, "src")
BUILD = os.path.join(VERIF, "build")
sys.path.insert(0, VERIF)
import checks  # registry  # noqa: E402

EXCLUDE = {"datasets.c"}
COMMON = ["-std=gnu99", "-D_GNU_SOURCE", "-g", "-fno-omit-frame-pointer", "-pthread", "-w"]
VARIANTS = {
    "asan": (["gcc", "-O1", "-fsanitize=address,undefined", "-fno-sanitize-recover=undefined"], ["-fsanitize=address,undefined"]),
    "plain": (["gcc", "-O2"], []),
    "tsan": (["clang", "-O0", "-fsanitize=thread"], ["-fsanitize=thread"]),
}
LIBS = ["-llapack", "-lblas", "-lsqlite3", "-lm", "-lpthread"]
ENV = dict(os.environ, OPENBLAS_NUM_THREADS="1", OMP_NUM_THREADS="1",
           ASAN_OPTIONS="detect_leaks=0:halt_on_error=1:abort_on_error=0:exitcode=77:handle_abort=1:allocator_may_return_null=1:detect_stack_use_after_return=0",
           UBSAN_OPTIONS="print_stacktrace=1:halt_on_error=1",
           TSAN_OPTIONS="halt_on_error=1:exitcode=66:report_signal_unsafe=0:second_deadlock_stack=1")


def sh(cmd, **kw):
    return subprocess.run(cmd, stdout=subprocess.PIPE, stderr=subprocess.STDOUT, text=True, **kw)


def src_hash():
    h = hashlib.sha256()
    for f in sorted(glob.glob(os.path.join(SRC, "*.[ch]"))):
        if os.path.basename(f) in EXCLUDE:
            continue
        h.update(os.path.basename(f).encode())
        with open(f, "rb") as fh:
            h.update(fh.read())
    with open(os.path.join(REPO, "CMakeLists.txt"), "rb") as fh:
        h.update(fh.read())
    h.update(json.dumps(VARIANTS, sort_keys=True).encode())
    return h.hexdigest()[:16]


def config_header(dirpath):
    txt = open(os.path.join(REPO, "CMakeLists.txt")).read()
    v = {k: (re.search(r"set\(VERSION_%s\s+(\d+)\)" % k, txt) or [0, "0"])[1] for k in ("MAJOR", "MINOR", "PATCH")}
    with open(os.path.join(dirpath, "scientificconfig.h"), "w") as f:
        f.write("#define major_ %s\n#define minor_ %s\n#define patch_ %s\n" % (v["MAJOR"], v["MINOR"], v["PATCH"]))


def lib_sources():
    """the library's own source list (src/CMakeLists.txt, Scientific_C_SRCS) minus the data file"""
    txt = open(os.path.join(SRC, "CMakeLists.txt")).read()
    m = re.search(r"set\(Scientific_C_SRCS([^)]*)\)", txt)
    names = m.group(1).split() if m else [os.path.basename(f) for f in sorted(glob.glob(os.path.join(SRC, "*.c")))]
    return [os.path.join(SRC, n) for n in names if n not in EXCLUDE and n.endswith(".c")]


def build_lib(variant):
    """compile /repo/src/*.c (working tree) into build/<hash>/<variant>/liblsci.a"""
    hh = src_hash()
    d = os.path.join(BUILD, hh, variant)
    lib = os.path.join(d, "liblsci.a")
    if os.path.exists(lib):
        return hh, d, lib
    os.makedirs(BUILD, exist_ok=True)
    import fcntl
    lock = open(os.path.join(BUILD, ".lock"), "w")
    fcntl.flock(lock, fcntl.LOCK_EX)
    if os.path.exists(lib):
        return hh, d, lib
    # drop stale trees (disk is limited)
    for old in glob.glob(os.path.join(BUILD, "*")):
        if os.path.basename(old) not in (hh, "run") and os.path.isdir(old) and time.time() - os.path.getmtime(old) > 3 * 3600:
            shutil.rmtree(old, ignore_errors=True)
    os.makedirs(d, exist_ok=True)
    config_header(d)
    cc, _ = VARIANTS[variant]
    srcs = lib_sources()

    def comp(f):
        o = os.path.join(d, os.path.basename(f)[:-2] + ".o")
        r = sh(cc + COMMON + ["-I", SRC, "-I", d, "-c", f, "-o", o])
        return (f, r.returncode, r.stdout, o)
    with ThreadPoolExecutor(16) as ex:
        res = list(ex.map(comp, srcs))
    bad = [r for r in res if r[1] != 0]
    if bad:
        print("BUILD-ERROR: library source does not compile:\n" + bad[0][2][-3000:])
        sys.exit(2)
    tmp = lib + ".tmp"
    r = sh(["ar", "rcs", tmp] + [r[3] for r in res])
    if r.returncode != 0:
        print("BUILD-ERROR: ar failed\n" + r.stdout)
        sys.exit(2)
    os.rename(tmp, lib)
    return hh, d, lib


def build_harness(spec):
    variant = spec.get("variant", "asan")
    hh, d, lib = build_lib(variant)
    cc, ldflags = VARIANTS[variant]
    srcs = [os.path.join(VERIF, s) for s in spec["sources"]]
    h = hashlib.sha256(hh.encode())
    deps = srcs + glob.glob(os.path.join(VERIF, "engine", "*.h")) + glob.glob(os.path.join(VERIF, "harness", "*.h"))
    for s in sorted(set(deps)):
        h.update(open(s, "rb").read())
    h.update(json.dumps(spec, sort_keys=True).encode())
    exe = os.path.join(d, "%s_%s" % (spec["name"], h.hexdigest()[:10]))
    if os.path.exists(exe):
        return exe
    for old in glob.glob(os.path.join(d, spec["name"] + "_*")):
        os.unlink(old)
    wraps = ["-Wl,--wrap=" + w for w in spec.get("wrap", [])]
    cmd = cc + COMMON + spec.get("cflags", []) + ["-I", SRC, "-I", d, "-I", os.path.join(VERIF, "engine"), "-I", os.path.join(VERIF, "harness")] \
        + srcs + wraps + [lib] + ldflags + LIBS + spec.get("ldlibs", []) + ["-o", exe + ".tmp"]
    r = sh(cmd)
    if r.returncode != 0:
        print("BUILD-ERROR: harness %s does not build against the current tree:\n%s" % (spec["name"], r.stdout[-4000:]))
        sys.exit(2)
    os.rename(exe + ".tmp", exe)
    return exe


def load_known():
    open_keys, fixed = {}, []
    p = os.path.join(VERIF, "KNOWN_FINDINGS.txt")
    if os.path.exists(p):
        for line in open(p):
            line = line.strip()
            m = re.match(r"open:\s+property=(\S+)\s+key=(\S+)\s+(.*)", line)
            if m:
                open_keys[(m.group(1), m.group(2))] = m.group(3)
            elif line.startswith("fixed:"):
                fixed.append(line)
    return open_keys, fixed


def run_harness(pid, spec, tier, rundir):
    t0 = time.time()
    if spec.get("kind", "vx") == "script":
        out = os.path.join(rundir, "%s.json" % spec["name"])
        if os.path.exists(out):
            os.unlink(out)
        cmd = [a.replace("{out}", out).replace("{tier}", tier).replace("{verif}", VERIF).replace("{repo}", REPO) for a in spec["cmd"]]
        r = subprocess.run(cmd, env=ENV, cwd=VERIF, stdout=subprocess.PIPE, stderr=subprocess.STDOUT, text=True)
        log = r.stdout
        rc = r.returncode
    else:
        exe = build_harness(spec)
        out = os.path.join(rundir, "%s.json" % spec["name"])
        for f in glob.glob(out + "*"):
            if os.path.isdir(f):
                shutil.rmtree(f, ignore_errors=True)
            else:
                os.unlink(f)
        dl = spec.get("deadline", {}).get(tier)
        cmd = [exe, "--tier", tier, "--out", out, "--workers", str(spec.get("workers", 16))]
        if dl:
            cmd += ["--deadline", str(dl)]
        cmd += spec.get("args", {}).get(tier, [])
        r = subprocess.run(cmd, env=ENV, cwd=rundir, stdout=subprocess.DEVNULL, stderr=subprocess.PIPE, text=True)
        log = r.stderr
        rc = r.returncode
    res = None
    if os.path.exists(out):
        try:
            res = json.load(open(out))
        except Exception as e:  # noqa
            log += "\n(could not parse %s: %s)" % (out, e)
    if res is None or rc not in (0, 1) or res.get("harness_error"):
        print("HARNESS-ERROR: property=%s harness=%s rc=%s %s\n%s" % (pid, spec["name"], rc, (res or {}).get("harness_error"), log[-3000:]))
        sys.exit(2)
    res["_exe"] = spec.get("replay_exe") or (cmd[0] if spec.get("kind", "vx") != "script" else None)
    res["_name"] = spec["name"]
    res["_wall"] = time.time() - t0
    sys.stderr.write(log[-2000:] if len(log) < 4000 else log[-2000:])
    return res


def confirm_replay(res, v):
    """a violation is believed only if its recorded path fails again, twice, outside the explorer"""
    exe, rp = res.get("_exe"), v.get("replay")
    if not exe or not rp or not os.path.exists(rp) or v["key"].startswith("crash|") and False:
        return True, ""
    outs = []
    for _ in range(2):
        r = subprocess.run([exe, "--tier", res.get("tier", "quick"), "--replay", rp], env=ENV, stdout=subprocess.DEVNULL, stderr=subprocess.PIPE, text=True, timeout=900)
        fails = sorted(set(re.findall(r"(?m)^VX-FAIL (.*?) :: ", r.stderr)))
        crashed = r.returncode not in (0, 1) or "AddressSanitizer" in r.stderr or "runtime error:" in r.stderr
        outs.append((r.returncode != 0, fails, crashed))
    if v["key"].startswith("crash|"):
        if outs[0][2] and outs[1][2]:
            return True, ""
        return False, "recorded crash path did not crash again on replay"
    if not (outs[0][0] and outs[1][0]):
        return False, "recorded path did not fail again on replay (%s / %s)" % (outs[0], outs[1])
    # both replays fail.  If they fail with different key sets, or without the recorded key, the failing values themselves are
    # not reproducible (e.g. they come from memory the code should not have read); the path still fails every time, so it is
    # reported, with that remark -- only a replay that PASSES makes the record untrustworthy (harness error above).
    if outs[0][1] != outs[1][1] or (not outs[0][2] and v["key"] not in outs[0][1]):
        v["msg"] = (v.get("msg", "") + " [note: the path fails on every replay, but not with identical oracle keys (%s / %s): the observed values are not reproducible]" % (outs[0][1][:3], outs[1][1][:3]))
    return True, ""


def main():
    if len(sys.argv) < 2:
        print(__doc__)
        sys.exit(2)
    pid = sys.argv[1]
    tier = os.environ.get("VERIF_TIER", "quick")
    if "--tier" in sys.argv:
        tier = sys.argv[sys.argv.index("--tier") + 1]
    seed = int(os.environ.get("VERIF_SEED", "0") or 0)
    if pid not in checks.CHECKS:
        print("unknown property %s" % pid)
        sys.exit(2)
    if "--replay" in sys.argv:
        # re-execute one recorded path outside the explorer, against the current working tree
        rp = sys.argv[sys.argv.index("--replay") + 1]
        hname = os.path.basename(rp).split(".")[0]
        spec = next((h for h in checks.CHECKS[pid]["harnesses"] if h["name"] == hname), checks.CHECKS[pid]["harnesses"][0])
        if spec.get("kind", "vx") == "script":
            print(open(rp).read())
            sys.exit(0)
        exe = build_harness(spec)
        sys.exit(subprocess.run([exe, "--tier", tier, "--replay", rp], env=ENV).returncode)
    t0 = time.time()
    rundir = os.path.join(BUILD, "run", pid if os.path.realpath(REPO) == "/repo" else pid + "_scratch_%s" % os.environ.get("VERIF_RUN_TAG", str(os.getpid())))
    os.makedirs(rundir, exist_ok=True)
    entry = checks.CHECKS[pid]
    results = [run_harness(pid, spec, tier, rundir) for spec in entry["harnesses"] if tier in spec.get("tiers", ("quick", "thorough"))]
    open_keys, _fixed = load_known()

    repdir = os.path.join(VERIF, "replays", pid) if os.path.realpath(REPO) == "/repo" else os.path.join(BUILD, "scratch_replays", pid)
    shutil.rmtree(repdir, ignore_errors=True)
    known_lines, viol_lines, herrs = [], [], []
    for res in results:
        for v in res.get("violations", []):
            fullkey = v["key"]
            desc = open_keys.get((pid, fullkey))
            ok, why = confirm_replay(res, v)
            if not ok:
                herrs.append("harness=%s key=%s: %s" % (res["_name"], fullkey, why))
                continue
            os.makedirs(repdir, exist_ok=True)
            dst = os.path.join(repdir, "%s.%s" % (res["_name"], os.path.basename(v.get("replay") or "noreplay")))
            if v.get("replay") and os.path.exists(v["replay"]):
                shutil.copy(v["replay"], dst)
            else:
                open(dst, "w").write("# %s\n# %s\n" % (fullkey, v.get("msg", "")))
            v["replay"] = dst
            if desc is not None:
                known_lines.append("KNOWN-FINDING: property=%s %s [key=%s harness=%s paths=%d]" % (pid, desc, fullkey, res["_name"], v.get("count", 1)))
            else:
                viol_lines.append((fullkey, dst, v.get("msg", ""), res["_name"], v.get("path", "")))

    # evidence
    execs = sum(r.get("executions", 0) for r in results)
    ev = {
        "property_id": pid, "tier": tier, "seed": seed, "level": "model_checking",
        "coverage": {
            "states": max(1, sum(r.get("states", 0) for r in results)),
            "transitions": max(1, sum(r.get("transitions", 0) for r in results)),
            "traces_validated_against_impl": execs,
            "samples": [{"harness": r["_name"], "path": s} for r in results for s in r.get("samples", [])][:12] or ["(none)"],
            "evaluations": execs,
            "distinct_nontrivial": sum(r.get("distinct_outcomes", 0) for r in results),
            "rule": "every element of the finite choice tree of each harness is executed against the real library code; "
                    "an execution is non-trivial/distinct if the hash of its observed outcome (result values / classification) is new",
            "exhaustive": all(r.get("exhaustive") for r in results),
            "explanation": entry.get("explanation", ""),
            "harnesses": [{k: r.get(k) for k in ("_name", "executions", "pruned", "transitions", "checks", "states", "distinct_outcomes",
                                                   "max_depth", "exhaustive", "deadline_hit", "timeouts", "restarts", "dev_bound", "wall_s", "describe", "extra")}
                          for r in results],
            "violation_keys_open_known": sorted(set(l.split("[key=")[1].split(" ")[0] for l in known_lines)),
            "violation_keys_new": sorted(set(v[0] for v in viol_lines)),
        },
        "assumptions": entry.get("assumptions", []),
        "wall_s": round(time.time() - t0, 2),
        "violations": len(viol_lines),
    }
    # evidence of the registered checks is about /repo itself; runs against a scratch tree (VERIF_REPO) go elsewhere
    evdir = os.path.join(VERIF, "evidence") if os.path.realpath(REPO) == "/repo" else os.path.join(BUILD, "scratch_evidence")
    os.makedirs(evdir, exist_ok=True)
    tmp = os.path.join(evdir, pid + ".json.tmp")
    json.dump(ev, open(tmp, "w"), indent=1)
    os.rename(tmp, os.path.join(evdir, pid + ".json"))

    for l in sorted(set(known_lines)):
        print(l)
    if herrs:
        for h in herrs:
            print("HARNESS-ERROR: property=%s %s" % (pid, h))
        sys.exit(2)
    for key, path, msg, hn, p in viol_lines:
        print("VIOLATION property=%s replay=%s key=%s harness=%s :: %s" % (pid, path, key, hn, msg[:300]))
    print("%s tier=%s executions=%d transitions=%d exhaustive=%s new_violations=%d known=%d wall=%.1fs" % (
        pid, tier, execs, ev["coverage"]["transitions"], ev["coverage"]["exhaustive"], len(viol_lines), len(set(known_lines)), time.time() - t0))
    sys.exit(1 if viol_lines else 0)


if __name__ == "__main__":
    main()
