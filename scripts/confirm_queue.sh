#!/bin/bash
# sequentially confirm the given seeded changes (one test-suite run at a time); serialised by a lock file
exec 9>/tmp/confirm_queue${QLOCK:-}.lock; flock 9
for s in "$@"; do CTEST_J=${CTEST_J:-6} DEMO_TIMEOUT=900 /verif/scripts/confirm_seeded.sh /verif/seeded/$s > /tmp/confirm_$s.out 2>&1; done
