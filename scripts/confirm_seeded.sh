#!/bin/bash
# Confirm a seeded change independently of whoever wrote it, in a scratch worktree (never in /repo):
#   1. the patch applies to /repo's HEAD and the library builds,
#   2. the repository's own test suite still passes with it (27/27 ctest programs),
#   3. the demonstration fails with the change and passes without it.
# usage: confirm_seeded.sh <seeded-dir>      (dir has patch.diff, demo.c [, build_and_run.sh]); writes <dir>/confirm.log
D=$(realpath "$1"); WT=/tmp/confwt_$$; LOG="$D/confirm.log"; : > "$LOG"
say() { echo "$@" | tee -a "$LOG"; }; say "base: ${BASE:-HEAD} = $(git -C /repo rev-parse --short ${BASE:-HEAD})"
git -C /repo worktree add --detach "$WT" "${BASE:-HEAD}" >/dev/null 2>&1 || { say "cannot create worktree"; exit 3; }
cleanup() { git -C /repo worktree remove --force "$WT" >/dev/null 2>&1; rm -rf "$WT"; }
trap cleanup EXIT
demo() {  # $1 = label ; builds demo.c against the tree's current sources (no sanitizers unless demo asks) and runs it
  if [ -f "$D/demo.py" ]; then   # Python demonstration (bindings): gets the tree as argv[1] and LIBSCI_WT
    ( cd "$WT" && LIBSCI_WT="$WT" OPENBLAS_NUM_THREADS=1 timeout ${DEMO_TIMEOUT:-300} /usr/bin/python3 -B "$D/demo.py" "$WT" > "$WT/demo.out" 2>&1 ); local prc=$?
    tail -3 "$WT/demo.out" >> "$LOG"; say "$1: demo.py exit code $prc"; find "$WT" -name __pycache__ -prune -exec rm -rf {} + 2>/dev/null; return $prc
  fi
  local inc="-I$WT/src -I$WT/_build"
  local srcs=$(ls $WT/src/*.c | grep -v -E "datasets.c|variableselection.c")
  gcc -O1 -g -std=gnu99 -D_GNU_SOURCE -w $DEMO_CFLAGS $inc "$D/demo.c" $srcs -llapack -lblas -lsqlite3 -lm -lpthread -o "$WT/demo_bin" >> "$LOG" 2>&1 || { say "$1: demo does not build"; return 99; }
  ( cd "$WT" && OPENBLAS_NUM_THREADS=1 timeout ${DEMO_TIMEOUT:-300} ./demo_bin > "$WT/demo.out" 2>&1 ); local rc=$?
  tail -3 "$WT/demo.out" >> "$LOG"; say "$1: demo exit code $rc"; return $rc
}
DEMO_CFLAGS=$(grep -m1 -o "DEMO_CFLAGS:.*" "$D/demo.c" 2>/dev/null | sed 's/DEMO_CFLAGS://')
cmake -G Ninja -S "$WT" -B "$WT/_build" >/dev/null 2>&1     # generates scientificconfig.h
demo "clean tree"; RC_CLEAN=$?
git -C "$WT" apply "$D/patch.diff" || { say "PATCH DOES NOT APPLY"; exit 3; }
demo "with change"; RC_MUT=$?
say "building and running the repository test suite with the change ..."
cmake --build "$WT/_build" >> "$LOG" 2>&1 || { say "LIBRARY DOES NOT BUILD WITH THE CHANGE"; exit 3; }
( cd "$WT/_build" && OPENBLAS_NUM_THREADS=1 ctest --test-dir "$WT/_build" -j${CTEST_J:-8} --timeout 3600 > "$WT/ctest.out" 2>&1 )
SUM=$(grep -E "tests passed|tests failed" "$WT/ctest.out")
if echo "$SUM" | grep -q "1 tests failed" && grep -q -E "test(matrix|numeric) .*aborted" "$WT/ctest.out"; then
  # testmatrix Test53 draws time-seeded random integers and aborts on a zero (~4% of runs, also on the pinned tree); testnumeric Test3 draws
  # 10M time-seeded numbers and aborts when one equals the lower bound (~0.2% of runs): re-run the failed program once
  say "$(grep -o -E "test(matrix|numeric) .*aborted" "$WT/ctest.out" | head -1) (known time-seeded flake?): $(grep -a -m1 -E "Error Test|^ERROR:" "$WT/_build/Testing/Temporary/LastTest.log")"
  ( cd "$WT/_build" && OPENBLAS_NUM_THREADS=1 ctest --test-dir "$WT/_build" --rerun-failed --timeout 1800 > "$WT/ctest2.out" 2>&1 )
  if grep -q "100% tests passed" "$WT/ctest2.out"; then SUM="100% tests passed, 0 tests failed out of 27 (the time-seeded test passed on --rerun-failed)"; fi
fi
say "test suite with change: $SUM"
grep -E "\*\*\*|Failed|Timeout" "$WT/ctest.out" | head -5 >> "$LOG"
OKS=$(grep -ahoE "(: |\.\.\. ?)(OK|Ok|ok)[.! ]*$" "$WT/_build/Testing/Temporary/LastTest.log" | wc -l); say "OK result lines: $OKS (baseline 62)"
if [ $RC_CLEAN -eq 0 ] && [ $RC_MUT -ne 0 ] && [ $RC_MUT -ne 99 ] && echo "$SUM" | grep -q "100% tests passed"; then say "CONFIRMED"; exit 0; else say "NOT CONFIRMED (clean=$RC_CLEAN mutant=$RC_MUT)"; exit 1; fi
