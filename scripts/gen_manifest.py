#!/usr/bin/python3
"""Regenerate /verif/MANIFEST.json from the table below; a property is claimed iff it is in READY."""
import json, os, sys
HERE = os.path.dirname(os.path.dirname(os.path.abspath(__file__)))
READY = sys.argv[1:] if len(sys.argv) > 1 else json.load(open(os.path.join(HERE, "scripts", "ready.json")))

T = {
 "C01": ("stateless exhaustive input/configuration enumeration of the implementation (vx)", "Every (shape, data family, column modifier, scaling option, component count, processor count) of the bounded alphabet is executed on the real PCA code; decomposition identities are checked to rounding on every execution.", "finite input families; tolerances derived from eps, size and scale; preprocessing via the public MatrixPreprocess"),
 "C02": ("stateless exhaustive input enumeration + long-double Jacobi reference (vx)", "Every spectral input (known singular-value ratios), scaling option, component count and every row/column permutation and fixed rotation of the alphabet is executed; eigen-accuracy judged against the derived NIPALS allowance.", "reference eigen-decomposition by cyclic Jacobi in long double; allowance derived from the documented stopping rule"),
 "C03": ("stateless exhaustive input enumeration of the implementation (vx)", "Every (X shape/family, response count, noise, scaling pair, LV count) of the alphabet is fitted with the real PLS and the structural identities are checked for every latent variable and every response column.", "full-column-rank X by construction; identities independent of convergence checked to rounding"),
 "C04": ("stateless exhaustive input enumeration + Householder least-squares reference (vx)", "Every (X family with known condition number, responses, noise, scaling pair, LV count, affine response map) is fitted; OLS limit, monotone RSS, beta/score equivalence and affine equivariance are judged on every execution.", "reference least squares in long double; tolerances scale with the constructed condition number"),
 "C05": ("stateless exhaustive enumeration of partitions, label vectors, group counts, thread counts (vx)", "All object/group/seed triples for the partition helpers, every label vector of the small scopes for k-fold, every group count for the bootstrap scheme and every thread count are executed against the real validation routines; each prediction is compared with a public-API refit and with the influence of the object's own response.", "refit through the public API as oracle; influence matrix reconstructed black-box; degenerate training sets pruned"),
 "C06": ("preemption-bounded and state-merged exhaustive schedule enumeration of the real threads under a cooperative scheduler (vsched + vx), plus free-running ThreadSanitizer pass", "All interleavings of the library's worker threads at the RNG / create / exit / join points with at most B preemptions, and all interleavings without bound merged on a canonical state, are executed on the real code; every complete schedule must reproduce the default-schedule result bit for bit and the single-thread result to rounding.", "RNG entry points atomic for the scheduler (finer races: TSan pass); sequential consistency; OpenBLAS single-threaded"),
 "C07": ("stateless exhaustive input enumeration + long-double least-squares reference (vx)", "Every (shape, conditioning, offsets/scales, response count, noise, equivariance map) of the alphabet is fitted with the real MLR; normal equations, recovery, prediction formula, equivariances and the reported statistics are judged on every execution.", "tolerance proportional to eps * cond(design)^2 with the condition number computed by the reference"),
 "C08": ("stateless exhaustive input enumeration + long-double textbook LDA reference (vx)", "Every (class count, feature count, class sizes, label base, separation, affine map, row permutation) of the alphabet is fitted and predicted with the real LDA; priors, means, arg-max, invariances and multiclass AUC are judged on every execution.", "well-separated defined by the reference posterior margin; ties never judged"),
 "C09": ("stateless exhaustive input/configuration enumeration + Jacobi reference (vx)", "Every block layout, object count, scaling option, component count and processor count of the alphabet is fitted with the real CPCA and compared with the principal scores of the block-scaled concatenation.", "reference principal scores by long-double Jacobi; NIPALS allowance derived"),
 "C10": ("stateless exhaustive input enumeration incl. all missing-cell subsets of the small scopes (vx)", "Every shape, option, column family and missing-cell pattern of the alphabet is preprocessed with the real code (fit and apply paths, matrix and tensor) and compared with long-double column statistics.", "documented statistic of the raw training column is the promised one; known flush of near-zero column sums keyed separately"),
 "C11": ("stateless exhaustive shape enumeration of the implementation (vx) under ASan/UBSan", "Every shape 0..17 (cubed for products) of every dense kernel, at three value scales, is executed on the real code and compared with the long-double definition within a forward error bound; algebraic laws checked on every triple.", "values from finite indexed families; exact allocation so index slips trap"),
 "C12": ("complete small scopes + indexed structured families, exhaustive (vx)", "Every {-1,0,1} matrix of order 2 and 3, every permutation matrix up to order 6 and the indexed structured/conditioned families up to order 12 are run through the real inverse, determinant, solver, least-squares, pseudo-inverse, eigen and SVD routines; defining equations judged on every execution.", "reference LU / cofactor / Jacobi in long double; tolerances scale with the constructed condition number"),
 "C13": ("exhaustive (rows, threads) configuration enumeration of the real thread pools + free-running ThreadSanitizer pass", "All (rows 0..40, threads 1..24) pairs of every row/column-splitting kernel are executed with real threads on poisoned or zeroed outputs and compared with the sequential definition; index map checked for all n up to the bound.", "values from finite families; scheduling irrelevant to values is checked by TSan rather than assumed"),
 "C14": ("depth-bounded exhaustive history enumeration + closure of reachable canonical states (vx) under ASan/UBSan against a shadow model", "All operation histories up to the depth bound, and the closure of all reachable (allocation, shape) states under every operation, are executed on the real containers; cells compared with a shadow model after every operation; out-of-range accessors probed in forked children.", "dimensions capped; control flow depends on shapes/allocation only (argued in DESIGN 6 C14)"),
 "C15": ("complete small scopes: all truth vectors x all score rankings, all missing subsets (vx)", "Every binary truth vector and every ranking of n<=6 (7 thorough) scores, monotone maps and permutations, and regression vectors with every missing subset of the small scopes are run through the real ROC/PR/figure-of-merit code and compared with exact integer Mann-Whitney counts and long-double formulas.", "tie-free scores by construction"),
 "C16": ("exhaustive write-history enumeration over real sqlite files (vx)", "All write sequences up to length 3 (4 thorough) of 6 fitted models over 2 paths are executed against the real io.c, each followed by a read of the kind last written; every field compared with the model last written.", "files on /dev/shm; models fitted once per run"),
 "C17": ("stateless exhaustive input/configuration enumeration (vx)", "Every data set, selection size, metric, thread count, cluster count and initialiser of the alphabet is run through the real selection and k-means code; validity, max-min optimality (recomputed in long double) and thread-count independence judged on every execution.", "general-position data; ties accepted"),
 "C18": ("complete small scopes of degenerate inputs with a deterministic iteration tick (vx + link-time seams)", "Every tiny integer matrix / binary response / duplicated point set / collinear design / degenerate objective of the scopes is run through the real fitting routines; non-termination is decided by an iteration tick ceiling, defined components checked for finiteness and identities.", "tick ceiling 1e5 kernel calls; numerical rank by long-double singular values"),
 "C19": ("stateless exhaustive input enumeration + exact rational / long-double references (vx)", "Every knot count, spacing scale, ordinate family and evaluation point of the alphabet; every dyadic polyline and split point; every quadratic, start and step are executed on the real spline, area and simplex code.", "outcome-based convergence oracle (stagnation away from the optimum)"),
 "C20": ("exhaustive enumeration of every (structure, field) and (function, parameter) declaration pair, each exercised across the real ABI", "Struct layouts and prototypes are re-derived from DWARF of a fresh build; every ctypes field is read from a C-filled instance and every bound parameter is passed through a generated echo library with sentinels.", "x86-64 SysV; gdb/DWARF as the description of the C side"),
}

props = [json.loads(l) for l in open(os.path.join(HERE, "properties.jsonl"))]
checks, na = [], []
for p in props:
    pid = p["id"]
    if pid in READY and os.path.exists(os.path.join(HERE, "harness", pid + ".json")):
        tech, text, note = T[pid]
        checks.append({
            "property_id": pid,
            "quick_cmd": "/usr/bin/python3 run_check.py %s --tier quick" % pid,
            "thorough_cmd": "/usr/bin/python3 run_check.py %s --tier thorough" % pid,
            "evidence_file": "/verif/evidence/%s.json" % pid,
            "replay_cmd_template": "/usr/bin/python3 run_check.py %s --replay {path}   (add --tier thorough for a path recorded by the thorough tier)" % pid,
            "engine": "vx" + ("+vsched" if pid == "C06" else ""),
            "level_claimed": {"category": "model_checking", "text": text, "design_ref": "DESIGN.md section 6, " + pid},
            "level_note": note + "; bounds and counts of each run are in the evidence file; a deadline-capped run reports exhaustive:false",
            "technique": tech,
        })
    else:
        na.append({"property_id": pid, "reason": "check under construction in this round (harness not yet validated on the unchanged tree); the technique applies, see DESIGN.md section 6 " + pid})
m = {
 "version": 1,
 "setup_cmd": "make -C /verif engine",
 "hooks": {"guard": "LIBSCIENTIFIC_VERIF",
           "enable": "no source hooks: harnesses link /repo's objects statically and interpose with GNU ld --wrap (DESIGN.md section 4); the guard name is reserved",
           "baseline_off_cmd": "/verif/scripts/run_baseline.sh /repo /tmp/libsci_baseline_build",
           "source_commits": [], "add_only": True},
 "engines": [
  {"name": "vx", "path": "engine/vx.c", "serves_properties": [c["property_id"] for c in checks], "kind_free_text": "stateless exhaustive choice-point explorer (odometer DFS with replay, forked supervised workers, crash attribution, deviation bounds)"},
  {"name": "vsched", "path": "engine/vsched.c", "serves_properties": ["C06"], "kind_free_text": "cooperative scheduler over the library's pthreads via --wrap; preemption-bounded and state-merged schedule enumeration"},
  {"name": "vnum", "path": "engine/vnum.c", "serves_properties": [c["property_id"] for c in checks], "kind_free_text": "long-double reference numerics and finite indexed input families (oracles only)"},
 ],
 "checks": checks,
 "not_applicable": na,
 "notes": "All checks rebuild the library objects from /repo's working tree (hash of src/*.[ch]); KNOWN_FINDINGS.txt lists open findings by violation key and fixed defects by commit.",
}
json.dump(m, open(os.path.join(HERE, "MANIFEST.json"), "w"), indent=1)
print("claimed:", [c["property_id"] for c in checks])
