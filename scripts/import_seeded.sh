#!/bin/bash
# import_seeded.sh <worktree> <PA> <PB> : copy _out/1,2 -> seeded/<PA>-<next>, _out/3,4 -> seeded/<PB>-<next>
WT=$1; PA=$2; PB=$3; cd /verif
nexti() { local p=$1 i=1; while [ -d seeded/$p-$i ]; do i=$((i+1)); done; echo $i; }
for k in 1 2 3 4; do
  p=$PA; [ $k -ge 3 ] && p=$PB
  [ -f $WT/_out/$k/patch.diff ] || { echo "missing $WT/_out/$k"; continue; }
  n=$(nexti $p); d=seeded/$p-$n; mkdir -p $d
  cp $WT/_out/$k/patch.diff $WT/_out/$k/README.md $d/ 2>/dev/null; cp $WT/_out/$k/demo.* $d/ 2>/dev/null
  echo "$WT/_out/$k -> $d"
done
