#!/bin/bash
# run every thorough tier once, sequentially, and summarise (exit codes, exhaustive flags, wall)
cd "$(dirname "$0")/.."
for p in ${@:-C01 C02 C03 C04 C05 C06 C07 C08 C09 C10 C11 C12 C13 C14 C15 C16 C17 C18 C19 C20}; do
  s=$(date +%s); /usr/bin/python3 run_check.py $p --tier thorough > /tmp/thorough_$p.log 2>&1; rc=$?
  echo "$p rc=$rc wall=$(( $(date +%s) - s ))s :: $(grep -E "^C[0-9]+ tier" /tmp/thorough_$p.log | tail -1)"
  grep -E "^(VIOLATION|HARNESS-ERROR|BUILD-ERROR)" /tmp/thorough_$p.log | cut -c1-300
done
