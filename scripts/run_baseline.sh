#!/bin/bash
# Build a tree of libscientific out-of-source and run its own test suite (guard OFF: there are no source hooks).
# usage: run_baseline.sh <source-dir> <build-dir>     prints per-test "name: OK|FAIL" lines found in the output + ctest summary
SRC=${1:-/repo}; B=${2:-/tmp/bl_build}
set -e
cmake -G Ninja -S "$SRC" -B "$B" >/dev/null
cmake --build "$B" >/dev/null
cd "$B"
# the io test compares against sqlite files left in the build tree by an earlier run (possibly of another library version)
find "$B" -name "*.sqlite3" -delete
OPENBLAS_NUM_THREADS=1 ctest --test-dir "$B" -j8 --timeout ${CTEST_TIMEOUT:-900} --output-on-failure -O "$B/ctest.log" > /dev/null || true
grep -E "tests passed|tests failed" "$B/ctest.log" || true
# the 62 baseline result lines are "<name>: OK" style lines printed by the test programs
grep -ahoE "^[A-Za-z0-9 /_\-]+(: |\.\.\. ?)(OK|Ok|ok|PASS|FAIL|Fail|fail|ERROR)[A-Za-z!. ]*$" "$B/Testing/Temporary/LastTest.log" | sort | uniq -c | awk '{c[$NF]++} END{for(k in c) print k, c[k]}'
