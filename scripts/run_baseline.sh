#!/bin/bash
# Build a tree of libscientific out-of-source and run its own test suite (guard OFF: there are no source hooks).
# usage: run_baseline.sh <source-dir> <build-dir>     env CTEST_TIMEOUT (default 900)
# prints the ctest summary and compares the "<name>: OK" result lines with /root/.vp/BASELINE.json (62 stable names).
SRC=${1:-/repo}; B=${2:-/tmp/libsci_baseline_build}
set -e
cmake -G Ninja -S "$SRC" -B "$B" >/dev/null
cmake --build "$B" >/dev/null
cd "$B"
# the io test compares against sqlite files left in the build tree by an earlier run (possibly of another library version)
find "$B" -name "*.sqlite3" -delete
OPENBLAS_NUM_THREADS=1 ctest --test-dir "$B" -j8 --timeout ${CTEST_TIMEOUT:-900} --output-on-failure -O "$B/ctest.log" > /dev/null || true
grep -E "tests passed|tests failed" "$B/ctest.log" || true
/usr/bin/python3 - "$B/Testing/Temporary/LastTest.log" <<'PY'
import json, re, sys
log = open(sys.argv[1], errors="replace").read()
ok = set()
for line in log.splitlines():
    m = re.match(r"^\s*(.+?)\s*(?::|\.\.\.)\s*(OK|Ok|ok)[.! ]*$", line)
    if m: ok.add(m.group(1).strip())
try:
    base = json.load(open("/root/.vp/BASELINE.json"))["stable_pass"]
except Exception:
    base = []
missing = [n for n in base if n not in ok]
print("baseline result lines reported OK: %d of %d" % (len(base) - len(missing), len(base)))
if missing: print("NOT reported OK:", missing)
PY
