#!/usr/bin/python3
"""For every seeded/<ID>-<k>/ : run the check of its property (and any extra ones given in meta 'also') against
HEAD(or base)+patch in a scratch worktree and (re)write meta.json with what was run and what was observed.
usage: seeded_meta.py [<seeded-dir-name> ...]        (default: all)"""
import json, os, re, subprocess, sys
V = "/verif"
def sh(cmd, env=None):
    return subprocess.run(cmd, shell=True, stdout=subprocess.PIPE, stderr=subprocess.STDOUT, text=True, env=env).stdout
names = sys.argv[1:] or sorted(os.listdir(os.path.join(V, "seeded")))
for n in names:
    d = os.path.join(V, "seeded", n)
    if not os.path.isdir(d) or not os.path.exists(os.path.join(d, "patch.diff")):
        continue
    mp = os.path.join(d, "meta.json")
    meta = json.load(open(mp)) if os.path.exists(mp) else {}
    prop = meta.get("property") or n.split("-")[0]
    base = meta.get("base", "HEAD")
    readme = open(os.path.join(d, "README.md")).read() if os.path.exists(os.path.join(d, "README.md")) else ""
    title = next((l.strip("# ").strip() for l in readme.splitlines() if l.startswith("#")), "")
    conf = open(os.path.join(d, "confirm.log")).read() if os.path.exists(os.path.join(d, "confirm.log")) else ""
    results = {}
    for pid in [prop] + meta.get("also", []):
        env = dict(os.environ, BASE=base, TIER=meta.get("tier", "quick"))
        out = sh("%s/scripts/try_seeded.sh %s/patch.diff %s" % (V, d, pid), env)
        keys = sorted(set(re.findall(r"^VIOLATION .*? key=(\S+)", out, re.M)))
        rc = re.findall(r"^rc=(\d+)", out, re.M)
        results[pid] = {"exit_code": int(rc[-1]) if rc else None, "violation_keys": keys[:12], "n_keys": len(keys),
                        "detected": bool(keys) and rc and rc[-1] == "1", "summary": (re.findall(r"^C\d+ tier=.*", out, re.M) or [""])[-1]}
    meta.update({
        "property": prop, "title": title, "base": base,
        "base_commit": sh("git -C /repo rev-parse --short %s" % base).strip(),
        "needs_to_manifest": meta.get("needs_to_manifest") or "see README.md (written by the independent author of the change)",
        "author": "independent sub-agent given only the property text and a scratch worktree (nothing from /verif)",
        "confirmed_by_lead": {"script": "scripts/confirm_seeded.sh (scratch worktree: patch applies, library builds, ctest 27/27 with the change, demo passes on the clean tree and fails with the change)",
                              "result": "CONFIRMED" if "\nCONFIRMED" in conf else ("NOT CONFIRMED" if "NOT CONFIRMED" in conf else "pending"),
                              "testsuite": (re.findall(r"test suite with change: (.*)", conf) or [""])[0],
                              "demo": re.findall(r"(clean tree|with change): demo exit code (\d+)", conf)},
        "checks_run": {pid: "BASE=%s TIER=%s scripts/try_seeded.sh seeded/%s/patch.diff %s" % (base, meta.get("tier", "quick"), n, pid) for pid in results},
        "results": results,
    })
    json.dump(meta, open(mp, "w"), indent=1)
    print(n, {p: (r["detected"], r["n_keys"]) for p, r in results.items()}, meta["confirmed_by_lead"]["result"])
