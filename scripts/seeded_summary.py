#!/usr/bin/python3
"""Write seeded/SUMMARY.md from seeded/*/meta.json (one row per seeded change: what it is, what it needs, which check caught it)."""
import json, os, glob
V = "/verif"
rows = []
for mp in sorted(glob.glob(os.path.join(V, "seeded", "*", "meta.json"))):
    m = json.load(open(mp)); n = os.path.basename(os.path.dirname(mp))
    res = m.get("results", {})
    det = []
    for pid, r in res.items():
        if r.get("detected"):
            det.append("%s (%d key%s, e.g. `%s`)" % (pid, r["n_keys"], "" if r["n_keys"] == 1 else "s", (r["violation_keys"] or ["?"])[0]))
    missed = [pid for pid, r in res.items() if not r.get("detected")]
    rows.append((n, m.get("property", "?"), m.get("title", "").replace("|", "/")[:110], m.get("base_commit", ""), m.get("confirmed_by_lead", {}).get("result", "?"),
                 "; ".join(det) if det else "**not detected**", ", ".join(missed)))
with open(os.path.join(V, "seeded", "SUMMARY.md"), "w") as f:
    f.write("# Seeded changes (written by independent sub-agents from the property text only; confirmed by `scripts/confirm_seeded.sh`)\n\n")
    f.write("Each directory holds `patch.diff`, the demonstration (`demo.c` / `demo.py`), the author's `README.md` (what the change needs in order\nto manifest), `confirm.log` (lead's own confirmation run) and `meta.json` (what was run, what was observed).\n\n")
    f.write("| id | property | change | base | confirmed | caught by (quick tier) | checks run that stay green |\n|---|---|---|---|---|---|---|\n")
    for r in rows:
        f.write("| %s | %s | %s | %s | %s | %s | %s |\n" % r)
    nd = sum(1 for r in rows if r[5].startswith("**not"))
    f.write("\n%d changes, %d caught by at least one check, %d not caught.\n" % (len(rows), len(rows) - nd, nd))
print(open(os.path.join(V, "seeded", "SUMMARY.md")).read()[-200:])
