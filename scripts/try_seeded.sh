#!/bin/bash
# Run checks against a seeded change without touching /repo: scratch worktree of /repo (HEAD, or BASE=<commit>) + patch, VERIF_REPO.
# usage: [BASE=<commit>] [TIER=quick|thorough] try_seeded.sh <patch.diff> <ID> [<ID>...]
P=$(realpath "$1"); shift
WT=/tmp/seedwt_$$
git -C /repo worktree add --detach "$WT" "${BASE:-HEAD}" >/dev/null 2>&1 || exit 3
if ! git -C "$WT" apply "$P"; then echo "PATCH DOES NOT APPLY"; git -C /repo worktree remove --force "$WT"; exit 3; fi
for id in "$@"; do
  echo "=== $id on $(basename $(dirname $P))/$(basename $P) (base ${BASE:-HEAD})"
  VERIF_RUN_TAG="t$$" VERIF_REPO="$WT" /usr/bin/python3 /verif/run_check.py "$id" --tier "${TIER:-quick}" 2>/dev/null | grep -E "^(VIOLATION|KNOWN-FINDING|HARNESS-ERROR|BUILD-ERROR|C[0-9]+ tier)" | cut -c1-260
  echo "rc=${PIPESTATUS[0]}"
done
git -C /repo worktree remove --force "$WT"
rm -rf /verif/build/run/*_scratch_t$$
